from .cli import main
import sys
sys.exit(main())
