"""Finite-domain abstract interpreter over the repository's real ASTs (DESIGN 3.2).
No repository code is executed: function bodies are walked on abstract values."""
import ast
import math
from fractions import Fraction as Fr

from .absval import (NAN, Undecided, Term, OrderVal, Opaque, Vec, NRows, FVal, FStr, DF, GA, Row, Ret, Brk, Cont, Raised,
                     Closure, Module, ClassRef, BoundMethod, T, num, t_add, t_sub, t_mul, t_div, t_neg, fatom, f_exp2,
                     f_log2, f_ceil, f_floor, f_round, f_trunc, f_abs, f_sqrt, f_max, f_min, same, canon_atom, W, INF)

EXT_CANON = {"numpy": "np", "pandas": "pd"}
MAX_DEPTH = 40
MAX_LOOP = 4000


class Ctx:
    """evaluation context: the row class currently being evaluated and the valuation of comparison atoms"""

    def __init__(self):
        self.cls = None
        self.atoms = None        # list (per class) of {canonical atom key: bool}  |  callable(d, op) -> bool
        self.asked = []

    def per_class(self, i, f, *a):
        old = self.cls
        self.cls = i
        try:
            return f(*a)
        finally:
            self.cls = old

    def atom(self, d, op):
        opn = type(op).__name__
        if callable(self.atoms):
            return self.atoms(d, op)
        key, copn = canon_atom(d, opn)
        self.asked.append((key, copn))
        if self.atoms is None or self.cls is None:
            raise Undecided(f"undecidable comparison {d} {opn} 0")
        val = self.atoms[self.cls]
        if (key, copn) in val:
            return val[(key, copn)]
        comp = {"Lt": "GtE", "GtE": "Lt", "Gt": "LtE", "LtE": "Gt", "Eq": "NotEq", "NotEq": "Eq"}.get(copn)
        if (key, comp) in val:
            return not val[(key, comp)]
        if ("sign", key) in val:
            sg = val[("sign", key)]
            return {"Lt": sg < 0, "LtE": sg <= 0, "Gt": sg > 0, "GtE": sg >= 0, "Eq": sg == 0, "NotEq": sg != 0}[copn]
        raise Undecided(f"decision depends on unexpected comparison: {d} {opn} 0")


CTX = Ctx()


def lift1(f, a):
    if not isinstance(a, Vec):
        return f(a)
    r = Vec((CTX.per_class(i, f, x) for i, x in enumerate(a.v)), fresh=a.fresh, aligned=a.aligned)
    r.exact, r.labels = a.exact, a.labels
    return r


def label_hazard(a, b, what):
    """pandas aligns two Series by label: one carrying a table's possibly non-0..n-1 index, the other a fresh 0..n-1 index
    -> values meet the wrong rows (or NaN)"""
    if isinstance(a, Vec) and isinstance(b, Vec):
        for x, y in ((a, b), (b, a)):
            if isinstance(x.aligned, str) and y.fresh and not y.aligned:
                raise Raised("IndexMisalignment", f"{what} of a Series on the table's own index (index kind: {x.aligned}) with a Series on a fresh 0..n-1 index: "
                             "pandas aligns them by label, so rows meet other rows' values unless the table's index happens to be 0..n-1")


def lift2(f, a, b):
    label_hazard(a, b, "elementwise operation")
    n = len(a.v) if isinstance(a, Vec) else len(b.v)
    av = a.v if isinstance(a, Vec) else [a] * n
    bv = b.v if isinstance(b, Vec) else [b] * n
    if len(av) != len(bv):
        raise Undecided("vector length mismatch")
    if isinstance(a, Vec) and isinstance(b, Vec) and a.labels is not None and b.labels is not None and (a.aligned or a.fresh) and (b.aligned or b.fresh) \
            and len(a.labels) == len(av) and len(b.labels) == len(bv) and list(a.labels) != list(b.labels):
        # two Series under different literal labels: pandas pairs the values by label (and re-orders the result), not by position
        raise Undecided("elementwise operation of two Series whose literal index labels differ (pandas aligns them by label)")
    r = Vec((CTX.per_class(i, f, x, y) for i, (x, y) in enumerate(zip(av, bv))),
            fresh=(isinstance(a, Vec) and a.fresh) or (isinstance(b, Vec) and b.fresh),
            aligned=(isinstance(a, Vec) and a.aligned) or (isinstance(b, Vec) and b.aligned))
    r.exact = all(x.exact for x in (a, b) if isinstance(x, Vec))
    labs = [x.labels for x in (a, b) if isinstance(x, Vec) and x.labels is not None and (x.aligned or x.fresh)]
    if labs and all(l == labs[0] for l in labs) and len(labs[0]) == len(r.v):
        r.labels = labs[0]
    return r


def bcast(v, n):
    if isinstance(v, Vec):
        if len(v.v) != n:
            raise Undecided("vector length mismatch in store")
        return list(v.v)
    return [v] * n


def is_nan(x):
    return (isinstance(x, OrderVal) and x.nan) or x is None or x is NAN or (isinstance(x, float) and x != x)


PYCMP = {ast.Lt: lambda x, y: x < y, ast.LtE: lambda x, y: x <= y, ast.Gt: lambda x, y: x > y, ast.GtE: lambda x, y: x >= y,
         ast.Eq: lambda x, y: x == y, ast.NotEq: lambda x, y: x != y}


def _fr(x):
    return Fr(str(x)) if isinstance(x, float) else x


def compare(op, a, b):
    if hasattr(a, "abs_compare"):
        return a.abs_compare(op, b, False)
    if hasattr(b, "abs_compare"):
        return b.abs_compare(op, a, True)
    if type(op) in (ast.Is, ast.IsNot) and (a is None or b is None or isinstance(a, Vec) or isinstance(b, Vec)):
        r = a is b
        return r if isinstance(op, ast.Is) else not r
    if isinstance(a, Vec) or isinstance(b, Vec):
        if type(op) in (ast.In, ast.NotIn) and isinstance(b, Vec) and not isinstance(a, Vec):
            r = any(same(a, x) for x in b.v)
            return r if isinstance(op, ast.In) else not r
        if type(op) in (ast.Eq, ast.NotEq, ast.Lt, ast.LtE, ast.Gt, ast.GtE):
            # element-wise: a missing value (NaN / None) compares unequal to everything, itself included
            return lift2(lambda x, y: isinstance(op, ast.NotEq) if (is_nan(x) or is_nan(y)) else compare(op, x, y), a, b)
        return lift2(lambda x, y: compare(op, x, y), a, b)
    if type(op) in (ast.Is, ast.IsNot):
        r = a is b or (a is None and b is None)
        # objects the model creates afresh at each mention but that are one object in Python: builtin types, modules, repo classes, small constants
        pa, pb = getattr(a, "pytype", None), getattr(b, "pytype", None)
        if pa is not None and pb is not None:
            r = pa is pb
        elif isinstance(a, (Module, ClassRef)) and type(a) is type(b):
            r = a.name == b.name
        elif isinstance(a, bool) and isinstance(b, bool):
            r = a == b
        return r if isinstance(op, ast.Is) else not r
    if type(op) in (ast.In, ast.NotIn):
        if isinstance(b, GA):
            r = a in b.data.cols
        elif isinstance(b, DF):
            r = a in b.cols
        elif isinstance(b, Opaque):
            raise Undecided(f"membership in opaque {b!r}")
        elif isinstance(b, Row):
            r = a in b._d
        else:
            try:
                r = any(same(a, x) for x in b) if not isinstance(b, (str, dict)) else a in b
            except TypeError:
                raise Undecided(f"membership test in {type(b).__name__}")
        return r if isinstance(op, ast.In) else not r
    if isinstance(a, NRows) or isinstance(b, NRows):
        if isinstance(a, NRows) and isinstance(b, NRows):
            if a.pop is not None and a.pop is b.pop:
                return PYCMP[type(op)](0, 0)
            raise Undecided("comparison of the sizes of two different row populations")
        other = b if isinstance(a, NRows) else a
        if isinstance(other, Term) and other.is_const():
            other = other.cval()
        if num(other) and other <= 0:
            # len(table) of a non-empty table vs 0 / negative constant
            return PYCMP[type(op)](1, 0) if isinstance(a, NRows) else PYCMP[type(op)](0, 1)
        raise Undecided(f"comparison of a table size with {other!r}")
    if isinstance(a, Opaque) or isinstance(b, Opaque):
        raise Undecided(f"comparison of opaque value {a!r} / {b!r}")
    if is_nan(a) and (num(b) or isinstance(b, (Term, OrderVal))) or is_nan(b) and (num(a) or isinstance(a, (Term, OrderVal))):
        if a is None and type(op) in (ast.Eq, ast.NotEq) or b is None and type(op) in (ast.Eq, ast.NotEq):
            return isinstance(op, ast.NotEq)
        return isinstance(op, ast.NotEq)          # NaN compares false
    if isinstance(a, OrderVal) or isinstance(b, OrderVal):
        tr = getattr(a, "transform", None) or getattr(b, "transform", None)
        if tr and type(op) in (ast.Lt, ast.LtE, ast.Gt, ast.GtE, ast.Eq, ast.NotEq):
            # decided here by the order of the exponents; in floating point 2**x is only weakly monotone (neighbouring x collide), so a
            # comparison at a boundary can come out differently from the comparison of the untransformed values
            from .absval import W as _W
            _W.hazards.append(f"a value is compared after the transform {tr} instead of as it is ({a!r} vs {b!r})")

        def val(x, other):
            if isinstance(x, OrderVal):
                return x.rep
            if isinstance(x, Term) and not x.is_const() and getattr(other, "transform", None):
                nm = repr(x)
                if nm.startswith("exp2[") and nm.endswith("]"):
                    try:
                        return Fr(2.0 ** float(Fr(nm[5:-1])))            # 2 ** <literal>: its value, to double precision (compared with representatives only)
                    except (ValueError, ZeroDivisionError):
                        pass
            if isinstance(x, Term) and x.is_const():
                x = x.cval()
            if num(x):
                refs = other.refs
                if refs is not None and not any(_fr(x) == _fr(r) for r in refs):
                    raise Undecided(f"{other.name} compared with undeclared reference point {x}")
                return _fr(x)
            raise Undecided(f"order value compared with {x!r}")
        return PYCMP[type(op)](_fr(val(a, b)), _fr(val(b, a)))
    if isinstance(a, Term) or isinstance(b, Term):
        if not (isinstance(a, Term) or num(a) or isinstance(a, bool)) or not (isinstance(b, Term) or num(b) or isinstance(b, bool)):
            if type(op) in (ast.Eq, ast.NotEq):
                return isinstance(op, ast.NotEq)
            raise Undecided(f"ordering of {a!r} and {b!r}")
        d = t_sub(T(a), T(b))
        if d.is_const():
            return PYCMP[type(op)](d.cval(), 0)
        if not d.n.t:
            return PYCMP[type(op)](0, 0)
        if d.lo > 0:
            return PYCMP[type(op)](1, 0)
        if d.hi < 0:
            return PYCMP[type(op)](-1, 0)
        if d.lo >= 0 and type(op) is ast.GtE:
            return True
        if d.lo >= 0 and type(op) is ast.Lt:
            return False
        if d.hi <= 0 and type(op) is ast.LtE:
            return True
        if d.hi <= 0 and type(op) is ast.Gt:
            return False
        return CTX.atom(d, op)
    if isinstance(a, float) or isinstance(b, float):
        if num(a) and num(b):
            return PYCMP[type(op)](_fr(a), _fr(b))
    try:
        return PYCMP[type(op)](a, b)
    except TypeError:
        raise Undecided(f"comparison of {type(a).__name__} and {type(b).__name__}")


def binop(op, a, b):
    if hasattr(a, "abs_binop"):
        return a.abs_binop(op, b, False)
    if hasattr(b, "abs_binop"):
        return b.abs_binop(op, a, True)
    if isinstance(a, Vec) or isinstance(b, Vec):
        return lift2(lambda x, y: binop(op, x, y), a, b)
    if isinstance(a, Opaque) or isinstance(b, Opaque):
        return Opaque("arith", getattr(a, "prov", ()) + getattr(b, "prov", ()))
    if isinstance(op, ast.Mult) and isinstance(a, (list, tuple)) and isinstance(b, NRows):
        return a * b.n
    if isinstance(a, NRows) and isinstance(b, NRows) and isinstance(op, ast.Div):
        # a ratio of two (positive, unknown) table sizes: some positive number
        W = __import__("cnvlint.absval", fromlist=["W"]).W
        W.fresh_id = getattr(W, "fresh_id", 0) + 1
        return Term.sym(f"rows_ratio_{W.fresh_id}", 0, float("inf"), positive=True)
    if isinstance(a, NRows) or isinstance(b, NRows):
        return Opaque("table-size arithmetic")
    if type(op) in (ast.BitAnd, ast.BitOr, ast.BitXor):
        if isinstance(a, bool) and isinstance(b, bool):
            return {ast.BitAnd: a and b, ast.BitOr: a or b, ast.BitXor: a != b}[type(op)]
        if isinstance(a, (set, frozenset, int)) and isinstance(b, (set, frozenset, int)):
            return {ast.BitAnd: lambda x, y: x & y, ast.BitOr: lambda x, y: x | y, ast.BitXor: lambda x, y: x ^ y}[type(op)](a, b)
        raise Undecided(f"bit operation on {a!r}, {b!r}")
    if a is NAN:
        a = None
    if b is NAN:
        b = None
    if a is None or b is None:
        if is_nan(a) or is_nan(b):
            return None                                        # NaN / masked-out slot propagates
    if is_nan(a) or is_nan(b):
        return a if is_nan(a) else b
    if isinstance(a, (Term, OrderVal)) or isinstance(b, (Term, OrderVal)) or (
            (isinstance(a, (float, Fr)) or isinstance(b, (float, Fr))) and num(a) and num(b)):
        if isinstance(a, (str, tuple, list)) or isinstance(b, (str, tuple, list)):
            raise Undecided("arithmetic on non-number")
        if type(op) is ast.Pow:
            if num(a) and a == 2 and isinstance(b, OrderVal):
                # 2 ** (a value known by its order): on the reals the order is kept, so the result is again known by its order -- but see compare()
                rep = _fr(b.rep)
                r = OrderVal(f"2**{b.name}", Fr(2) ** int(rep) if rep.denominator == 1 and abs(rep) < 512 else Fr(2.0 ** float(rep)), None, nan=b.nan)
                r.sym = f_exp2(b.sym)
                r.transform = "2**x"
                return r
            if num(a) and a == 2:
                return f_exp2(b)
            tb = T(b)
            if tb.is_const() and tb.cval().denominator == 1 and 0 <= tb.cval() <= 8:
                r = Term.const(1)
                for _ in range(int(tb.cval())):
                    r = t_mul(r, T(a))
                return r
            if tb.is_const() and tb.cval() == Fr(1, 2):
                return f_sqrt(a)
            ta_ = T(a)
            if ta_.is_const() and tb.is_const() and ta_.cval() > 0:
                # a rational power of a rational that is itself rational (16 ** -0.5): computed exactly
                base, ex = ta_.cval(), tb.cval()
                if ex.denominator in (2, 3) and abs(ex.numerator) <= 8:
                    def root(x, k):
                        r = round(x ** (1.0 / k))
                        for c in (r - 1, r, r + 1):
                            if c >= 0 and c ** k == x:
                                return c
                        return None
                    rn, rd = root(base.numerator, ex.denominator), root(base.denominator, ex.denominator)
                    if rn is not None and rd is not None and rn > 0:
                        val = Fr(rn, rd) ** abs(ex.numerator)
                        return Term.const(val if ex > 0 else 1 / val)
            return fatom("pow", [T(a), tb])
        if type(op) is ast.FloorDiv:
            ta, tb = T(a), T(b)
            if ta.is_const() and tb.is_const():
                return Term.const(ta.cval() // tb.cval())
            return fatom("floordiv", [ta, tb], integer=True)
        if type(op) is ast.Mod:
            ta, tb = T(a), T(b)
            if ta.is_const() and tb.is_const():
                return Term.const(ta.cval() % tb.cval())
            return fatom("mod", [ta, tb])
        r = {ast.Add: t_add, ast.Sub: t_sub, ast.Mult: t_mul, ast.Div: t_div}[type(op)](T(a), T(b))
        return r
    import operator as o
    f = {ast.Add: o.add, ast.Sub: o.sub, ast.Mult: o.mul, ast.Div: o.truediv, ast.FloorDiv: o.floordiv, ast.Mod: o.mod, ast.Pow: o.pow}.get(type(op))
    if f is None:
        raise Undecided(f"operator {type(op).__name__}")
    if type(op) is ast.Div and isinstance(a, int) and isinstance(b, int) and not isinstance(a, bool):
        if b == 0:
            raise Raised("ZeroDivisionError")
        return Fr(a, b) if a % b else a // b
    if type(op) is ast.Mod and isinstance(a, str):
        return pct_format(a, b)
    if isinstance(a, FStr) or isinstance(b, FStr):
        if type(op) is ast.Add:
            pa = a.parts if isinstance(a, FStr) else [a]
            pb = b.parts if isinstance(b, FStr) else [b]
            return FStr(list(pa) + list(pb))
        raise Undecided("operation on formatted string")
    try:
        return f(a, b)
    except ZeroDivisionError:
        raise Raised("ZeroDivisionError")
    except TypeError as e:
        raise Undecided(f"{type(op).__name__} on {type(a).__name__}, {type(b).__name__}: {e}")


def pct_format(fmt, args):
    """'%s:%d' % (...) with possibly abstract holes"""
    if not isinstance(args, tuple):
        args = (args,)
    if all(isinstance(x, (str, int)) or (isinstance(x, float)) for x in args):
        try:
            return fmt % args
        except Exception:
            pass
    import re
    parts, pos, i = [], 0, 0
    for m in re.finditer(r"%(\([^)]*\))?[-+ #0]*\d*(\.\d+)?[sdgfrei%]", fmt):
        if m.group(0) == "%%":
            continue
        parts.append(fmt[pos:m.start()])
        parts.append(FVal(args[i] if i < len(args) else Opaque("missing-format-arg"), m.group(0)))
        i += 1
        pos = m.end()
    parts.append(fmt[pos:])
    return FStr([p for p in parts if p != ""])


def truth(c):
    if hasattr(c, "abs_truth"):
        return c.abs_truth()
    if isinstance(c, NRows):
        return True
    if isinstance(c, (GA, DF)):
        n = c.data.n if isinstance(c, GA) else c.n
        return n != 0
    if isinstance(c, Term):
        if c.is_const():
            return c.cval() != 0
        if c.lo > 0 or c.hi < 0:
            return True
        if not c.n.t:
            return False
        if c.n.is_const() and c.n.cval() != 0:
            return True
        return CTX.atom(c, ast.NotEq())
    if isinstance(c, OrderVal):
        if c.nan:
            return True
        if c.refs is None or any(r == 0 for r in c.refs):
            return c.rep != 0
        raise Undecided("truthiness of order value without 0 as a reference point")
    if isinstance(c, Vec):
        raise Undecided("truth value of a vector is ambiguous")
    if isinstance(c, Opaque):
        raise Undecided(f"truthiness of {c!r}")
    if isinstance(c, Row):
        return True
    if isinstance(c, (Closure, BoundMethod, Module, ClassRef, FStr)):
        return True
    return bool(c)


class GenList(list):
    """the (eagerly collected) items of an interpreted generator; also usable with next()"""

    def __next__(self):
        if not self:
            raise StopIteration
        return self.pop(0)


class _GenExit(BaseException):
    """unwinds the body of an abandoned lazy generator"""


class _Channel(list):
    """stands in for the list of collected yields while a generator body runs on demand: append() hands one value to the consumer and waits"""

    def __init__(self, gen):
        super().__init__()
        self.gen = gen

    def append(self, v):
        self.gen._hand_over(v)

    def extend(self, vals):
        for v in vals:
            self.gen._hand_over(v)


class LazyGen:
    """an interpreted generator function whose body runs only as far as its consumer asks (needed for endless generators).  The body runs on a
    thread of its own, in strict alternation with the consumer (never concurrently): a yield parks it until the next value is requested."""

    def __init__(self, it, fnode, env):
        import threading
        self.it, self.fnode, self.env = it, fnode, env
        self.env["__yields__"] = _Channel(self)
        self.resume, self.handoff = threading.Event(), threading.Event()
        self.thread = None
        self.value, self.exc, self.finished, self.closed, self.retval = None, None, False, False, None
        self.depth = it.depth
        self.cls = None

    def __iter__(self):
        return self

    def _hand_over(self, v):
        self.value = v
        self.depth, self.cls = self.it.depth, CTX.cls
        self.handoff.set()
        self.resume.wait()
        self.resume.clear()
        if self.closed:
            raise _GenExit()
        self.it.depth, CTX.cls = self.depth, self.cls

    def _run(self):
        self.it.depth, CTX.cls = self.depth, self.cls
        try:
            self.it.block(self.fnode.body, self.env)
        except Ret as r:
            self.retval = r.v
        except _GenExit:
            pass
        except BaseException as e:                         # Undecided / Raised / internal errors surface at the consumer's next()
            self.exc = e
        self.finished = True
        self.handoff.set()

    def __next__(self):
        import threading
        if self.finished:
            raise StopIteration
        mine = (self.it.depth, CTX.cls)
        self.handoff.clear()
        if self.thread is None:
            self.thread = threading.Thread(target=self._run, daemon=True)
            self.thread.start()
        else:
            self.resume.set()
        self.handoff.wait()
        self.it.depth, CTX.cls = mine
        if self.exc is not None:
            e, self.exc = self.exc, None
            raise e
        if self.finished:
            raise StopIteration
        return self.value

    def close(self):
        if self.thread is not None and not self.finished and not self.closed:
            self.closed = True
            self.handoff.clear()
            self.resume.set()
            self.handoff.wait(1)


def _is_endless_generator(fnode):
    """a generator function with a `while <true constant>:` loop that yields: its consumer decides how many values are produced"""
    stack = list(fnode.body)
    while stack:
        x = stack.pop()
        if isinstance(x, (ast.FunctionDef, ast.AsyncFunctionDef, ast.ClassDef, ast.Lambda)):
            continue
        if isinstance(x, ast.While) and isinstance(x.test, ast.Constant) and bool(x.test.value):
            inner = list(x.body)
            while inner:
                y = inner.pop()
                if isinstance(y, (ast.FunctionDef, ast.AsyncFunctionDef, ast.ClassDef, ast.Lambda)):
                    continue
                if isinstance(y, (ast.Yield, ast.YieldFrom)):
                    return True
                inner.extend(ast.iter_child_nodes(y))
        stack.extend(ast.iter_child_nodes(x))
    return False


class Model:
    """Property-specific hooks: primitive summaries and the library model."""

    def __init__(self):
        self.prims = {}            # repo function qualname -> callable(interp, *args, **kw)
        self.method_prims = {}     # GA method/property name -> callable(interp, obj, *args, **kw)
        self.ext = {}              # dotted external callable name -> callable(interp, *args, **kw)
        self.attr_hooks = []       # callables(interp, obj, attr) -> value | NotImplemented
        self.method_hooks = []     # callables(interp, obj, name, args, kw) -> value | NotImplemented
        self.summaries_used = set()
        self.trace_calls = None    # optional list collecting (qualname, args) of interpreted repo calls
        self.builtins = {}         # builtin name -> replacement callable (abstract min / max / abs ...)


SOURCE_FIRST = ("copy", "add_columns", "keep_columns", "as_series", "as_dataframe")


class Interp:
    def __init__(self, prog, model=None):
        self._source_first_active = set()
        self.prog = prog
        self.model = model or Model()
        self.depth = 0
        self._const_cache = {}
        from . import absmodel
        self.lib = absmodel

    # ------------------------------------------------------------------ entry
    def run(self, qn, args, kw=None):
        fi = self.prog.fn(qn)
        return self.call_function(fi.mod, fi.node, list(args), dict(kw or {}), qn=qn)

    def run_method(self, obj, name, args=(), kw=None):
        return self.method(obj, name, list(args), dict(kw or {}))

    # ------------------------------------------------------------------ calls
    @staticmethod
    def bind_like(fnode, args, kw, skip=0):
        """a summarised function is handed its arguments the way its own signature binds them: keyword arguments that continue the positional ones (in parameter order)
        become positional, so a summary written for `f(a, b, c)` also serves `f(a, c=.., b=..)`"""
        if fnode is None or fnode.args.vararg is not None:
            return list(args), dict(kw)
        names = [x.arg for x in fnode.args.posonlyargs + fnode.args.args][skip:]
        args, kw = list(args), dict(kw)
        for nm in names[len(args):]:
            if nm in kw:
                args.append(kw.pop(nm))
            else:
                break
        return args, kw

    def call_function(self, mod, fnode, args, kw, closure_env=None, qn=None):
        if qn and qn in self.model.prims:
            self.model.summaries_used.add(qn)
            args, kw = self.bind_like(fnode, args, kw)
            return self.model.prims[qn](self, *args, **kw)
        if self.model.trace_calls is not None and qn:
            self.model.trace_calls.append((qn, args, kw))
        self.depth += 1
        if self.depth > MAX_DEPTH:
            self.depth -= 1
            raise Undecided(f"call depth bound exceeded at {qn}")
        try:
            env = dict(closure_env or {})
            env["__mod__"] = mod
            env["__qn__"] = qn
            a = fnode.args
            pos = [x.arg for x in a.posonlyargs + a.args]
            defaults = [None] * (len(pos) - len(a.defaults)) + list(a.defaults)
            kw = dict(kw)
            nposargs = len(args)
            for i, p in enumerate(pos):
                if i < nposargs:
                    env[p] = args[i]
                elif p in kw:
                    env[p] = kw.pop(p)
                elif defaults[i] is not None:
                    env[p] = self.default_value(defaults[i], closure_env, mod)
                else:
                    raise Undecided(f"missing argument {p} for {getattr(fnode, 'name', '<lambda>')}")
            if a.vararg:
                env[a.vararg.arg] = tuple(args[len(pos):])
            elif nposargs > len(pos):
                raise Undecided(f"too many positional arguments for {getattr(fnode, 'name', '<lambda>')}")
            for x, d in zip(a.kwonlyargs, a.kw_defaults):
                if x.arg in kw:
                    env[x.arg] = kw.pop(x.arg)
                elif d is not None:
                    env[x.arg] = self.default_value(d, closure_env, mod)
                else:
                    raise Undecided(f"missing keyword-only argument {x.arg}")
            if a.kwarg:
                env[a.kwarg.arg] = kw
            elif kw:
                raise Undecided(f"unexpected keyword arguments {sorted(kw)} for {getattr(fnode, 'name', '<lambda>')}")
            is_gen = _is_generator(fnode)
            if is_gen and _is_endless_generator(fnode):
                return LazyGen(self, fnode, env)           # `while True: ... yield ...`: produced on demand (next / zip / islice / break decide how far)
            if is_gen:
                env["__yields__"] = []
            retval = None
            try:
                self.block(fnode.body, env)
            except Ret as r:
                if not is_gen:
                    return r.v
                retval = r.v
            if is_gen:
                g = GenList(env["__yields__"])
                g.retval = retval                           # the value of `x = yield from <this generator>`
                return g
            return None
        finally:
            self.depth -= 1

    def default_value(self, node, closure_env, mod):
        """a parameter default is evaluated once, when the function is defined: for a module-level function or method that is once per
        process, so a mutable default (`seen={}`) is one object shared by every call"""
        if closure_env:
            return self.ev(node, dict(closure_env, __mod__=mod))            # nested function: defined anew on each call of the enclosing one
        if isinstance(node, ast.Constant):
            return node.value
        cache = self.__dict__.setdefault("_default_cache", {})
        if id(node) not in cache:
            cache[id(node)] = self.ev(node, {"__mod__": mod})
        return cache[id(node)]

    def closure_for(self, fi, self_obj=None):
        c = Closure(fi.node, {}, fi.mod, fi.qn, self_obj)
        return c

    def call(self, f, args, kw):
        if isinstance(f, Closure):
            if f.self_obj is not None:
                args = [f.self_obj] + list(args)
            v = self.apply_decorators_call(f, args, kw)
            return v
        if isinstance(f, BoundMethod):
            return self.method(f.obj, f.name, args, kw)
        if isinstance(f, ClassRef):
            return self.construct(f.name, args, kw)
        if isinstance(f, Module):
            return self.ext_call(f.name, args, kw)
        if isinstance(f, Opaque):
            return Opaque(f"{f.why}()", f.prov)
        if isinstance(f, Row) and f._d.get("__class__") in self.prog.classes:
            fm = self.prog.find_method(f._d["__class__"], "__call__")          # an instance of a class that defines __call__
            if fm is not None:
                return self.call_function(fm.mod, fm.node, [f] + list(args), kw, qn=fm.qn)
        if callable(f):
            try:
                return f(*args, **kw)
            except (Undecided, Raised, Ret, Brk, Cont):
                raise
            except StopIteration:
                raise Raised("StopIteration")
            except (TypeError, ValueError, KeyError, IndexError, AttributeError) as e:
                raise Undecided(f"builtin call failed on abstract values: {type(e).__name__}: {e}")
        raise Undecided(f"call of {f!r}")

    def apply_decorators_call(self, f, args, kw):
        """Call a repo function through its decorators (modelled ones only; others are transparent
        when listed in TRANSPARENT_DECORATORS, else undecided)."""
        node = f.node
        decs = getattr(node, "decorator_list", [])
        handled = self.lib.decorated_call(self, f, decs, args, kw)
        if handled is not NotImplemented:
            return handled
        return self.call_function(f.mod, node, args, kw, f.env, qn=f.qn)

    def construct(self, clsname, args, kw):
        if clsname in self.prog.classes and any(c in ("GenomicArray",) for c in self.prog.mro(clsname)):
            data = args[0] if args else kw.get("data_table")
            meta = args[1] if len(args) > 1 else kw.get("meta_dict")
            if isinstance(data, DF):
                return GA(clsname, data, data.n, meta if isinstance(meta, dict) else {})
            if isinstance(data, GA):
                return GA(clsname, data.data, data.data.n, meta if isinstance(meta, dict) else {})
            if isinstance(data, list) and not data:
                return GA(clsname, DF({}, 0), 0, meta if isinstance(meta, dict) else {})
            raise Undecided(f"construction of {clsname} from {type(data).__name__}")
        if clsname in self.prog.classes:
            init = self.prog.find_method(clsname, "__init__")
            ci = self.prog.classes[clsname]
            record = "NamedTuple" in ci.bases or any("dataclass" in ast.unparse(d) for d in ci.node.decorator_list)
            if record and not init:
                # typing.NamedTuple / @dataclass: the constructor binds the annotated fields in order (defaults from the class body)
                fields = [(st.target.id, st.value) for c in reversed(self.prog.mro(clsname)) if c in self.prog.classes
                          for st in self.prog.classes[c].node.body if isinstance(st, ast.AnnAssign) and isinstance(st.target, ast.Name)]
                names = [f_ for f_, _ in fields]
                if len(args) > len(names) or any(k_ not in names for k_ in kw):
                    raise Raised("TypeError", f"{clsname}() got unexpected arguments")
                vals = dict(zip(names, args))
                for k_, v_ in kw.items():
                    if k_ in vals:
                        raise Raised("TypeError", f"{clsname}() got multiple values for {k_}")
                    vals[k_] = v_
                for f_, default in fields:
                    if f_ not in vals:
                        if default is None:
                            raise Raised("TypeError", f"{clsname}() missing argument {f_}")
                        vals[f_] = self.ev(default, {"__mod__": ci.mod})
                obj = Row({f_: vals[f_] for f_ in names}, list(names))
                obj._d["__class__"] = clsname
                return obj
            obj = Row({"__class__": clsname})
            if init:
                self.call_function(init.mod, init.node, [obj] + list(args), kw, qn=init.qn)
            return obj
        raise Undecided(f"construction of {clsname}")

    def method(self, obj, name, args, kw):
        for h in self.model.method_hooks:
            r = h(self, obj, name, args, kw)
            if r is not NotImplemented:
                return r
        if isinstance(obj, GA) and name == "__class__":
            return self.construct(obj.cls, list(args), dict(kw))          # self.__class__(table, meta)
        if isinstance(obj, GA):
            if name in self.model.method_prims:
                self.model.summaries_used.add("method:" + name)
                fm_ = self.prog.find_method(obj.cls, name)
                if fm_ is not None and "property" not in fm_.decorators:
                    args, kw = self.bind_like(fm_.node, args, kw, skip=1)
                return self.model.method_prims[name](self, obj, *args, **kw)
            if name in SOURCE_FIRST and name not in self._source_first_active:
                # small GenomicArray helpers with a built-in summary: the repository's own body is interpreted when it can be,
                # so that a change to it is seen; the summary (the pinned source's meaning) is the fallback
                fm0 = self.prog.find_method(obj.cls, name)
                if fm0 is not None:
                    self._source_first_active.add(name)
                    try:
                        return self.call(Closure(fm0.node, {}, fm0.mod, fm0.qn), [obj] + list(args), kw)
                    except Undecided:
                        pass
                    finally:
                        self._source_first_active.discard(name)
            r = self.lib.ga_builtin(self, obj, name, args, kw)
            if r is not NotImplemented:
                return r
            fm = self.prog.find_method(obj.cls, name)
            if fm:
                if "classmethod" in fm.decorators:
                    # a classmethod reached through an instance receives the instance's class
                    return self.call_function(fm.mod, fm.node, [ClassRef(obj.cls)] + list(args), kw, qn=fm.qn)
                if "staticmethod" in fm.decorators:
                    return self.call_function(fm.mod, fm.node, list(args), kw, qn=fm.qn)
                return self.call(Closure(fm.node, {}, fm.mod, fm.qn), [obj] + list(args), kw)
            raise Undecided(f"GA method {name}")
        if isinstance(obj, Module):
            return self.module_call(obj, name, args, kw)
        if isinstance(obj, ClassRef):
            fm = self.prog.find_method(obj.name, name)
            if fm:
                if "classmethod" in fm.decorators:
                    return self.call_function(fm.mod, fm.node, [obj] + list(args), kw, qn=fm.qn)
                if "staticmethod" not in fm.decorators and args and isinstance(args[0], GA) and obj.name in self.prog.mro(args[0].cls):
                    # Class.method(instance, ...) is instance.method(...): the same dispatch (summaries, hooks, the instance's own class)
                    return self.method(args[0], name, list(args[1:]), kw)
                return self.call_function(fm.mod, fm.node, list(args), kw, qn=fm.qn)
            raise Undecided(f"class attribute call {obj.name}.{name}")
        if isinstance(obj, Row) and obj._d.get("__super__"):
            return self.call(self.lib.value_attr(self, obj, name), args, kw)
        if isinstance(obj, Row) and obj._d.get("__class__") in self.prog.classes:
            fm = self.prog.find_method(obj._d["__class__"], name)
            if fm:
                return self.call_function(fm.mod, fm.node, [obj] + list(args), kw, qn=fm.qn)
        return self.lib.value_method(self, obj, name, args, kw)

    def module_call(self, m, name, args, kw):
        if m.repo:
            r = self.prog.resolve_name(m.name, name)
            if r is None:
                sub = f"{m.name}.{name}"
                raise Undecided(f"{sub} not found")
            return self.call(self.value_of_resolved(r), args, kw)
        return self.ext_call(f"{m.name}.{name}", args, kw)

    def ext_call(self, dotted, args, kw):
        if dotted in self.model.ext:
            return self.model.ext[dotted](self, *args, **kw)
        return self.lib.ext_call(self, dotted, args, kw)

    # ------------------------------------------------------------------ names
    def value_of_resolved(self, r):
        kind = r[0]
        if kind == "func":
            fi = r[1]
            if fi.qn in self.model.prims:
                fn = self.model.prims[fi.qn]
                self.model.summaries_used.add(fi.qn)
                def w(*a, fn=fn, fnode=fi.node, **k):
                    a, k = self.bind_like(fnode, a, k)
                    return fn(self, *a, **k)
                w.qn = fi.qn                  # (a summarised function passed on as a value is still that function)
                return w
            return Closure(fi.node, {}, fi.mod, fi.qn)
        if kind == "class":
            return ClassRef(r[1].name)
        if kind == "mod":
            return Module(r[1], repo=True)
        if kind == "ext":
            root = r[1].split(".")[0]
            name = EXT_CANON.get(root, root) + r[1][len(root):]
            return Module(name)
        if kind == "const":
            key = (r[2], id(r[1]))
            if key not in self._const_cache:
                self._const_cache[key] = self.ev(r[1], {"__mod__": r[2]})
            return self._const_cache[key]
        raise Undecided(f"cannot resolve {r!r}")

    def lookup(self, name, env):
        if name in env:
            return env[name]
        mod = env.get("__mod__")
        qn = env.get("__qn__")
        if qn:
            # sibling nested function defined in an enclosing function is in env already (closures capture env)
            pass
        r = self.prog.resolve_name(mod, name) if mod else None
        if r is not None:
            return self.value_of_resolved(r)
        if name in self.model.builtins:
            return self.model.builtins[name]
        b = self.lib.builtin(self, name)
        if b is not NotImplemented:
            return b
        import builtins as _b
        if mod and not hasattr(_b, name) and not self.prog.has_star_import(mod, name):
            # neither a local, nor bound anywhere in the module, nor a Python builtin: the reference raises at run time
            raise Raised("NameError", f"name {name!r} is not defined in {mod}")
        raise Undecided(f"name {name} (module {mod})")

    # ------------------------------------------------------------------ statements
    def block(self, stmts, env):
        for s in stmts:
            self.stmt(s, env)

    def stmt(self, s, env):
        if isinstance(s, ast.Expr):
            if not isinstance(s.value, ast.Constant):
                self.ev(s.value, env)
        elif isinstance(s, ast.Return):
            raise Ret(self.ev(s.value, env) if s.value is not None else None)
        elif isinstance(s, (ast.Pass, ast.Import, ast.ImportFrom, ast.Global, ast.Nonlocal)):
            if isinstance(s, (ast.Import, ast.ImportFrom)):
                self.local_import(s, env)
        elif isinstance(s, ast.Assert):
            try:
                ok = truth(self.ev(s.test, env))
            except Undecided:
                ok = True                                  # asserts are documentation unless provably false
            if ok is False:
                raise Raised("AssertionError", ast.unparse(s.test)[:60])
        elif isinstance(s, ast.If):
            self.block(s.body if truth(self.ev(s.test, env)) else s.orelse, env)
        elif isinstance(s, ast.Assign):
            v = self.ev(s.value, env)
            for t in s.targets:
                self.assign(t, v, env)
        elif isinstance(s, ast.AnnAssign):
            if s.value is not None:
                self.assign(s.target, self.ev(s.value, env), env)
        elif isinstance(s, ast.AugAssign):
            cur = self.ev(s.target, env)
            v = self.ev(s.value, env)
            if isinstance(cur, list) and isinstance(s.op, ast.Add) and isinstance(s.target, ast.Name):
                cur.extend(v)                              # list += mutates in place
                return
            res = self.aug(s.op, cur, v)
            if isinstance(s.target, ast.Name) and isinstance(cur, Vec) and isinstance(res, Vec) and len(res.v) == len(cur.v):
                # ndarray / Series `op=` works in place: every other reference to the object (a caller's argument, the array it is a view of, its views) changes with it
                cur.v = list(res.v)
                self.lib.sync_views(cur)
                return
            self.assign(s.target, res, env, aug=True)
        elif isinstance(s, ast.For):
            seq = self.iterate(self.ev(s.iter, env))
            broke = False
            for k, item in enumerate(seq):
                if k > MAX_LOOP:
                    raise Undecided("loop bound exceeded")
                self.assign(s.target, item, env)
                try:
                    self.block(s.body, env)
                except Brk:
                    broke = True
                    break
                except Cont:
                    continue
            if not broke:
                self.block(s.orelse, env)
        elif isinstance(s, ast.While):
            k = 0
            broke = False
            while truth(self.ev(s.test, env)):
                k += 1
                if k > MAX_LOOP:
                    raise Undecided("while-loop bound exceeded")
                try:
                    self.block(s.body, env)
                except Brk:
                    broke = True
                    break
                except Cont:
                    continue
            if not broke:
                self.block(s.orelse, env)
        elif isinstance(s, ast.Break):
            raise Brk()
        elif isinstance(s, ast.Continue):
            raise Cont()
        elif isinstance(s, (ast.FunctionDef, ast.AsyncFunctionDef)):
            qn = (env.get("__qn__") + "." + s.name) if env.get("__qn__") else None
            env[s.name] = Closure(s, env, env.get("__mod__"), qn)
        elif isinstance(s, ast.Raise):
            name, text = "Exception", ""
            if s.exc is not None:
                e = s.exc
                name = ast.unparse(e.func) if isinstance(e, ast.Call) else ast.unparse(e)
                text = ast.unparse(e)[:80]
            raise Raised(name, text)
        elif isinstance(s, ast.Match):
            subject = self.ev(s.subject, env)
            for case in s.cases:
                trial = dict(env)
                if self.match_pattern(case.pattern, subject, trial) and (case.guard is None or truth(self.ev(case.guard, trial))):
                    for k_, v_ in trial.items():          # captures are ordinary local bindings
                        env[k_] = v_
                    self.block(case.body, env)
                    break
        elif isinstance(s, ast.With):
            for it in s.items:
                v = self.ev(it.context_expr, env)
                if it.optional_vars is not None:
                    self.assign(it.optional_vars, self.lib.enter_context(self, v), env)
            self.block(s.body, env)
        elif isinstance(s, ast.Try):
            try:
                self.block(s.body, env)
            except Raised as r:
                for h in s.handlers:
                    names = []
                    if h.type is not None:
                        names = [ast.unparse(x) for x in (h.type.elts if isinstance(h.type, ast.Tuple) else [h.type])]
                    short = r.exc_name.split(".")[-1]
                    if h.type is None or any(n.split(".")[-1] in (short, "Exception", "BaseException") or
                                             (short in ("KeyError", "IndexError") and n == "LookupError") for n in names):
                        if h.name:
                            env[h.name] = Opaque("exception")
                        self.block(h.body, env)
                        break
                else:
                    self.block(s.finalbody, env)
                    raise
            else:
                self.block(s.orelse, env)
            self.block(s.finalbody, env)
        elif isinstance(s, ast.Delete):
            for t in s.targets:
                if isinstance(t, ast.Subscript):
                    obj = self.ev(t.value, env)
                    k = self.ev(t.slice, env)
                    if isinstance(obj, GA):
                        obj = obj.data
                    if isinstance(obj, DF):
                        obj.cols.pop(k, None)
                    elif isinstance(obj, (dict, list)):
                        del obj[k]
                    else:
                        raise Undecided("del on " + type(obj).__name__)
                elif isinstance(t, ast.Name):
                    env.pop(t.id, None)
        elif isinstance(s, ast.ClassDef):
            raise Undecided("local class definition")
        else:
            raise Undecided(f"statement {type(s).__name__}")

    def local_import(self, s, env):
        mod = env.get("__mod__")
        m = self.prog.modules.get(mod)
        if isinstance(s, ast.Import):
            for a in s.names:
                root = a.name.split(".")[0]
                env[a.asname or root] = Module(EXT_CANON.get(a.name, a.name) if a.asname else EXT_CANON.get(root, root),
                                               repo=(a.name in self.prog.modules))
        else:
            src = self.prog._resolve_from(m, s.level, s.module) if m else s.module
            for a in s.names:
                full = f"{src}.{a.name}"
                if full in self.prog.modules:
                    env[a.asname or a.name] = Module(full, repo=True)
                elif src in self.prog.modules:
                    r = self.prog.resolve_name(src, a.name)
                    if r is None:
                        raise Undecided(f"import {full}")
                    env[a.asname or a.name] = self.value_of_resolved(r)
                else:
                    root = src.split(".")[0]
                    env[a.asname or a.name] = Module(EXT_CANON.get(root, root) + src[len(root):] + "." + a.name)

    def aug(self, op, cur, v):
        if isinstance(cur, Vec) and isinstance(cur.v, list) and any(x is _MASKED for x in cur.v):
            vv = bcast(v, len(cur.v)) if not (isinstance(v, Vec) and len(v.v) != len(cur.v)) else v.v
            return Vec(_MASKED if c is _MASKED else CTX.per_class(i, binop, op, c, x) for i, (c, x) in enumerate(zip(cur.v, vv)))
        return binop(op, cur, v)

    def iterate(self, v):
        if isinstance(v, GA):
            cols = v.data.cols
            n = v.data.n
            fields = list(cols)
            return [Row({c: cols[c].v[i] for c in fields}, fields) for i in range(n)]
        if isinstance(v, Vec):
            return list(v.v)
        if isinstance(v, (list, tuple, set, frozenset, range, str)):
            return list(v)
        if isinstance(v, dict):
            return list(v)
        if isinstance(v, Row):
            return list(v)
        if hasattr(v, "__next__"):
            return v
        if hasattr(v, "abs_iter"):
            return v.abs_iter()
        if isinstance(v, DF):
            return list(v.cols)
        raise Undecided(f"iteration over {type(v).__name__} {v!r}")

    def assign(self, t, v, env, aug=False):
        if isinstance(t, ast.Name):
            env[t.id] = v
        elif isinstance(t, (ast.Tuple, ast.List)):
            items = self.iterate(v)
            items = list(items)
            star = [i for i, e in enumerate(t.elts) if isinstance(e, ast.Starred)]
            if star:
                i = star[0]
                nafter = len(t.elts) - i - 1
                for tt, vv in zip(t.elts[:i], items[:i]):
                    self.assign(tt, vv, env)
                self.assign(t.elts[i].value, list(items[i:len(items) - nafter]), env)
                for tt, vv in zip(t.elts[i + 1:], items[len(items) - nafter:]):
                    self.assign(tt, vv, env)
                return
            if len(items) != len(t.elts):
                raise Raised("ValueError", "unpack length mismatch")
            for tt, vv in zip(t.elts, items):
                self.assign(tt, vv, env)
        elif isinstance(t, ast.Subscript):
            obj = self.ev(t.value, env)
            k = self.ev(t.slice, env)
            if isinstance(obj, GA) and not aug and isinstance(k, tuple) and not getattr(self, "_in_ga_setitem", False):
                # arr[rows, col] = value: through the repository's own GenomicArray.__setitem__ when it can be interpreted
                fm = self.prog.find_method(obj.cls, "__setitem__")
                if fm is not None:
                    self._in_ga_setitem = True
                    try:
                        self.call(Closure(fm.node, {}, fm.mod, fm.qn), [obj, k, v], {})
                        return
                    except Undecided:
                        pass                      # fall back to the summary below (same semantics as the pinned source)
                    finally:
                        self._in_ga_setitem = False
            self.lib.store_subscript(self, obj, k, v, aug)
        elif isinstance(t, ast.Attribute):
            obj = self.ev(t.value, env)
            if isinstance(obj, GA):
                if t.attr in ("data", "meta"):
                    setattr(obj, t.attr, v)
                    return
                st = self.prog.find_method(obj.cls, t.attr, setter=True)
                if st:
                    self.call_function(st.mod, st.node, [obj, v], {}, qn=st.qn)
                    return
                raise Undecided(f"attribute store {t.attr} on GA")
            if isinstance(obj, DF):
                if t.attr == "columns":
                    names = list(self.iterate(v))
                    old = [c for c in obj.cols if not c.startswith("__")]
                    if len(names) != len(old):
                        raise Raised("ValueError", "Length mismatch")
                    hidden = {c: x for c, x in obj.cols.items() if c.startswith("__")}
                    obj.cols = dict({nn: obj.cols[oo] for nn, oo in zip(names, old)}, **hidden)
                    return
                obj.cols[t.attr] = Vec(bcast(v, obj.n))
                return
            if isinstance(obj, Row):
                obj._d[t.attr] = v
                if t.attr not in obj._fields:
                    obj._fields.append(t.attr)
                return
            if hasattr(obj, "abs_setattr"):
                obj.abs_setattr(t.attr, v)
                return
            raise Undecided(f"attribute store on {type(obj).__name__}")
        elif isinstance(t, ast.Starred):
            self.assign(t.value, v, env)
        else:
            raise Undecided("assign target")

    # ------------------------------------------------------------------ expressions
    def ev(self, n, env):
        if isinstance(n, ast.Constant):
            return n.value
        if isinstance(n, ast.Name):
            return self.lookup(n.id, env)
        if isinstance(n, ast.Tuple):
            return tuple(self.ev_seq(n.elts, env))
        if isinstance(n, ast.List):
            return list(self.ev_seq(n.elts, env))
        if isinstance(n, ast.Set):
            return set(self.ev_seq(n.elts, env))
        if isinstance(n, ast.Dict):
            d = {}
            for k, v in zip(n.keys, n.values):
                if k is None:
                    d.update(self.ev(v, env))
                else:
                    d[self.ev(k, env)] = self.ev(v, env)
            return d
        if isinstance(n, ast.IfExp):
            return self.ev(n.body if truth(self.ev(n.test, env)) else n.orelse, env)
        if isinstance(n, ast.UnaryOp):
            v = self.ev(n.operand, env)
            if hasattr(v, "abs_unary"):
                return v.abs_unary(n.op)
            if isinstance(n.op, ast.Invert):
                if isinstance(v, bool):
                    # a lone boolean: for a numpy bool `~` is the logical not (what is returned here), for a plain Python bool it is -1 / -2, both truthy.
                    # The abstract value does not tell the two apart, so the step is recorded; a harness that passed a Python bool in checks for it.
                    from .absval import W as _W
                    _W.hazards.append(f"~ applied to the boolean `{ast.unparse(n.operand)[:40]}` (a plain Python bool gives -1 / -2, which are both truthy)")

                def inv(x):
                    if isinstance(x, bool):
                        return not x
                    if isinstance(x, int):
                        return ~x
                    if x is _MASKED:
                        return x
                    raise Undecided(f"~ on {x!r}")
                return lift1(inv, v) if isinstance(v, Vec) else inv(v)
            if isinstance(n.op, ast.Not):
                return not truth(v)
            if isinstance(n.op, ast.USub):
                return lift1(lambda x: (x if is_nan(x) else (-x if num(x) and not isinstance(x, float) else t_neg(T(x)))), v)
            if isinstance(n.op, ast.UAdd):
                return v
        if isinstance(n, ast.BoolOp):
            last = None
            for e in n.values:
                last = self.ev(e, env)
                t = truth(last)
                if isinstance(n.op, ast.And) and not t:
                    return last
                if isinstance(n.op, ast.Or) and t:
                    return last
            return last
        if isinstance(n, ast.BinOp):
            return binop(n.op, self.ev(n.left, env), self.ev(n.right, env))
        if isinstance(n, ast.Compare):
            left = self.ev(n.left, env)
            res = True
            for op, c in zip(n.ops, n.comparators):
                r = self.ev(c, env)
                cur = compare(op, left, r)
                if isinstance(cur, Vec) or isinstance(res, Vec):
                    res = cur if res is True else lift2(lambda x, y: x and y, res, cur)
                else:
                    if not cur:
                        return False
                    res = cur
                left = r
            return res
        if isinstance(n, ast.Lambda):
            fn = ast.FunctionDef(name="<lambda>", args=n.args, body=[ast.Return(value=n.body)], decorator_list=[], lineno=n.lineno, col_offset=0)
            return Closure(fn, env, env.get("__mod__"))
        if isinstance(n, ast.Yield):
            env["__yields__"].append(self.ev(n.value, env) if n.value is not None else None)
            return None
        if isinstance(n, ast.YieldFrom):
            sub = self.ev(n.value, env)
            env["__yields__"].extend(self.iterate(sub))
            return getattr(sub, "retval", None)
        if isinstance(n, ast.JoinedStr):
            parts = []
            for p in n.values:
                if isinstance(p, ast.Constant):
                    parts.append(p.value)
                else:
                    v = self.ev(p.value, env)
                    spec = ast.unparse(p.format_spec) if p.format_spec is not None else None
                    if isinstance(v, (str, int)) and not isinstance(v, bool) and spec is None and p.conversion == -1:
                        parts.append(str(v))
                    else:
                        parts.append(FVal(v, spec if p.conversion == -1 else f"!{chr(p.conversion)}{spec or ''}"))
            if all(isinstance(p, str) for p in parts):
                return "".join(parts)
            merged = []
            for p in parts:
                if isinstance(p, str) and merged and isinstance(merged[-1], str):
                    merged[-1] += p
                else:
                    merged.append(p)
            return FStr(merged)
        if isinstance(n, ast.Attribute):
            return self.attribute(self.ev(n.value, env), n.attr)
        if isinstance(n, ast.Subscript):
            obj = self.ev(n.value, env)
            k = self.ev(n.slice, env)
            if isinstance(obj, GA) and isinstance(k, Vec) and not getattr(self, "_in_ga_getitem", False):
                # arr[mask / row list]: through the repository's own GenomicArray.__getitem__ when it can be interpreted
                fm = self.prog.find_method(obj.cls, "__getitem__")
                if fm is not None:
                    self._in_ga_getitem = True
                    try:
                        return self.call(Closure(fm.node, {}, fm.mod, fm.qn), [obj, k], {})
                    except Undecided:
                        pass                      # fall back to the summary (the pinned source's semantics)
                    finally:
                        self._in_ga_getitem = False
            return self.lib.load_subscript(self, obj, k)
        if isinstance(n, ast.Slice):
            return slice(self.ev(n.lower, env) if n.lower else None, self.ev(n.upper, env) if n.upper else None,
                         self.ev(n.step, env) if n.step else None)
        if isinstance(n, ast.Call):
            args = []
            for a in n.args:
                if isinstance(a, ast.Starred):
                    args.extend(self.iterate(self.ev(a.value, env)))
                else:
                    args.append(self.ev(a, env))
            kw = {}
            for k in n.keywords:
                if k.arg is None:
                    m = self.ev(k.value, env)
                    if isinstance(m, DF):
                        # f(**frame): the mapping protocol of a DataFrame -- column name -> that column, a Series carrying the frame's own index
                        for c in [c for c in m.cols if not c.startswith("__")]:
                            col = self.lib.load_subscript(self, m, c)
                            if isinstance(col, Vec) and m.index == "range" and m.labels is None:
                                col = Vec(col.v, fresh=True)          # built with the default 0..n-1 index: not the index of the table it is handed to
                                col.exact = getattr(m, "exact", False)
                            kw[c] = col
                    elif isinstance(m, (dict, Row)):
                        kw.update(m if isinstance(m, dict) else m._asdict())
                    else:
                        raise Undecided(f"** of {type(m).__name__}")
                else:
                    kw[k.arg] = self.ev(k.value, env)
            if isinstance(n.func, ast.Attribute):
                obj = self.ev(n.func.value, env)
                if isinstance(obj, Module):
                    return self.module_call(obj, n.func.attr, args, kw)
                return self.method(obj, n.func.attr, args, kw)
            if isinstance(n.func, ast.Name) and n.func.id == "super":
                return Row({"__super__": True, "self": env.get("self"), "cls": env.get("__qn__")})
            return self.call(self.ev(n.func, env), args, kw)
        if isinstance(n, ast.GeneratorExp):
            # lazy, as in Python: the outermost iterable is evaluated now, every element only when it is asked for (a consumer that stops early --
            # zip with a shorter partner, next(), any() -- never evaluates the rest)
            first = self.iterate(self.ev(n.generators[0].iter, env))

            def gen(i, e, source=None):
                if i == len(n.generators):
                    yield self.ev(n.elt, e)
                    return
                g = n.generators[i]
                for item in (source if source is not None else self.iterate(self.ev(g.iter, e))):
                    e2 = dict(e)
                    self.assign(g.target, item, e2)
                    if all(truth(self.ev(c, e2)) for c in g.ifs):
                        yield from gen(i + 1, e2)
            return gen(0, env, first)
        if isinstance(n, (ast.ListComp, ast.SetComp)):
            out = []
            self.comp(n.generators, 0, env, lambda e2: out.append(self.ev(n.elt, e2)))
            return set(out) if isinstance(n, ast.SetComp) else out
        if isinstance(n, ast.DictComp):
            out = {}
            self.comp(n.generators, 0, env, lambda e2: out.__setitem__(self.ev(n.key, e2), self.ev(n.value, e2)))
            return out
        if isinstance(n, ast.NamedExpr):
            v = self.ev(n.value, env)
            self.assign(n.target, v, env)
            return v
        if isinstance(n, ast.Starred):
            return self.ev(n.value, env)
        raise Undecided(f"expression {type(n).__name__}: {ast.unparse(n)[:60]}")

    def ev_seq(self, elts, env):
        out = []
        for e in elts:
            if isinstance(e, ast.Starred):
                out.extend(self.iterate(self.ev(e.value, env)))
            else:
                out.append(self.ev(e, env))
        return out

    def match_pattern(self, p, v, env):
        """structural pattern matching (PEP 634) of an abstract value; captures go into `env`"""
        if isinstance(p, ast.MatchAs):
            if p.pattern is not None and not self.match_pattern(p.pattern, v, env):
                return False
            if p.name is not None:
                env[p.name] = v
            return True
        if isinstance(p, ast.MatchOr):
            for alt in p.patterns:
                trial = dict(env)
                if self.match_pattern(alt, v, trial):
                    env.update(trial)
                    return True
            return False
        if isinstance(p, ast.MatchValue):
            return truth(compare(ast.Eq(), v, self.ev(p.value, env)))
        if isinstance(p, ast.MatchSingleton):
            return v is p.value or (p.value is None and v is None)
        if isinstance(p, ast.MatchClass):
            if p.kwd_patterns:
                raise Undecided("class pattern with keyword sub-patterns")
            isinst = self.lib.builtin(self, "isinstance")
            if not truth(isinst(v, self.ev(p.cls, env))):
                return False
            if not p.patterns:
                return True
            if len(p.patterns) == 1 and ast.unparse(p.cls) in ("int", "str", "float", "bool", "tuple", "list", "bytes", "dict", "set", "frozenset"):
                return self.match_pattern(p.patterns[0], v, env)          # builtin classes match their single positional sub-pattern against the subject itself
            raise Undecided("class pattern with positional sub-patterns")
        if isinstance(p, ast.MatchSequence):
            if isinstance(v, (str, bytes, dict, set, frozenset)) or not isinstance(v, (list, tuple)):
                if isinstance(v, (Vec, GA, DF, Opaque)) or hasattr(v, "abs_iter"):
                    if isinstance(v, Opaque):
                        raise Undecided("sequence pattern on an unmodelled value")
                    return False                          # arrays / tables are not `collections.abc.Sequence`s
                return False
            items = list(v)
            stars = [i for i, q in enumerate(p.patterns) if isinstance(q, ast.MatchStar)]
            if not stars:
                return len(items) == len(p.patterns) and all(self.match_pattern(q, x, env) for q, x in zip(p.patterns, items))
            i = stars[0]
            after = len(p.patterns) - i - 1
            if len(items) < len(p.patterns) - 1:
                return False
            if not all(self.match_pattern(q, x, env) for q, x in zip(p.patterns[:i], items[:i])):
                return False
            if after and not all(self.match_pattern(q, x, env) for q, x in zip(p.patterns[i + 1:], items[len(items) - after:])):
                return False
            if p.patterns[i].name is not None:
                env[p.patterns[i].name] = list(items[i:len(items) - after])
            return True
        raise Undecided(f"pattern {type(p).__name__}")

    def comp(self, gens, i, env, emit):
        if i == len(gens):
            emit(env)
            return
        g = gens[i]
        for item in self.iterate(self.ev(g.iter, env)):
            e2 = dict(env)
            self.assign(g.target, item, e2)
            if all(truth(self.ev(c, e2)) for c in g.ifs):
                self.comp(gens, i + 1, e2, emit)

    def attribute(self, obj, attr):
        for h in self.model.attr_hooks:
            r = h(self, obj, attr)
            if r is not NotImplemented:
                return r
        if isinstance(obj, Module):
            if obj.repo:
                sub = f"{obj.name}.{attr}"
                if sub in self.prog.modules:
                    return Module(sub, repo=True)
                r = self.prog.resolve_name(obj.name, attr)
                if r is None:
                    raise Undecided(f"{sub} not found")
                return self.value_of_resolved(r)
            v = self.lib.ext_attr(self, obj.name, attr)
            return v
        if isinstance(obj, GA):
            if attr in ("data", "meta"):
                return getattr(obj, attr)
            if attr in self.model.method_prims:
                fm = self.prog.find_method(obj.cls, attr)
                if fm and "property" in fm.decorators:
                    self.model.summaries_used.add("method:" + attr)
                    return self.model.method_prims[attr](self, obj)
            fm = self.prog.find_method(obj.cls, attr)
            if fm and "property" in fm.decorators:
                return self.call_function(fm.mod, fm.node, [obj], {}, qn=fm.qn)
            if fm is None:
                # class attribute (e.g. _required_columns)
                for c in self.prog.mro(obj.cls):
                    for st in self.prog.classes[c].node.body:
                        if isinstance(st, ast.Assign) and any(isinstance(t, ast.Name) and t.id == attr for t in st.targets):
                            return self.ev(st.value, {"__mod__": self.prog.classes[c].mod})
            return BoundMethod(obj, attr)
        if isinstance(obj, ClassRef):
            for c in self.prog.mro(obj.name):
                for st in self.prog.classes[c].node.body:
                    if isinstance(st, ast.Assign) and any(isinstance(t, ast.Name) and t.id == attr for t in st.targets):
                        return self.ev(st.value, {"__mod__": self.prog.classes[c].mod})
            return BoundMethod(obj, attr)
        return self.lib.value_attr(self, obj, attr)


_MASKED = None     # masked-out slot of `x[mask]` loads (kept as None so that arithmetic propagates it)


def _is_generator(fnode):
    stack = list(fnode.body)
    while stack:
        x = stack.pop()
        if isinstance(x, (ast.FunctionDef, ast.AsyncFunctionDef, ast.ClassDef, ast.Lambda)):
            continue
        if isinstance(x, (ast.Yield, ast.YieldFrom)):
            return True
        stack.extend(ast.iter_child_nodes(x))
    return False
