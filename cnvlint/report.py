"""Obligation bookkeeping, evidence files, known findings, exit codes."""
import json
import os
import sys
import time

from .core import AnalysisError

VERIF = os.path.dirname(os.path.dirname(os.path.abspath(__file__)))
KNOWN_PATH = os.path.join(VERIF, "known_findings.json")


def load_known():
    try:
        with open(KNOWN_PATH) as fh:
            return json.load(fh).get("findings", [])
    except FileNotFoundError:
        return []


class Check:
    """One run of one property's check."""

    def __init__(self, pid, tier, prog, quiet=False):
        self.pid, self.tier, self.prog, self.quiet = pid, tier, prog, quiet
        self.t0 = time.time()
        self.obligations = []      # dicts: rule, instance, status, detail, where, cells
        self.violations = []       # dicts: key, rule, construct, where, msg, witness
        self.samples = []
        self.info = []
        self.cells = 0
        self.distinct = set()
        self.trusted = []
        self.assumptions = []
        self.rules = {}
        self.selftest = None
        self.clauses = {}

    # ---------------------------------------------------------------- recording
    def log(self, *a):
        if not self.quiet:
            print(*a)
            sys.stdout.flush()

    def rule(self, name, text):
        self.rules[name] = text

    def clause(self, cid, text):
        self.clauses[cid] = text

    def trust(self, *items):
        for i in items:
            if i not in self.trusted:
                self.trusted.append(i)

    def assume(self, *items):
        for i in items:
            if i not in self.assumptions:
                self.assumptions.append(i)

    def sample(self, s):
        if len(self.samples) < 40:
            self.samples.append(s)

    def defer(self, msg):
        """an obligation that could not be decided; the verdict is taken when the run ends (cli.run_check)"""
        if not hasattr(self, "deferred"):
            self.deferred = []
        self.deferred.append(msg)

    def note(self, msg):
        self.info.append(msg)
        self.log("  info:", msg)

    def floor(self, what, count, minimum):
        """A rule that matches fewer instances than were confirmed by hand is an analysis error."""
        if count < minimum:
            # the rule no longer sees the instances confirmed by hand: its silence means nothing.  Deferred like an undecided obligation: a definite violation
            # found elsewhere in the run is still reported (exit 1); without one the run is an analysis error (exit 2)
            self.defer(f"instance floor: {what}: found {count}, confirmed by hand >= {minimum}")

    def ok(self, rule, instance, detail="", where="", cells=1, distinct=None):
        self.obligations.append(dict(rule=rule, instance=instance, status="discharged", detail=detail, where=where, cells=cells))
        self.cells += cells
        self.distinct.add((rule, instance) if distinct is None else distinct)
        self.log(f"  ok   [{rule}] {instance}" + (f" ({cells} cells)" if cells > 1 else "") + (f" -- {detail}" if detail else ""))

    def violate(self, rule, construct, where, msg, witness=None, instance=None, cells=1):
        """`construct` identifies the offending construct without line numbers (qualified
        function + normalised expression / table name)."""
        key = f"{self.pid}:{rule}:{construct}"
        self.obligations.append(dict(rule=rule, instance=instance or construct, status="violated", detail=msg, where=where, cells=cells))
        self.cells += cells
        self.violations.append(dict(key=key, rule=rule, construct=construct, where=where, msg=msg, witness=witness))
        self.log(f"  FAIL [{rule}] {where} {construct}: {msg}")
        if witness is not None:
            self.log(f"       witness: {json.dumps(witness, default=str)[:400]}")

    def decide(self, okflag, rule, instance, construct, where, msg, witness=None, detail="", cells=1):
        if okflag:
            self.ok(rule, instance, detail=detail, where=where, cells=cells)
        else:
            self.violate(rule, construct, where, msg, witness, instance=instance, cells=cells)
        return okflag

    # ---------------------------------------------------------------- finishing
    def finish(self, level_text="", checker_cmd=""):
        known = [k for k in load_known() if k.get("property") == self.pid]
        open_keys = {k["key"]: k for k in known if k.get("status") == "open"}
        new, acknowledged = [], []
        for v in self.violations:
            (acknowledged if v["key"] in open_keys else new).append(v)
        seen = set()
        for v in acknowledged:
            if v["key"] in seen:
                continue
            seen.add(v["key"])
            print(f"KNOWN-FINDING: property={self.pid} {open_keys[v['key']]['what']} [{v['key']}]")
        replay_dir = os.path.join(VERIF, "evidence", "replay")
        paths = []
        if new:
            os.makedirs(replay_dir, exist_ok=True)
        for i, v in enumerate(new):
            path = os.path.join(replay_dir, f"{self.pid}-{i}.json")
            with open(path, "w") as fh:
                json.dump(dict(property=self.pid, tier=self.tier, repo=self.prog.root, **v), fh, indent=1, default=str)
            paths.append(path)
            print(f"VIOLATION property={self.pid} replay={path}")
            print(f"   {v['where']} [{v['rule']}] {v['construct']}: {v['msg']}")
        n_ob = len(self.obligations)
        n_ok = sum(1 for o in self.obligations if o["status"] == "discharged")
        wall = time.time() - self.t0
        ev = {
            "property_id": self.pid,
            "tier": self.tier,
            "seed": int(os.environ.get("VERIF_SEED", "0") or 0),
            "level": "other",
            "coverage": {
                "explanation": level_text or "static analysis: obligations decided from the AST of /repo's current sources",
                "obligations": n_ob,
                "discharged": n_ok,
                "evaluations": max(self.cells, 1),
                "distinct_nontrivial": max(len(self.distinct), 0),
                "rule": "an evaluation is one decision-table cell or one rule instance (call site / function / path) decided "
                        "from the source; distinct_nontrivial counts distinct (rule, instance) obligations",
                "exhaustive": True,
                "checker_cmd": checker_cmd or f"/venv/bin/python -m cnvlint check {self.pid} --tier {self.tier}",
                "trusted_base": self.trusted,
                "analysed": self.prog.stats(),
                "clauses": self.clauses,
                "rules": self.rules,
                "samples": self.samples or [o for o in self.obligations[:10]],
                "obligation_list": [f"{o['status']}: [{o['rule']}] {o['instance']}" + (f" x{o['cells']}" if o['cells'] > 1 else "")
                                    for o in self.obligations],
                "information": self.info,
                "known_findings_acknowledged": sorted(seen),
            },
            "assumptions": self.assumptions,
            "wall_s": round(wall, 3),
            "violations": len(new),
        }
        if self.selftest is not None:
            ev["coverage"]["selftest"] = self.selftest
        os.makedirs(os.path.join(VERIF, "evidence"), exist_ok=True)
        with open(os.path.join(VERIF, "evidence", f"{self.pid}.json"), "w") as fh:
            json.dump(ev, fh, indent=1, default=str)
        print(f"{self.pid} [{self.tier}] obligations={n_ob} discharged={n_ok} cells={self.cells} "
              f"new_violations={len(new)} known={len(seen)} wall={wall:.2f}s")
        return 1 if new else 0
