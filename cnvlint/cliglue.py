"""Command-line glue: a `_cmd_*` function of cnvlib/commands.py interpreted on the namespace that argparse (argmodel.py) builds for a
given command line, with the file readers, the library step and the writers replaced by recording stubs.  What is decided: every
option reaches the parameter of the library function it is meant for, with the value the user gave (or the declared default)."""
import ast

from . import argmodel
from .abstools import Interp, Model, make_ga
from .absval import GA, Raised, Undecided
from .core import AnalysisError


class Marker:
    """an opaque, truthy stand-in for a value produced by a stubbed step (variants, inferred sex, a result table)"""

    def __init__(self, what, **info):
        self.what, self.info = what, info

    def __repr__(self):
        return f"<{self.what} {self.info}>" if self.info else f"<{self.what}>"

    def __eq__(self, other):
        return isinstance(other, Marker) and (other.what, other.info) == (self.what, self.info)

    def __hash__(self):
        return hash(self.what)


def signature(prog, qn):
    fi = prog.fn(qn)
    a = fi.node.args
    names = [x.arg for x in a.posonlyargs + a.args]
    defaults = {}
    for nm, d in zip(names[len(names) - len(a.defaults):], a.defaults):
        try:
            defaults[nm] = ast.literal_eval(d)
        except (ValueError, SyntaxError):
            defaults[nm] = argmodel.Expr(d)
    for x, d in zip(a.kwonlyargs, a.kw_defaults):
        names.append(x.arg)
        if d is not None:
            try:
                defaults[x.arg] = ast.literal_eval(d)
            except (ValueError, SyntaxError):
                defaults[x.arg] = argmodel.Expr(d)
    return names, defaults


def table(tag, **meta):
    g = make_ga("CopyNumArray", [dict(chromosome="chr1", start=0, end=10, gene="g", log2=0)], dict(meta, sample_id=meta.get("sample_id", tag), src=tag), exact=True)
    return g


class Run:
    def __init__(self, prog, cmd, argv, steps, returns=None, method_steps=()):
        """cmd: name of the _cmd_ function; steps: qualnames of the repo functions to stub and record (bound like their real signature);
        returns: qualname -> callable(bound) giving the stub's return value; method_steps: GenomicArray method names to record"""
        self.prog, self.cmd, self.argv = prog, cmd, list(argv)
        self.calls = []
        self.written = []
        model = Model()
        model.attr_hooks.append(argmodel.ns_hook)
        returns = returns or {}

        def stub(qn):
            names, defaults = signature(prog, qn)

            def f(it, *a, **k):
                b = dict(defaults)
                b.update(zip(names, a))
                b.update(k)
                self.calls.append((qn.rsplit(".", 1)[-1], b))
                if qn in returns:
                    return returns[qn](b)
                first = next((v for v in b.values() if isinstance(v, GA)), None)          # the library steps keep their input's sample id
                return table("result of " + qn.rsplit(".", 1)[-1], **({"sample_id": first.meta.get("sample_id")} if first is not None else {}))
            return f
        for qn in steps:
            model.prims[qn] = stub(qn)
        # readers
        model.prims["cnvlib.cmdutil.read_cna"] = lambda it, infile, sample_id=None, meta=None: self._read("read_cna", infile, sample_id)
        model.prims["cnvlib.cmdutil.read_ga"] = lambda it, infile, sample_id=None, meta=None: self._read("read_ga", infile, sample_id)
        model.prims["skgenome.tabio.read_auto"] = lambda it, infile, *a, **k: self._read("read_auto", infile, None)
        model.prims["skgenome.tabio.read"] = lambda it, infile, fmt="tab", *a, **k: self._read("read:" + str(fmt), infile, None)

        def het(it, vcf_fname, sample_id=None, normal_id=None, min_variant_depth=20, zygosity_freq=None, tumor_boost=False):
            self.calls.append(("load_het_snps", dict(vcf_fname=vcf_fname, sample_id=sample_id, normal_id=normal_id, min_variant_depth=min_variant_depth, zygosity_freq=zygosity_freq, tumor_boost=tumor_boost)))
            return None if vcf_fname is None else Marker("variants", vcf=vcf_fname)
        model.prims["cnvlib.cmdutil.load_het_snps"] = het

        def sex(it, cnarr, sex_arg, is_haploid_x_reference, diploid_parx_genome):
            self.calls.append(("verify_sample_sex", dict(cnarr=self._src(cnarr), sex_arg=sex_arg, is_haploid_x_reference=is_haploid_x_reference, diploid_parx_genome=diploid_parx_genome)))
            return Marker("sample sex", of=self._src(cnarr), stated=sex_arg)
        model.prims["cnvlib.cmdutil.verify_sample_sex"] = sex
        # writers
        for w in ("skgenome.tabio.write", "cnvlib.cmdutil.write_dataframe", "cnvlib.cmdutil.write_tsv", "cnvlib.cmdutil.write_text"):
            model.prims[w] = (lambda w: lambda it, *a, **k: self.written.append((w.rsplit(".", 1)[-1], a, k)))(w)
        model.prims["cnvlib.core.ensure_path"] = lambda it, f: True
        model.ext["os.path.exists"] = lambda it, p: False
        model.ext["os.path.isdir"] = lambda it, p: False
        model.ext["os.path.isfile"] = lambda it, p: True
        for m in method_steps:
            model.method_prims[m] = (lambda m: lambda it, obj, *a, **k: self.calls.append((m, dict(on=self._src(obj), args=a, kw=k))))(m)
        self.model = model
        self.it = Interp(prog, model)
        self.reads = []

    def _read(self, how, infile, sample_id):
        self.reads.append((how, infile, sample_id))
        import os
        base = os.path.basename(str(infile)).split(".")[0]
        return table(str(infile), sample_id=sample_id or base, read_by=how)

    @staticmethod
    def _src(x):
        return x.meta.get("src") if isinstance(x, GA) else x

    def go(self):
        ps = argmodel.parser_of(self.prog, self.cmd)

        def convert(src, tok):
            fn = f"cnvlib.commands.{src}"
            if fn in self.prog.functions:
                return self.it.run(fn, [tok])
            return tok
        ns = argmodel.parse(ps, self.argv, convert)
        self.ns = ns
        fi = self.prog.fn(f"cnvlib.commands.{self.cmd}")
        return self.it.run(fi.qn, [ns])

    def call(self, name):
        hits = [b for n, b in self.calls if n == name]
        return hits[0] if len(hits) == 1 else (None if not hits else hits)


def src_of(x):
    return Run._src(x)


# ------------------------------------------------------------------------------------------------------------------ comparisons
def eq(a, b):
    from .abstools import same, T
    from .absval import Term
    from fractions import Fraction
    if isinstance(a, GA) or isinstance(b, GA):
        return src_of(a) == src_of(b)
    if isinstance(a, (list, tuple)) and isinstance(b, (list, tuple)):
        return len(a) == len(b) and all(eq(x, y) for x, y in zip(a, b))
    if isinstance(a, bool) or isinstance(b, bool) or a is None or b is None or isinstance(a, str) or isinstance(b, str):
        return type(a) is type(b) and a == b
    if isinstance(a, float):
        a = Fraction(repr(a))                 # a float literal of the declarations (default=0.05): its decimal value
    if isinstance(b, float):
        b = Fraction(repr(b))
    if isinstance(a, (int, Fraction, Term)) and isinstance(b, (int, Fraction, Term)):
        return same(T(a), T(b))
    return a == b


def show(x):
    if isinstance(x, GA):
        return f"<table {src_of(x)}>"
    if isinstance(x, (list, tuple)):
        return type(x)(show(y) for y in x)
    if isinstance(x, dict):
        return {k: show(v) for k, v in x.items()}
    return x if isinstance(x, (str, int, bool, type(None))) else repr(x)


def compare_call(run, name, want):
    """want: parameter -> expected value; returns (ok, diff)"""
    got = run.call(name)
    if not isinstance(got, dict):
        return False, {"calls to " + name: "none" if got is None else len(got)}
    diff = {k: dict(got=show(got.get(k, "<absent>")), want=show(v)) for k, v in want.items() if k not in got or not eq(got[k], v)}
    return not diff, diff


def scenario(tb, prog, cmd, argv, steps, wants, label=None, returns=None, method_steps=(), extra=None, raises=None):
    """one cell: run the command on argv; `wants`: step name -> {param: value}; `extra`: callable(run) -> (ok, info)"""
    run = Run(prog, cmd, argv, steps, returns, method_steps)
    label = label or " ".join(argv)
    try:
        run.go()
        raised = None
    except Undecided as u:
        tb.undecided.append(f"{label}: {u}")
        return None
    except Raised as r:
        raised = str(r)
    if raises is not None:
        tb.cell(raised is not None and raises in raised, dict(command_line=label, raised=raised, want_raised=raises))
        return run
    ok, info = raised is None, {}
    if raised:
        info["raised"] = raised
    for name, want in wants.items():
        o, d = compare_call(run, name, want)
        ok = ok and o
        if d:
            info[name] = d
    if extra is not None and raised is None:
        o, d = extra(run)
        ok = ok and o
        if not o:
            info["extra"] = d
    tb.cell(ok, dict(command_line=label, **info))
    return run


# ------------------------------------------------------------------------------------------------------------------ per command
def check_call(chk, prog, rule="cli-glue"):
    from .abstools import Table
    from fractions import Fraction as Fr
    fi = prog.fn("cnvlib.commands._cmd_call")
    tb = Table(chk, rule, "`call` command line -> do_call / center_all / load_het_snps / verify_sample_sex arguments (all options, defaults, --center forms, purity forms)", fi.loc(), fi.qn)
    steps = ["cnvlib.call.do_call"]
    dflt_thr = (Fr("-1.1"), Fr("-0.25"), Fr("0.2"), Fr("0.7"))
    x = table("x.cns")
    sexm = lambda stated: Marker("sample sex", of="x.cns", stated=stated)
    full = ["x.cns", "-m", "clonal", "--ploidy", "3", "--purity", "0.5", "-y", "-x", "f", "--diploid-parx-genome", "grch38", "--filter", "ci", "--filter", "cn", "-t=-1,0,1.5",
            "-v", "s.vcf", "-i", "T", "-n", "N", "--min-variant-depth", "7", "-z", "0.3", "--center", "mode", "--drop-low-coverage", "-o", "out.cns"]
    scenario(tb, prog, "_cmd_call", full, steps, {
        "do_call": dict(cnarr=x, variants=Marker("variants", vcf="s.vcf"), method="clonal", ploidy=3, purity=Fr(1, 2), is_haploid_x_reference=True, is_sample_female=sexm("f"), diploid_parx_genome="grch38",
                        filters=["ci", "cn"], thresholds=(Fr(-1), Fr(0), Fr(3, 2))),
        "load_het_snps": dict(vcf_fname="s.vcf", sample_id="T", normal_id="N", min_variant_depth=7, zygosity_freq=Fr(3, 10)),
        "verify_sample_sex": dict(cnarr="x.cns", sex_arg="f", is_haploid_x_reference=True, diploid_parx_genome="grch38"),
        "center_all": dict(on="x.cns", args=("mode",), kw=dict(skip_low=True, verbose=True, diploid_parx_genome="grch38"))},
        method_steps=("center_all",), extra=lambda r: (bool(r.written) and r.written[0][1][1] == "out.cns", dict(written=show([w[1][1:] for w in r.written]))))
    scenario(tb, prog, "_cmd_call", ["x.cns"], steps, {
        "do_call": dict(cnarr=x, variants=None, method="threshold", ploidy=2, purity=None, is_haploid_x_reference=False, is_sample_female=None, diploid_parx_genome=None, filters=[], thresholds=dflt_thr),
        "load_het_snps": dict(vcf_fname=None, min_variant_depth=20, zygosity_freq=None)},
        method_steps=("center_all",), extra=lambda r: (r.call("center_all") is None and r.call("verify_sample_sex") is None and r.written[0][1][1] == "x.call.cns", dict(calls=[c[0] for c in r.calls], written=show([w[1][1:] for w in r.written]))))
    scenario(tb, prog, "_cmd_call", ["x.cns", "--center"], steps, {"center_all": dict(on="x.cns", args=("median",), kw=dict(skip_low=False, verbose=True, diploid_parx_genome=None))}, method_steps=("center_all",))
    scenario(tb, prog, "_cmd_call", ["x.cns", "-v", "s.vcf", "-z"], steps, {"load_het_snps": dict(vcf_fname="s.vcf", zygosity_freq=Fr(1, 4))}, method_steps=("center_all",))

    def shifted(r):
        b = r.call("do_call")
        v = b["cnarr"].data.cols["log2"].v[0] if isinstance(b, dict) and isinstance(b.get("cnarr"), GA) else None
        return (v is not None and eq(v, Fr(-3, 10)) and r.call("center_all") is None, dict(log2_passed_to_do_call=repr(v)))
    scenario(tb, prog, "_cmd_call", ["x.cns", "--center-at", "0.3", "--center", "mean"], steps, {}, method_steps=("center_all",), extra=shifted)
    for sx in ("Male", "y", "Female", "x"):
        scenario(tb, prog, "_cmd_call", ["x.cns", "--purity", "0.7", "-g", sx, "-m", "threshold"], steps, {
            "do_call": dict(method="threshold", purity=Fr(7, 10), is_sample_female=sexm(sx), is_haploid_x_reference=False), "verify_sample_sex": dict(sex_arg=sx, is_haploid_x_reference=False, diploid_parx_genome=None)})
    scenario(tb, prog, "_cmd_call", ["x.cns", "--purity", "1.0", "-x", "m"], steps, {"do_call": dict(purity=Fr(1), is_sample_female=None)}, extra=lambda r: (r.call("verify_sample_sex") is None, "sex verified although purity is 1"))
    scenario(tb, prog, "_cmd_call", ["x.cns", "--purity", "1.5"], steps, {}, raises="RuntimeError")
    scenario(tb, prog, "_cmd_call", ["x.cns", "--filter", "ampdel", "--filter", "sem", "--filter", "cn"], steps, {"do_call": dict(filters=["ampdel", "sem", "cn"])})
    tb.done("an option of `call` does not reach do_call (or the centring / variant loading / sex step before it) with the value given on the command line")


def _out(run):
    """the file names the writers were given"""
    out = []
    for w, a, k in run.written:
        out.append(a[1] if w == "write" and len(a) > 1 else (a[0] if w != "write" else None))
    return out


def check_segment(chk, prog, rule="cli-glue"):
    from .abstools import Table
    from fractions import Fraction as Fr
    fi = prog.fn("cnvlib.commands._cmd_segment")
    tb = Table(chk, rule, "`segment` command line -> do_segmentation arguments (method, threshold, --drop-low-coverage, --drop-outliers, -p forms, VCF options, --dataframe)", fi.loc(), fi.qn)
    steps = ["cnvlib.segmentation.do_segmentation"]
    x = table("s.cnr")
    ret = {"cnvlib.segmentation.do_segmentation": lambda b: (table("segments", sample_id="s"), "R-DATAFRAME") if b.get("save_dataframe") else table("segments", sample_id="s")}
    scenario(tb, prog, "_cmd_segment", ["s.cnr", "-m", "hmm-tumor", "-t", "0.001", "--drop-low-coverage", "--drop-outliers", "4", "-p", "6", "--smooth-cbs", "--rscript-path", "/opt/R", "--diploid-parx-genome", "grch38",
                                          "-v", "s.vcf", "-i", "T", "-n", "N", "--min-variant-depth", "9", "-z", "0.2", "-o", "o.cns"], steps, {
        "do_segmentation": dict(cnarr=x, method="hmm-tumor", diploid_parx_genome="grch38", threshold=Fr(1, 1000), variants=Marker("variants", vcf="s.vcf"), skip_low=True, skip_outliers=Fr(4), save_dataframe=False,
                                rscript_path="/opt/R", processes=6, smooth_cbs=True),
        "load_het_snps": dict(vcf_fname="s.vcf", sample_id="T", normal_id="N", min_variant_depth=9, zygosity_freq=Fr(1, 5))}, returns=ret, extra=lambda r: (_out(r) == ["o.cns"], dict(written=_out(r))))
    scenario(tb, prog, "_cmd_segment", ["s.cnr"], steps, {
        "do_segmentation": dict(cnarr=x, method="cbs", diploid_parx_genome=None, threshold=None, variants=None, skip_low=False, skip_outliers=10, save_dataframe=False, rscript_path="Rscript", processes=1, smooth_cbs=False)},
        returns=ret, extra=lambda r: (_out(r) == ["s.cns"], dict(written=_out(r))))
    scenario(tb, prog, "_cmd_segment", ["s.cnr", "-p"], steps, {"do_segmentation": dict(processes=0)}, returns=ret)
    scenario(tb, prog, "_cmd_segment", ["s.cnr", "-m", "none", "--drop-outliers", "0"], steps, {"do_segmentation": dict(method="none", skip_outliers=0)}, returns=ret)
    tb.done("an option of `segment` does not reach do_segmentation with the value given on the command line")


def check_fix(chk, prog, rule="cli-glue"):
    from .abstools import Table
    from fractions import Fraction as Fr
    fi = prog.fn("cnvlib.commands._cmd_fix")
    tb = Table(chk, rule, "`fix` command line -> do_fix arguments (target, antitarget, reference in their roles; --no-gc / --no-edge / --no-rmask one at a time; cluster, sample id, PAR genome, smoothing fraction)", fi.loc(), fi.qn)
    steps = ["cnvlib.fix.do_fix"]
    base = ["S.targetcoverage.cnn", "S.antitargetcoverage.cnn", "ref.cnn"]
    t, a, r_ = table(base[0]), table(base[1]), table(base[2])
    for flags in ((), ("--no-gc",), ("--no-edge",), ("--no-rmask",), ("--no-gc", "--no-edge", "--no-rmask")):
        scenario(tb, prog, "_cmd_fix", base + list(flags), steps, {
            "do_fix": dict(target_raw=t, antitarget_raw=a, reference=r_, diploid_parx_genome=None, do_gc="--no-gc" not in flags, do_edge="--no-edge" not in flags, do_rmask="--no-rmask" not in flags, do_cluster=False,
                           smoothing_window_fraction=None)}, extra=lambda r: (_out(r) == ["S.cnr"], dict(written=_out(r))))
    scenario(tb, prog, "_cmd_fix", base + ["-c", "-i", "ID", "--diploid-parx-genome", "grch38", "--smoothing-window-fraction", "0.25", "-o", "o.cnr"], steps, {
        "do_fix": dict(target_raw=t, antitarget_raw=a, reference=r_, diploid_parx_genome="grch38", do_gc=True, do_edge=True, do_rmask=True, do_cluster=True, smoothing_window_fraction=Fr(1, 4))},
        extra=lambda r: (_out(r) == ["o.cnr"] and [x[2] for x in r.reads] == ["ID", "ID", None], dict(written=_out(r), reads=r.reads)))
    tb.done("an option of `fix` does not reach do_fix with the value given (a correction is switched off by another one's flag, or the files change roles)")


def check_coverage(chk, prog, rule="cli-glue"):
    from .abstools import Table
    fi = prog.fn("cnvlib.commands._cmd_coverage")
    tb = Table(chk, rule, "`coverage` command line -> do_coverage arguments (BAM and regions in their roles, -c, -q, -p forms, -f) and the output name", fi.loc(), fi.qn)
    steps = ["cnvlib.coverage.do_coverage"]
    scenario(tb, prog, "_cmd_coverage", ["S.bam", "panel.target.bed", "-c", "-q", "30", "-p", "8", "-f", "ref.fa", "-o", "o.cnn"], steps, {
        "do_coverage": dict(bed_fname="panel.target.bed", bam_fname="S.bam", by_count=True, min_mapq=30, processes=8, fasta="ref.fa")}, extra=lambda r: (_out(r) == ["o.cnn"], dict(written=_out(r))))
    scenario(tb, prog, "_cmd_coverage", ["S.bam", "panel.target.bed"], steps, {
        "do_coverage": dict(bed_fname="panel.target.bed", bam_fname="S.bam", by_count=False, min_mapq=0, processes=1, fasta=None)}, extra=lambda r: (_out(r) == ["S.targetcoverage.cnn"], dict(written=_out(r))))
    scenario(tb, prog, "_cmd_coverage", ["S.bam", "panel.antitarget.bed", "-p"], steps, {"do_coverage": dict(processes=0, by_count=False)}, extra=lambda r: (_out(r) == ["S.antitargetcoverage.cnn"], dict(written=_out(r))))
    tb.done("an option of `coverage` does not reach do_coverage with the value given, or the default output name is not <bam>.(anti)targetcoverage.cnn")


def check_target_antitarget(chk, prog, rule="cli-glue"):
    from .abstools import Table
    ft = prog.fn("cnvlib.commands._cmd_target")
    tb = Table(chk, rule, "`target` / `antitarget` command lines -> do_target / do_antitarget arguments and the output file (given or default)", ft.loc(), "cnvlib.commands._cmd_target / _cmd_antitarget")
    b = table("baits.bed")
    scenario(tb, prog, "_cmd_target", ["baits.bed", "--annotate", "refFlat.txt", "--short-names", "--split", "-a", "250", "-o", "t.bed"], ["cnvlib.target.do_target"], {
        "do_target": dict(bait_arr=b, annotate="refFlat.txt", do_short_names=True, do_split=True, avg_size=250)}, extra=lambda r: (_out(r) == ["t.bed"], dict(written=_out(r))))
    scenario(tb, prog, "_cmd_target", ["baits.bed"], ["cnvlib.target.do_target"], {"do_target": dict(bait_arr=b, annotate=None, do_short_names=False, do_split=False)})
    tg, ac = table("my.target.bed"), table("access.bed")
    scenario(tb, prog, "_cmd_antitarget", ["my.target.bed", "-g", "access.bed", "-a", "90000", "-m", "1500", "-o", "a.bed"], ["cnvlib.antitarget.do_antitarget"], {
        "do_antitarget": dict(targets=tg, access=ac, avg_bin_size=90000, min_bin_size=1500)}, extra=lambda r: (_out(r) == ["a.bed"], dict(written=_out(r))))
    scenario(tb, prog, "_cmd_antitarget", ["my.target.bed"], ["cnvlib.antitarget.do_antitarget"], {
        "do_antitarget": dict(targets=tg, access=None, avg_bin_size=150000, min_bin_size=None)}, extra=lambda r: (_out(r) == ["my.target.antitarget.bed"], dict(written=_out(r))))
    tb.done("an option of `target` / `antitarget` does not reach the library step, or the command fails to write its (default-named) output")


def check_reports(chk, prog, rule="cli-glue"):
    from .abstools import Table
    from fractions import Fraction as Fr
    fg = prog.fn("cnvlib.commands._cmd_genemetrics")
    tb = Table(chk, rule, "`genemetrics` / `breaks` command lines -> do_genemetrics / do_breaks arguments (bins and segments in their roles, threshold, min probes, sex options)", fg.loc(), "cnvlib.commands._cmd_genemetrics / _cmd_breaks")
    x, s_ = table("x.cnr"), table("x.cns")
    sexm = lambda stated: Marker("sample sex", of="x.cnr", stated=stated)
    scenario(tb, prog, "_cmd_genemetrics", ["x.cnr", "-s", "x.cns", "-t", "0.35", "-m", "5", "--drop-low-coverage", "-y", "-x", "Female", "--diploid-parx-genome", "grch38", "-o", "g.tsv"], ["cnvlib.reports.do_genemetrics"], {
        "do_genemetrics": dict(cnarr=x, segments=s_, threshold=Fr(35, 100), min_probes=5, skip_low=True, is_haploid_x_reference=True, is_sample_female=sexm("Female"), diploid_parx_genome="grch38"),
        "verify_sample_sex": dict(cnarr="x.cnr", sex_arg="Female", is_haploid_x_reference=True, diploid_parx_genome="grch38")}, extra=lambda r: (_out(r) == ["g.tsv"], dict(written=_out(r))))
    scenario(tb, prog, "_cmd_genemetrics", ["x.cnr"], ["cnvlib.reports.do_genemetrics"], {
        "do_genemetrics": dict(cnarr=x, segments=None, threshold=Fr(1, 5), min_probes=3, skip_low=False, is_haploid_x_reference=False, is_sample_female=sexm(None), diploid_parx_genome=None)})
    scenario(tb, prog, "_cmd_breaks", ["x.cnr", "x.cns", "-m", "4", "-o", "b.tsv"], ["cnvlib.reports.do_breaks"], {"do_breaks": dict(probes=x, segments=s_, min_probes=4)}, extra=lambda r: (_out(r) == ["b.tsv"], dict(written=_out(r))))
    scenario(tb, prog, "_cmd_breaks", ["x.cnr", "x.cns"], ["cnvlib.reports.do_breaks"], {"do_breaks": dict(probes=x, segments=s_, min_probes=1)})
    tb.done("an option of `genemetrics` / `breaks` does not reach the report function with the value given (bins and segments swapped, threshold or minimum bin count lost)")


def check_stats(chk, prog, rule="cli-glue"):
    from .abstools import Table
    from fractions import Fraction as Fr
    fs = prog.fn("cnvlib.commands._cmd_segmetrics")
    tb = Table(chk, rule, "`segmetrics` / `bintest` command lines -> do_segmetrics / do_bintest arguments (each statistic flag in its own list, alpha, bootstrap, smoothing, --drop-low-coverage; -t, -a)", fs.loc(),
               "cnvlib.commands._cmd_segmetrics / _cmd_bintest")
    x, s_ = table("x.cnr"), table("x.cns")
    ps = argmodel.parser_of(prog, "_cmd_segmetrics")
    flags = [(o.flags[0], o.dest, o.const) for o in ps.opts if o.action == "append_const"]
    if len(flags) < 12:
        raise AnalysisError(f"segmetrics declares {len(flags)} statistic flags, expected 12")
    for flag, dest, const in flags:
        want = dict(location_stats=[], spread_stats=[], interval_stats=[])
        want[dest] = [const]
        scenario(tb, prog, "_cmd_segmetrics", ["x.cnr", "-s", "x.cns", flag], ["cnvlib.segmetrics.do_segmetrics"], {"do_segmetrics": dict(cnarr=x, segarr=s_, alpha=Fr(5, 100), bootstraps=100, smoothed=False, skip_low=False, **want)})
    scenario(tb, prog, "_cmd_segmetrics", ["x.cnr", "-s", "x.cns", "--ci", "--pi", "--mean", "--sem", "-a", "0.1", "-b", "250", "--smooth-bootstrap", "--drop-low-coverage", "-o", "m.cns"], ["cnvlib.segmetrics.do_segmetrics"], {
        "do_segmetrics": dict(cnarr=x, segarr=s_, location_stats=["mean"], spread_stats=["sem"], interval_stats=["ci", "pi"], alpha=Fr(1, 10), bootstraps=250, smoothed=True, skip_low=True)},
        extra=lambda r: (_out(r) == ["m.cns"], dict(written=_out(r))))
    scenario(tb, prog, "_cmd_segmetrics", ["x.cnr", "-s", "x.cns", "--ci", "-a", "0"], ["cnvlib.segmetrics.do_segmetrics"], {}, raises="RuntimeError")
    scenario(tb, prog, "_cmd_bintest", ["x.cnr", "-s", "x.cns", "-a", "0.01", "-t", "-o", "b.cnr"], ["cnvlib.bintest.do_bintest"], {"do_bintest": dict(cnarr=x, segments=s_, alpha=Fr(1, 100), target_only=True)},
             extra=lambda r: (_out(r) == ["b.cnr"], dict(written=_out(r))))
    scenario(tb, prog, "_cmd_bintest", ["x.cnr"], ["cnvlib.bintest.do_bintest"], {"do_bintest": dict(cnarr=x, segments=None, alpha=Fr(5, 1000), target_only=False)})
    tb.done("an option of `segmetrics` / `bintest` does not reach the statistics function with the value given (a statistic lands in another list, alpha / bootstrap count lost)")


def check_export(chk, prog, rule="cli-glue"):
    from .abstools import Table
    fb = prog.fn("cnvlib.commands._cmd_export_bed")
    tb = Table(chk, rule, "`export bed` / `export vcf` / `export seg` command lines -> export_bed / export_vcf / export_seg arguments (ploidy, reference and sample sex, PAR genome, label, --show; every input file)", fb.loc(),
               "cnvlib.commands._cmd_export_bed / _vcf / _seg")
    a, b = table("a.cns"), table("b.cns")
    sexm = lambda f, stated: Marker("sample sex", of=f, stated=stated)
    def bed_rows(bd):
        from .absval import DF, Vec
        d = DF({"chromosome": Vec(["chr1"], aligned=True), "from_file": Vec([src_of(bd["segments"])], aligned=True)}, 1, "range")
        d.exact = True
        return d
    ret = {"cnvlib.export.export_bed": bed_rows}

    def written_files(r):
        # the table handed to the writer lists every input file's rows, in file order
        w = [a for name, a, k in r.written if name == "write_dataframe"]
        t = w[0][1] if w and len(w[0]) > 1 else None
        return list(t.cols["from_file"].v) if t is not None and hasattr(t, "cols") and "from_file" in t.cols else None
    r = scenario(tb, prog, "_cmd_export_bed", ["a.cns", "b.cns", "--ploidy", "3", "-y", "-x", "m", "--show", "variant", "--diploid-parx-genome", "grch38", "-o", "o.bed"], ["cnvlib.export.export_bed"], {}, returns=ret,
                 extra=lambda r: ([show({k: v for k, v in c[1].items()}) for c in r.calls if c[0] == "export_bed"] == [
                     show(dict(segments=t, ploidy=3, is_haploid_x_reference=True, diploid_parx_genome="grch38", is_sample_female=sexm(f, "m"), label=f.split(".")[0], show="variant")) for t, f in ((a, "a.cns"), (b, "b.cns"))],
                     dict(export_bed_calls=[show(c[1]) for c in r.calls if c[0] == "export_bed"])))
    scenario(tb, prog, "_cmd_export_bed", ["a.cns", "b.cns", "c.cns", "-o", "o.bed"], ["cnvlib.export.export_bed"], {}, returns=ret,
             extra=lambda r: (written_files(r) == ["a.cns", "b.cns", "c.cns"], dict(rows_written_from=written_files(r))))
    scenario(tb, prog, "_cmd_export_bed", ["a.cns", "-i", "LABEL"], ["cnvlib.export.export_bed"], {"export_bed": dict(segments=a, ploidy=2, is_haploid_x_reference=False, diploid_parx_genome=None, label="LABEL", show="ploidy")}, returns=ret)
    scenario(tb, prog, "_cmd_export_bed", ["a.cns", "--label-genes", "--show", "all"], ["cnvlib.export.export_bed"], {"export_bed": dict(label=None, show="all")}, returns=ret)
    retv = {"cnvlib.export.export_vcf": lambda bd: ("HEADER", "BODY")}
    scenario(tb, prog, "_cmd_export_vcf", ["a.cns", "--cnr", "a.cnr", "-i", "SID", "--ploidy", "4", "-y", "-x", "f", "--diploid-parx-genome", "grch38", "-o", "o.vcf"], ["cnvlib.export.export_vcf"], {
        "export_vcf": dict(segments=a, ploidy=4, is_haploid_x_reference=True, diploid_parx_genome="grch38", is_sample_female=sexm("a.cns", "f"), sample_id="SID", cnarr=table("a.cnr"))}, returns=retv,
        extra=lambda r: (_out(r) == ["o.vcf"], dict(written=_out(r))))
    scenario(tb, prog, "_cmd_export_vcf", ["a.cns"], ["cnvlib.export.export_vcf"], {"export_vcf": dict(segments=a, ploidy=2, is_haploid_x_reference=False, diploid_parx_genome=None, is_sample_female=sexm("a.cns", None), sample_id=None, cnarr=None)}, returns=retv)
    scenario(tb, prog, "_cmd_export_seg", ["a.cns", "b.cns", "c.cns", "--enumerate-chroms", "-o", "o.seg"], ["cnvlib.export.export_seg"], {"export_seg": dict(sample_fnames=["a.cns", "b.cns", "c.cns"], chrom_ids=True)},
             extra=lambda r: (_out(r) == ["o.seg"], dict(written=_out(r))))
    scenario(tb, prog, "_cmd_export_seg", ["a.cns"], ["cnvlib.export.export_seg"], {"export_seg": dict(sample_fnames=["a.cns"], chrom_ids=False)})
    tb.done("an option of `export bed|vcf|seg` does not reach the export function with the value given (ploidy, sexes, label, selection), or an input file is left out")


def check_sex(chk, prog, rule="cli-glue"):
    from .abstools import Table
    fsx = prog.fn("cnvlib.commands._cmd_sex")
    tb = Table(chk, rule, "`sex` command line -> do_sex arguments (every file, -y, PAR genome)", fsx.loc(), fsx.qn)

    def files(r):
        b = r.call("do_sex")
        got = [src_of(x) for x in r.it.iterate(b["cnarrs"])] if isinstance(b, dict) else None
        return got == ["a.cnr", "b.cnr"], dict(files=got)
    scenario(tb, prog, "_cmd_sex", ["a.cnr", "b.cnr", "-y", "--diploid-parx-genome", "grch38", "-o", "s.tsv"], ["cnvlib.commands.do_sex"], {"do_sex": dict(is_haploid_x_reference=True, diploid_parx_genome="grch38")}, extra=files)
    scenario(tb, prog, "_cmd_sex", ["a.cnr", "b.cnr"], ["cnvlib.commands.do_sex"], {"do_sex": dict(is_haploid_x_reference=False, diploid_parx_genome=None)}, extra=files)
    tb.done("an option of `sex` does not reach do_sex with the value given, or an input file is left out")


def check_import_seg(chk, prog, rule="cli-glue"):
    from .abstools import Table
    from .absval import DF, Vec
    fi = prog.fn("cnvlib.commands._cmd_import_seg")
    tb = Table(chk, rule, "`import-seg` command line -> parse_seg arguments: no chromosome mapping unless -c is given (`human` preset or from:to pairs), prefix, --from-log10; one .cns per sample", fi.loc(), fi.qn)
    steps = ["skgenome.tabio.seg.parse_seg"]

    def frame(b):
        d = DF({"chromosome": Vec(["1"], aligned=True), "start": Vec([0], aligned=True), "end": Vec([10], aligned=True), "gene": Vec(["-"], aligned=True), "log2": Vec([0], aligned=True)}, 1, "range")
        d.exact = True
        return [("S1", d), ("S2", d)]
    ret = {"skgenome.tabio.seg.parse_seg": frame}
    for argv, want in ((["x.seg"], dict(infile="x.seg", chrom_names=None, chrom_prefix=None, from_log10=False)),
                       (["x.seg", "-c", "human"], dict(chrom_names={"23": "X", "24": "Y", "25": "M"})),
                       (["x.seg", "-c", "23:X,39:Y"], dict(chrom_names={"23": "X", "39": "Y"})),
                       (["x.seg", "-p", "chr", "--from-log10", "-d", "out"], dict(chrom_names=None, chrom_prefix="chr", from_log10=True))):
        outdir = "out" if "-d" in argv else "."
        scenario(tb, prog, "_cmd_import_seg", argv, steps, {"parse_seg": want}, returns=ret,
                 extra=lambda r, outdir=outdir: ([str(x) for x in _out(r)] == [f"{outdir}/S1.cns", f"{outdir}/S2.cns"], dict(written=[str(x) for x in _out(r)])))
    tb.done("an option of `import-seg` does not reach parse_seg as given (e.g. a chromosome-number mapping is applied although none was asked for: chromosomes 23-25 of a non-human genome are renamed)")
