"""Abstract values of the finite-domain evaluator (DESIGN 3.2): exact rational terms with
intervals, order positions, per-class vectors, tables, rows, opaque values."""
import ast
import math
from fractions import Fraction as Fr

INF = math.inf


class Undecided(Exception):
    """The evaluator met a construct / value it cannot decide.  Becomes ANALYSIS-ERROR (exit 2)
    when it concerns an observed cell; never a verdict."""


# ---------------------------------------------------------------------- polynomials over Fractions
class Poly:
    __slots__ = ("t",)

    def __init__(self, terms=None):
        self.t = {k: v for k, v in (terms or {}).items() if v != 0}

    @staticmethod
    def const(c):
        return Poly({(): Fr(c)})

    @staticmethod
    def sym(s):
        return Poly({((s, 1),): Fr(1)})

    def __add__(a, b):
        d = dict(a.t)
        for k, v in b.t.items():
            d[k] = d.get(k, 0) + v
        return Poly(d)

    def __neg__(a):
        return Poly({k: -v for k, v in a.t.items()})

    def __sub__(a, b):
        return a + (-b)

    def __mul__(a, b):
        d = {}
        for k1, v1 in a.t.items():
            for k2, v2 in b.t.items():
                m = dict(k1)
                for s, e in k2:
                    m[s] = m.get(s, 0) + e
                k = tuple(sorted(m.items()))
                d[k] = d.get(k, 0) + v1 * v2
        return Poly(d)

    def __eq__(a, b):
        return a.t == b.t

    def __hash__(a):
        return hash(a.key())

    def is_const(a):
        return all(k == () for k in a.t)

    def cval(a):
        return a.t.get((), Fr(0))

    def key(a):
        return tuple(sorted(a.t.items()))

    def symbols(a):
        return {s for k in a.t for s, _ in k}

    def __repr__(a):
        if not a.t:
            return "0"

        def mono(k):
            return "*".join(s if e == 1 else f"{s}^{e}" for s, e in k)
        return " + ".join((f"{v}*" if (v != 1 and k) else (f"{v}" if not k else "")) + mono(k) for k, v in sorted(a.t.items()))


class World:
    """Per-run symbol tables (reset between obligations)."""

    def __init__(self):
        self.positive = set()
        self.sym_range = {}
        self.atoms = {}
        self.exp2_subst = {}     # canonical key of an exponent -> Term standing for 2**exponent (model substitution)
        self.hazards = []        # decisions the interpreter took on the reals that IEEE arithmetic does not guarantee (see absint.compare)

    def reset(self):
        del self.hazards[:]
        self.positive.clear()
        self.sym_range.clear()
        self.atoms.clear()
        self.exp2_subst.clear()


W = World()


class Term:
    """exact rational function n/d over symbols, with a conservative interval"""

    def __init__(self, n, d=None, lo=-INF, hi=INF, integer=False):
        self.n, self.d = n, d if d is not None else Poly.const(1)
        self.lo, self.hi, self.integer = lo, hi, integer

    @staticmethod
    def const(c):
        c = Fr(str(c)) if isinstance(c, float) else Fr(c)
        return Term(Poly.const(c), None, float(c), float(c), c.denominator == 1)

    @staticmethod
    def sym(s, lo=-INF, hi=INF, integer=False, positive=False):
        W.sym_range.setdefault(s, (lo, hi, integer))
        lo, hi, integer = W.sym_range[s]
        t = Term(Poly.sym(s), None, lo, hi, integer)
        if positive:
            W.positive.add(t.n.key())
        return t

    def is_const(a):
        return a.n.is_const() and a.d.is_const()

    def cval(a):
        return a.n.cval() / a.d.cval()

    def same(a, b):
        return a.n * b.d == b.n * a.d

    def key(a):
        if a.d.is_const():
            c = a.d.cval()
            return ("p", Poly({k: v / c for k, v in a.n.t.items()}).key())
        return ("r", a.n.key(), a.d.key())

    def symbols(a):
        return a.n.symbols() | a.d.symbols()

    def __repr__(a):
        if a.is_const():
            return str(a.cval())
        return f"{a.n}" if a.d == Poly.const(1) else f"({a.n})/({a.d})"


class OrderVal:
    """a real number known only through its order position; `rep` is a representative used for
    comparisons against the declared reference points (refs=None: compare with anything
    comparable, representatives are chosen by the harness), `sym` its symbol for arithmetic"""

    def __init__(self, name, rep, refs, nan=False, lo=-INF, hi=INF):
        self.name, self.rep, self.refs, self.nan = name, rep, refs, nan
        self.sym = Term.sym(name, lo, hi)

    def __repr__(self):
        return f"<{self.name}~{'nan' if self.nan else self.rep}>"


class NaNType:
    """the scalar np.nan as a value of its own: it `is not None` and is truthy, unlike the None that stands for a missing *cell* of a column.
    It becomes None (a missing cell) as soon as it is stored into a vector / column."""
    _inst = None

    def __new__(cls):
        if cls._inst is None:
            cls._inst = super().__new__(cls)
        return cls._inst

    def __repr__(self):
        return "nan"

    def abs_truth(self):
        return True


NAN = NaNType()


class Opaque:
    def __init__(self, why, prov=()):
        self.why, self.prov = why, tuple(prov)

    def __repr__(self):
        return f"?{self.why}"


class Vec:
    """one abstract scalar per row class.  `fresh`: a Series built by pd.Series(<array>) without index= (RangeIndex 0..n-1):
    storing it into a column of a table whose index is not 0..n-1 aligns by label, i.e. onto the wrong rows."""

    exact = False                     # True: literally these elements (len() is a number, not an abstract row count)
    labels = None                     # literal index labels (exact tables built with labels=): Series[int] is then a label lookup

    def __init__(self, vals, fresh=False, aligned=False):
        self.v = [None if x is NAN else x for x in vals]
        self.fresh = fresh
        self.aligned = aligned        # a Series carrying the index of the table it was loaded / derived from

    def view(self):
        """the ndarray behind a Series (`.values`): same storage, no index"""
        x = Vec(())
        x.v = self.v
        x.exact = self.exact
        return x

    def __repr__(self):
        return f"Vec{self.v}"

    def __len__(self):
        return len(self.v)


class NRows:
    """len() of a table: an unknown positive integer (n = number of row classes represented)"""

    def __init__(self, n, pop=None):
        self.n, self.pop = n, pop

    def __repr__(self):
        return "N"


class FVal:
    def __init__(self, v, spec=None):
        self.v, self.spec = v, spec

    def __repr__(self):
        return "{" + repr(self.v) + "}"


class FStr:
    """an f-string / %-format with abstract holes"""

    def __init__(self, parts):
        self.parts = parts

    def field(self, prefix):
        for i, p in enumerate(self.parts):
            if isinstance(p, str) and p.endswith(prefix) and i + 1 < len(self.parts) and isinstance(self.parts[i + 1], FVal):
                return self.parts[i + 1].v
        return None

    def holes(self):
        return [p.v for p in self.parts if isinstance(p, FVal)]

    def __repr__(self):
        return "f" + repr(self.parts)


class DF:
    def __init__(self, cols, n, index="range", pop=None):
        self.cols, self.n, self.index = dict(cols), n, index
        self.pop = pop if pop is not None else object()      # identity of the row population (for len() comparisons)

    @property
    def index(self):
        return self.__dict__.get("_index", "range")

    @index.setter
    def index(self, tag):
        self.__dict__["_index"] = tag
        if tag == "range" and self.__dict__.get("labels") is not None:
            self.labels = list(range(self.n))
        if tag == "range":
            for v in self.__dict__.get("cols", {}).values():
                if isinstance(v, Vec) and isinstance(v.aligned, str):
                    v.aligned = True

    @property
    def exact(self):
        return self.__dict__.get("_exact", False)

    @exact.setter
    def exact(self, flag):
        """exact: the table stands for literally these rows; its columns then have a literal length as well"""
        self.__dict__["_exact"] = bool(flag)
        if flag:
            for v in self.cols.values():
                if isinstance(v, Vec):
                    v.exact = True

    labels = None                     # literal index labels of an exact table (None: unknown)

    def copy(self):
        d = DF({k: Vec(v.v, aligned=True) if isinstance(v, Vec) else v for k, v in self.cols.items()}, self.n, self.index, self.pop)
        d.exact = getattr(self, "exact", False)
        d.labels = list(self.labels) if self.labels is not None else None
        return d

    def __repr__(self):
        return f"DF{list(self.cols)}"


class GA:
    def __init__(self, cls, cols, n, meta=None):
        self.cls, self.data, self.meta = cls, (cols if isinstance(cols, DF) else DF(cols, n)), dict(meta or {})

    def __repr__(self):
        return f"GA<{self.cls}>{list(self.data.cols)}"


class Row:
    """attribute bag: a namedtuple row, a pysam record, an argparse namespace"""

    def __init__(self, d, fields=None):
        self.__dict__["_d"] = dict(d)
        self.__dict__["_fields"] = list(fields) if fields is not None else list(d)

    def __getattr__(self, k):
        try:
            return self.__dict__["_d"][k]
        except KeyError:
            raise AttributeError(k)

    def __setattr__(self, k, v):
        self._d[k] = v

    def _replace(self, **kw):
        d = dict(self._d)
        d.update(kw)
        r = Row(d, self._fields)
        r.__dict__["_exact"] = self.__dict__.get("_exact", False)          # a row of a literal table stays one literal row
        return r

    def _asdict(self):
        return dict(self._d)

    def __iter__(self):
        return iter(self._d[f] for f in self._fields)

    def __len__(self):
        return len(self._fields)

    def __getitem__(self, i):
        if isinstance(i, str):
            return self._d[i]
        if isinstance(i, slice):
            return tuple(self._d[f] for f in self._fields[i])
        return self._d[self._fields[i]]

    def __repr__(self):
        return "Row" + repr(self._d)


class Ret(Exception):
    def __init__(self, v):
        self.v = v


class Brk(Exception):
    pass


class Cont(Exception):
    pass


class Raised(Exception):
    """the interpreted code raised"""

    def __init__(self, exc_name, text=""):
        self.exc_name, self.text = exc_name, text

    def __str__(self):
        return f"{self.exc_name}: {self.text}"


class Closure:
    def __init__(self, node, env, mod, qn=None, self_obj=None):
        self.node, self.env, self.mod, self.qn, self.self_obj = node, env, mod, qn, self_obj

    def __repr__(self):
        return f"<closure {self.qn or getattr(self.node, 'name', '?')}>"


class Module:
    def __init__(self, name, repo=False):
        self.name, self.repo = name, repo

    def __repr__(self):
        return f"<module {self.name}>"


class ClassRef:
    def __init__(self, name):
        self.name = name

    def __repr__(self):
        return f"<class {self.name}>"


class BoundMethod:
    def __init__(self, obj, name):
        self.obj, self.name = obj, name

    def __repr__(self):
        return f"<bound {self.name} of {type(self.obj).__name__}>"


# ---------------------------------------------------------------------- arithmetic
def num(x):
    return isinstance(x, (int, float, Fr)) and not isinstance(x, bool)


def T(x):
    if isinstance(x, Term):
        return x
    if isinstance(x, OrderVal):
        return x.sym
    if isinstance(x, bool):
        return Term.const(int(x))
    if isinstance(x, (int, float, Fr)):
        if isinstance(x, float) and (x != x or x in (INF, -INF)):
            raise Undecided(f"non-finite number {x}")
        return Term.const(x)
    raise Undecided(f"not a number: {x!r}")


def _mulb(a, b):
    c = [x * y if not (x == 0 or y == 0) else 0.0 for x in a for y in b]
    return min(c), max(c)


def t_add(a, b):
    return Term(a.n * b.d + b.n * a.d, a.d * b.d, a.lo + b.lo, a.hi + b.hi, a.integer and b.integer)


def t_sub(a, b):
    return Term(a.n * b.d - b.n * a.d, a.d * b.d, a.lo - b.hi, a.hi - b.lo, a.integer and b.integer)


def t_neg(a):
    return Term(-a.n, a.d, -a.hi, -a.lo, a.integer)


def t_mul(a, b):
    lo, hi = _mulb((a.lo, a.hi), (b.lo, b.hi))
    return Term(a.n * b.n, a.d * b.d, lo, hi, a.integer and b.integer)


def _lead(p):
    """leading monomial under a fixed lexicographic order"""
    return max(p.t, key=lambda k: tuple(sorted(k)))


def _mono_div(a, b):
    """a / b for monomials (tuples of (sym, exp)); None when b does not divide a"""
    d = dict(a)
    for s, e in b:
        if d.get(s, 0) < e:
            return None
        d[s] -= e
    return tuple(sorted((s, e) for s, e in d.items() if e))


def poly_divide(n, d):
    """exact multivariate division n / d: quotient polynomial or None when there is a remainder"""
    if not d.t:
        return None
    if d.is_const():
        c = d.cval()
        return Poly({k: v / c for k, v in n.t.items()})
    ld = _lead(d)
    q = Poly()
    r = Poly(dict(n.t))
    steps = 0
    while r.t:
        steps += 1
        if steps > 200:
            return None
        lr = _lead(r)
        m = _mono_div(lr, ld)
        if m is None:
            return None
        c = r.t[lr] / d.t[ld]
        term = Poly({m: c})
        q = q + term
        r = r - term * d
    return q


def poly_interval(p):
    """(lo, hi, integer) of a polynomial from the declared symbol ranges"""
    lo = hi = 0.0
    integer = True
    for k, c in p.t.items():
        mlo, mhi = float(c), float(c)
        if c.denominator != 1:
            integer = False
        for s, e in k:
            slo, shi, sint = W.sym_range.get(s, (-INF, INF, False))
            if not sint:
                integer = False
            for _ in range(e):
                mlo, mhi = _mulb((mlo, mhi), (slo, shi))
            if e % 2 == 0 and e > 0:
                pass
        lo += mlo
        hi += mhi
    return lo, hi, integer


def simplify(t):
    """cancel an exact polynomial divisor; tighten interval / integrality from symbol ranges"""
    if t.d.is_const():
        if t.d.cval() != 1:
            c = t.d.cval()
            t = Term(Poly({k: v / c for k, v in t.n.t.items()}), None, t.lo, t.hi, t.integer)
    else:
        q = poly_divide(t.n, t.d)
        if q is not None:
            t = Term(q, None, t.lo, t.hi, t.integer)
    if t.d.is_const():
        lo, hi, integer = poly_interval(t.n)
        t = Term(t.n, t.d, max(t.lo, lo), min(t.hi, hi), t.integer or integer)
    return t


def t_div(a, b):
    if b.is_const() and b.cval() == 0:
        return None            # numpy: x / 0 is inf or nan -- modelled as a missing (non-finite) value, which compares False
    return simplify(_t_div(a, b))


def _t_div(a, b):
    if b.is_const() and b.cval() == 0:
        raise Undecided("division by constant zero")
    if b.lo == 0 and b.hi > 0 and b.n.key() in W.positive:
        lo, hi = _mulb((a.lo, a.hi), (1 / b.hi if b.hi != INF else 0.0, INF))
    elif b.lo <= 0 <= b.hi:
        lo, hi = -INF, INF
    else:
        lo, hi = _mulb((a.lo, a.hi), (1 / b.hi if b.hi not in (INF, -INF) else 0.0, 1 / b.lo if b.lo not in (INF, -INF) else 0.0))
    return Term(a.n * b.d, a.d * b.n, lo, hi, False)


def fatom(name, args, lo=-INF, hi=INF, integer=False):
    args = [simplify(a) if isinstance(a, Term) else a for a in args]
    key = (name,) + tuple(T(a).key() if not isinstance(a, str) else a for a in args)
    if key not in W.atoms:
        W.atoms[key] = f"{name}[{', '.join(map(repr, args))}]"
    return Term.sym(W.atoms[key], lo, hi, integer)


def _floor(x):
    return math.floor(x) if x > -INF else -INF


def _ceil(x):
    return math.ceil(x) if x < INF else INF


def f_exp2(x):
    x = T(x)
    if x.key() in W.exp2_subst:
        return W.exp2_subst[x.key()]
    if x.is_const() and x.cval().denominator == 1 and abs(x.cval()) < 64:
        return Term.const(Fr(2) ** int(x.cval()))
    return fatom("exp2", [x], 0.0, INF)


def f_log2(x):
    x = simplify(T(x))
    if x.is_const() and x.cval() > 0:
        c = x.cval()
        if c.numerator == 1 or c.denominator == 1:
            v = c.numerator if c.denominator == 1 else c.denominator
            if v & (v - 1) == 0:
                e = v.bit_length() - 1
                return Term.const(e if c.denominator == 1 else -e)
    return fatom("log2", [x])


def f_ceil(x):
    x = simplify(T(x))
    return Term.const(math.ceil(x.cval())) if x.is_const() else fatom("ceil", [x], _floor(x.lo), _ceil(x.hi), True)


def f_floor(x):
    x = simplify(T(x))
    return Term.const(math.floor(x.cval())) if x.is_const() else fatom("floor", [x], _floor(x.lo), _ceil(x.hi), True)


def f_round(x):
    x = simplify(T(x))
    if x.is_const():
        return Term.const(round(x.cval()))
    if x.integer:
        return x
    return fatom("round", [x], _floor(x.lo), _ceil(x.hi), True)


def f_trunc(x):
    x = simplify(T(x))
    if x.is_const():
        return Term.const(int(x.cval()))
    if x.integer:
        return x
    return fatom("trunc", [x], min(_floor(x.lo), 0) if x.lo < 0 else _floor(x.lo), max(_ceil(x.hi), 0) if x.hi > 0 else _ceil(x.hi), True)


def f_abs(x):
    x = simplify(T(x))
    if x.is_const():
        return Term.const(abs(x.cval()))
    if x.lo >= 0:
        return x
    return fatom("abs", [x], 0.0, max(abs(x.lo), abs(x.hi)), x.integer)


def f_sqrt(x):
    x = T(x)
    if x.is_const() and x.cval() >= 0:
        r = math.isqrt(x.cval().numerator), math.isqrt(x.cval().denominator)
        if Fr(r[0], r[1]) ** 2 == x.cval():
            return Term.const(Fr(r[0], r[1]))
    return fatom("sqrt", [x], 0.0, INF)


def f_max(a, b):
    a, b = simplify(T(a)), simplify(T(b))
    if a.is_const() and b.is_const():
        return a if a.cval() >= b.cval() else b
    if a.lo >= b.hi:
        return a
    if b.lo >= a.hi:
        return b
    return fatom("max", sorted([a, b], key=lambda t: repr(t.key())), max(a.lo, b.lo), max(a.hi, b.hi), a.integer and b.integer)


def f_min(a, b):
    a, b = simplify(T(a)), simplify(T(b))
    if a.is_const() and b.is_const():
        return a if a.cval() <= b.cval() else b
    if a.hi <= b.lo:
        return a
    if b.hi <= a.lo:
        return b
    return fatom("min", sorted([a, b], key=lambda t: repr(t.key())), min(a.lo, b.lo), min(a.hi, b.hi), a.integer and b.integer)


def same(a, b):
    """exact equality of two abstract scalars"""
    if isinstance(a, (Term, OrderVal)) or isinstance(b, (Term, OrderVal)):
        try:
            return T(a).same(T(b))
        except Undecided:
            return False
    if num(a) and num(b):
        return Fr(str(a)) == Fr(str(b)) if isinstance(a, float) or isinstance(b, float) else a == b
    return type(a) == type(b) and a == b or (a is b)


def canon_atom(d, opn):
    """canonical (key, operator) of the comparison  d (op) 0  with the leading coefficient made positive"""
    lead = sorted(d.n.t.items())[-1][1] if d.n.t else 1
    dlead = sorted(d.d.t.items())[-1][1] if d.d.t else 1
    flip = (lead < 0) != (dlead < 0 and not d.d.is_const()) if False else lead < 0
    dd = Term(-d.n if flip else d.n, d.d)
    if flip:
        opn = {"Lt": "Gt", "Gt": "Lt", "LtE": "GtE", "GtE": "LtE"}.get(opn, opn)
    return (dd.key(), opn)
