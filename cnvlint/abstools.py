"""Helpers shared by the property modules that use the abstract interpreter."""
import itertools
import re
from fractions import Fraction as Fr

from .absval import (Term, OrderVal, Vec, GA, DF, Row, Opaque, NRows, FStr, FVal, Undecided, Raised, T, same, W, INF,
                     t_add, t_sub, t_mul, t_div, t_neg, f_exp2, f_log2, f_max, f_min, f_ceil, f_round, f_trunc, f_abs, fatom, canon_atom)
from .absint import Interp, Model, CTX
from .core import AnalysisError

CLS5 = ["auto", "x", "parx", "y", "pary"]


def chrom(c, style):
    base = {"auto": "1", "x": "X", "parx": "X", "y": "Y", "pary": "Y"}[c]
    return base if style == "" else "chr" + base


def make_ga(cls, rows, meta=None, index="range", exact=False, labels=None):
    """rows: list of dicts (one representative row per class).  index="any": the caller's table may carry any index
    (filtered / subset rows), so label-aligned stores of fresh Series are hazards"""
    n = len(rows)
    cols = {c: Vec((r[c] for r in rows), aligned=True) for c in rows[0]} if rows else {}
    g = GA(cls, cols, n, meta)
    g.data.index = index
    g.data.exact = exact          # exact=True: len() is the literal number of rows (a group of exactly these rows)
    if labels is not None:
        g.data.labels = list(labels)  # literal index labels (need not be 0..n-1: filtered / concatenated / re-ordered tables)
    return g


def par_model(model=None):
    """Primitive summaries parx_filter / pary_filter |-> mask of the PAR row classes (backed by the
    key/label agreement obligation C01-D2b)."""
    m = model or Model()
    m.method_prims["parx_filter"] = lambda it, g, genome_build=None: Vec(c == "parx" for c in g.meta["_classes"])
    m.method_prims["pary_filter"] = lambda it, g, genome_build=None: Vec(c == "pary" for c in g.meta["_classes"])
    return m


def cna(classes, style, extra=None, log2=None):
    rows = []
    for i, c in enumerate(classes):
        cname = c if isinstance(c, str) else c[0]
        r = {"chromosome": chrom(cname, style), "log2": (log2(i, c) if log2 else Term.sym(f"v_{cname}_{i}"))}
        if extra:
            r.update(extra(i, c))
        rows.append(r)
    return make_ga("CopyNumArray", rows, {"_classes": [c if isinstance(c, str) else c[0] for c in classes], "sample_id": "S"}, index="any")          # (the caller's table may be a filtered one: any index)


def ref_exp_oracle(c, P, hap, fem, par):
    """Appendix A: copies in the reference (r) and in the germline (x)"""
    if par is None:
        c = {"parx": "x", "pary": "y"}.get(c, c)
    ref = {"auto": P, "x": P // 2 if hap else P, "parx": P, "y": P // 2, "pary": 0}[c]
    exp = {"auto": P, "x": P if fem else P // 2, "parx": P, "y": 0 if fem else P // 2, "pary": 0}[c]
    return ref, exp


_UNMODELLED = re.compile(r"(?:^|[\[\(\{'\" ,=:])(\?(?:np|pd|scipy|numpy|pandas|mixed:|[a-z_]+\.)[\w.:\[\]()]*)")


def _unmodelled_in(w, depth=0):
    """an Opaque (unmodelled library result) inside a witness: the object itself, or its repr `?np.select` inside a rendered value"""
    if isinstance(w, Opaque):
        return repr(w)
    if isinstance(w, str):
        m = _UNMODELLED.search(w)
        return m.group(1) if m else None
    if depth > 6:
        return None
    if isinstance(w, dict):
        w = list(w.values())
    if isinstance(w, (list, tuple, set)):
        for x in w:
            r = _unmodelled_in(x, depth + 1)
            if r is not None:
                return r
    if isinstance(w, Vec):
        return _unmodelled_in(list(w.v), depth + 1)
    return None


class Table:
    """collects the cells of one decision-table obligation"""

    def __init__(self, chk, rule, name, where, construct):
        self.chk, self.rule, self.name, self.where, self.construct = chk, rule, name, where, construct
        self.cells = 0
        self.bad = []
        self.undecided = []

    def cell(self, ok, witness):
        self.cells += 1
        if not ok:
            unk = _unmodelled_in(witness)
            if unk is not None:
                # the interpreted code produced a value the model has no semantics for: the cell is not decided (never a violation)
                self.cells -= 1
                self.undecided.append(f"result holds an unmodelled value {unk}")
                return
            self.bad.append(witness)

    def guard(self, f, label):
        """run f(); an Undecided makes the whole obligation undecided (exit 2)"""
        try:
            return f()
        except Undecided as e:
            # decided at done(): a definite bad cell elsewhere in the table is still a violation; otherwise exit 2
            self.undecided.append(f"{label}: {e}")
            return None
        except Raised as e:
            self.cells += 1
            self.bad.append(dict(config=label, raised=str(e)))
            return None

    def done(self, msg_fail, sample=None):
        if self.undecided and not self.bad:
            msg = f"{self.rule} {self.name}: cannot decide ({self.undecided[0]})" + (f" (+{len(self.undecided) - 1} more)" if len(self.undecided) > 1 else "")
            if hasattr(self.chk, "defer"):
                # the remaining obligations are still evaluated: a definite violation elsewhere is reported (exit 1, this one as a note),
                # without any the run ends as an analysis error (exit 2)
                self.chk.defer(msg)
                return False
            raise AnalysisError(msg)
        if self.cells == 0:
            raise AnalysisError(f"{self.rule} {self.name}: no cells evaluated")
        if sample is not None:
            self.chk.sample(sample)
        if self.bad:
            self.chk.violate(self.rule, self.construct, self.where, f"{msg_fail}: {len(self.bad)} of {self.cells} cells differ from the oracle",
                             witness=self.bad[:6], instance=self.name, cells=self.cells)
        else:
            self.chk.ok(self.rule, self.name, where=self.where, cells=self.cells)
        return not self.bad


def eval_term(t, point):
    """numeric value (Fraction) of a rational term at a point {symbol: Fraction}; symbols missing from the point raise Undecided"""
    def ev(p):
        tot = Fr(0)
        for mono, c in p.t.items():
            v = Fr(c)
            for s, e in mono:
                if s not in point:
                    raise Undecided(f"comparison involves {s}, which has no representative value in this case")
                v *= Fr(point[s]) ** e
            tot += v
        return tot
    d = ev(t.d)
    if d == 0:
        raise Undecided("division by zero at the representative point")
    return ev(t.n) / d


def atoms_at(points):
    """CTX.atoms callback deciding  d (op) 0  by the sign of d at the current row class's representative point"""
    def atoms(d, op):
        pt = points[CTX.cls] if CTX.cls is not None and not isinstance(points, dict) else points
        if isinstance(points, list) and CTX.cls is None:
            raise Undecided("comparison outside a row context")
        v = eval_term(d, pt)
        return {"Lt": v < 0, "LtE": v <= 0, "Gt": v > 0, "GtE": v >= 0, "Eq": v == 0, "NotEq": v != 0}[type(op).__name__]
    return atoms


def provably_le(a, b):
    """a <= b from the structure of a: same term, interval separation, or a == min(..., b, ...)"""
    a, b = T(a), T(b)
    if same(a, b) or a.hi <= b.lo:
        return True
    for key, name in W.atoms.items():
        if a.same(Term.sym(name)) and key[0] == "min" and any(k == b.key() for k in key[1:]):
            return True
    return False


# ---------------------------------------------------------------------------------------------- shared contract: into_ranges
def into_ranges_index_kind(prog):
    """How the Series returned by skgenome.intersect.into_ranges is labelled, read off the real function by interpreting it on two
    literal table pairs (values present / nothing to summarise): "dest" = labelled like the destination table's rows,
    "fresh" = a new 0..n-1 index.  Harnesses that summarise into_ranges build their stub from this, so a store of its result
    into a table with a non-default index is judged against what the source really does."""
    cache = getattr(prog, "_into_ranges_kind", None)
    if cache is not None:
        return cache
    from .absval import DF, Vec

    def mk(rows, labels):
        df = DF({"chromosome": Vec([r[0] for r in rows], aligned=True), "start": Vec([r[1] for r in rows], aligned=True), "end": Vec([r[2] for r in rows], aligned=True),
                 "v": Vec([r[3] for r in rows], aligned=True)}, len(rows), "any")
        df.exact, df.labels = True, list(labels)
        return df
    kinds = []
    for src_rows in ([("a", 0, 10, 1), ("a", 10, 20, 2), ("a", 30, 40, 3)], []):
        W.reset()
        it = Interp(prog, Model())
        dest = mk([("a", 0, 20, 0), ("a", 25, 50, 0)], [7, 3])
        try:
            out = it.run("skgenome.intersect.into_ranges", [mk(src_rows, [5, 6, 8][:len(src_rows)]), dest, "v", -1, (lambda ser: 99)])
        except (Undecided, Raised) as e:
            raise AnalysisError(f"into_ranges contract: cannot interpret skgenome.intersect.into_ranges on a literal pair: {e}")
        if not isinstance(out, Vec) or len(out.v) != 2:
            raise AnalysisError(f"into_ranges contract: result is not one value per destination range: {out!r}")
        if out.labels == [7, 3] and out.aligned:
            kinds.append("dest")
        elif out.fresh or out.labels == [0, 1]:
            kinds.append("fresh")
        else:
            raise AnalysisError(f"into_ranges contract: unrecognised labelling of the result (labels {out.labels}, fresh={out.fresh}, aligned={out.aligned})")
    kind = "dest" if all(k == "dest" for k in kinds) else "fresh"
    prog._into_ranges_kind = kind
    return kind


def into_ranges_stub(prog, values_of):
    """a GenomicArray.into_ranges summary: values_of(it, self, other, column, default, summary_func) -> list of values; the Series is
    labelled the way the real function labels it (see into_ranges_index_kind)"""
    kind = into_ranges_index_kind(prog)

    def stub(it, obj, other, column, default, summary_func=None):
        vals = list(values_of(it, obj, other, column, default, summary_func))
        if kind == "dest":
            r = Vec(vals, aligned=(other.data.index if other.data.index != "range" else True))
            r.labels = other.data.labels
            return r
        return Vec(vals, fresh=True)
    return stub


def missing(x):
    """a NaN result: the scalar np.nan itself or the None that stands for a missing cell"""
    from .absval import NAN
    return x is None or x is NAN
