"""pandas discipline rules (DESIGN 3.5): writes lost under copy-on-write, position / label index kinds, return kinds."""
import ast

from .core import own_nodes, norm, parents, stmt_of, AnalysisError
from . import flow

INDEXERS = ("loc", "iloc", "at", "iat")
GA_CLASSES = ("GenomicArray", "CopyNumArray", "VariantArray")


def ga_properties(prog):
    props = set()
    for c in GA_CLASSES:
        ci = prog.classes.get(c)
        if ci:
            props |= {n for n, f in ci.methods.items() if "property" in f.decorators}
    return props


# ---------------------------------------------------------------------------------------------- lost writes (CoW)
def _derived(prog, e, props):
    """is `e` a derived temporary (a new object on every evaluation under pandas >= 3)?"""
    if isinstance(e, ast.Call):
        return "call result"
    if isinstance(e, ast.Subscript):
        return "indexing result"
    if isinstance(e, ast.Attribute):
        if e.attr in ("data", "meta", "_meta"):
            return None
        if e.attr in props and not (isinstance(e.value, ast.Name) and e.value.id in ("np", "pd")):
            return f"property `{e.attr}` (returns a new Series)"
        if e.attr in ("values", "T", "str", "dt"):
            return f"`.{e.attr}` view"
        if isinstance(e.value, ast.Attribute) and e.value.attr == "data":
            return f"column attribute `.data.{e.attr}`"
        return None
    return None


def lost_writes(prog, fi):
    """[(stmt, text, why)] stores / inplace calls whose target is reached through a derived temporary"""
    props = ga_properties(prog)
    par = parents(fi.node)
    out = []
    for n in own_nodes(fi.node):
        targets = []
        if isinstance(n, ast.Assign):
            targets = n.targets
        elif isinstance(n, ast.AugAssign):
            targets = [n.target]
        for t in targets:
            if not isinstance(t, ast.Subscript):
                continue
            v = t.value
            if isinstance(v, ast.Attribute) and v.attr in INDEXERS:
                v = v.value
            why = _derived(prog, v, props)
            if why:
                out.append((n, norm(t), f"the store goes into a {why}, a temporary object that is discarded (pandas >= 3 copy-on-write): the parent table never sees it"))
            elif isinstance(v, ast.Name):
                vals = flow.reaching_values(fi, v.id, v, par)
                dw = [(_derived(prog, x, props) if not isinstance(x, str) else None) for x in vals]
                if vals and all(d and d != "call result" for d in dw):
                    # a local bound to a derived value: fine only if it is read again after the store
                    later = [m for m in own_nodes(fi.node) if isinstance(m, ast.Name) and m.id == v.id and isinstance(m.ctx, ast.Load)
                             and (m.lineno, m.col_offset) > (n.end_lineno, n.end_col_offset)]
                    in_loop = flow._common_loop(n, n, par)
                    if not later and not in_loop:
                        out.append((n, norm(t), f"`{v.id}` is a {dw[0]} and is never read after this store: the write is lost"))
        if isinstance(n, ast.Call) and isinstance(n.func, ast.Attribute) and any(k.arg == "inplace" and isinstance(k.value, ast.Constant) and k.value.value is True for k in n.keywords):
            why = _derived(prog, n.func.value, props)
            if why and why != "call result":
                out.append((stmt_of(n, par), norm(n), f"inplace=True on a {why}: the parent table never sees it"))
    return out


# ---------------------------------------------------------------------------------------------- position / label kinds
def container_kind(fi, e, par, depth=0):
    """'ndarray' | 'Series' | 'frame' | 'unknown' for the container expression of a subscript"""
    if depth > 4:
        return "unknown"
    if isinstance(e, ast.Attribute):
        if e.attr in ("values",):
            return "ndarray"
        if e.attr == "data":
            return "frame"
        return "unknown"
    if isinstance(e, ast.Call):
        f = norm(e.func)
        if f.startswith("np.") or f.endswith(".to_numpy"):
            return "ndarray"
        if f == "pd.Series":
            return "Series"
        return "unknown"
    if isinstance(e, ast.Subscript):
        if isinstance(e.slice, ast.Constant) and isinstance(e.slice.value, str):
            return "Series"
        if isinstance(e.slice, ast.Name):
            # frame[<parameter annotated str>] selects one column
            a = fi.node.args
            for arg in a.posonlyargs + a.args + a.kwonlyargs:
                if arg.arg == e.slice.id and arg.annotation is not None and norm(arg.annotation) == "str":
                    return "Series"
        return "unknown"
    if isinstance(e, ast.IfExp):
        a, b = container_kind(fi, e.body, par, depth + 1), container_kind(fi, e.orelse, par, depth + 1)
        if isinstance(e.orelse, ast.Constant) and e.orelse.value is None:
            return a
        return a if a == b else "unknown"
    if isinstance(e, ast.Name):
        vals = flow.reaching_values(fi, e.id, e, par)
        kinds = {container_kind(fi, v, par, depth + 1) if not isinstance(v, str) else "unknown" for v in vals}
        return kinds.pop() if len(kinds) == 1 else "unknown"
    return "unknown"


def _was_reset(fi, e, par):
    """the table expression is a local bound to `<x>.reset_index(...)` (labels == positions)"""
    if isinstance(e, ast.Name):
        vals = flow.reaching_values(fi, e.id, e, par)
        return bool(vals) and all(isinstance(v, ast.Call) and isinstance(v.func, ast.Attribute) and v.func.attr == "reset_index"
                                  and not any(k.arg == "inplace" for k in v.keywords) for v in vals)
    return False


def position_label_uses(prog, res, modules=None, functions=None):
    """Yield (fi, use node, kind, why|None): every use of a POSITION value (from idx_ranges / _irange_*) or a LABEL value (from
    iter_slices) as an index; why is None when the indexing idiom matches the kind."""
    idx_fns = {prog.maybe_fn("skgenome.intersect.idx_ranges")} - {None}
    # ... and the helpers of its own module it delegates to (whatever they are called)
    for f0 in list(idx_fns):
        for n in own_nodes(f0.node):
            if isinstance(n, ast.Call):
                for c in res.resolve_call(n, f0):
                    if c.mod == f0.mod:
                        idx_fns.add(c)
            elif isinstance(n, ast.Name) and isinstance(n.ctx, ast.Load):
                r = prog.resolve_name(f0.mod, n.id)
                if r and r[0] == "func" and r[1].mod == f0.mod:
                    idx_fns.add(r[1])              # a helper picked into a variable and called through it
    sl_fn = prog.maybe_fn("skgenome.intersect.iter_slices")
    if not idx_fns or sl_fn is None:
        raise AnalysisError("anchor vanished: skgenome.intersect.idx_ranges / iter_slices")
    work = []
    for fi in prog.functions.values():
        if modules and fi.mod not in modules:
            continue
        if functions and fi.qn not in functions:
            continue
        work.append((fi, {}, {}, 0))
    done = set()
    while work:
        fi, seed_tags, param_kinds, depth = work.pop(0)
        key = (fi.qn, repr(sorted(seed_tags.items(), key=repr)), repr(sorted(param_kinds.items(), key=repr)))
        if key in done:
            continue
        done.add(key)
        par = parents(fi.node)
        tagged = dict(seed_tags)           # name -> (kind, freely-convertible); seeds: parameters a caller binds to tagged values
        funcvars = set()
        for n in own_nodes(fi.node):
            if isinstance(n, ast.Assign) and isinstance(n.value, ast.Name) and len(n.targets) == 1 and isinstance(n.targets[0], ast.Name):
                r = prog.resolve_name(fi.mod, n.value.id)
                if r and r[0] == "func" and r[1] in idx_fns:
                    funcvars.add(n.targets[0].id)
        sources = []
        for n in own_nodes(fi.node):
            it, tgt = None, None
            if isinstance(n, (ast.For, ast.comprehension)):
                it, tgt = n.iter, n.target
            elif isinstance(n, ast.Assign) and len(n.targets) == 1 and isinstance(n.targets[0], ast.Name):
                it, tgt = n.value, None
            if it is None:
                continue
            call = it
            wrapped = False
            while isinstance(call, ast.Call) and isinstance(call.func, ast.Name) and call.func.id in ("enumerate", "list", "zip", "tuple") and call.args:
                if call.func.id == "enumerate":
                    wrapped = True
                call = call.args[0]
            if not isinstance(call, ast.Call):
                continue
            cands = res.resolve_call(call, fi)
            is_idx = any(c in idx_fns for c in cands) or (isinstance(call.func, ast.Name) and call.func.id in funcvars)
            is_sl = sl_fn in cands
            if not (is_idx or is_sl):
                continue
            kind = "POSITION" if is_idx else "LABEL"
            free = is_sl and call.args and _was_reset(fi, call.args[0], par)
            if tgt is None:
                tagged[n.targets[0].id] = (kind + "S", free)          # an iterable of them
                continue
            t = tgt
            if wrapped and isinstance(t, ast.Tuple) and len(t.elts) == 2:
                t = t.elts[1]
            if is_idx and isinstance(t, ast.Tuple):
                t = t.elts[0]
            if isinstance(t, ast.Name):
                tagged[t.id] = (kind, free)
        # propagate through simple wrappers: x = np.concatenate(list(slices)), for s in slices
        changed = True
        while changed:
            changed = False
            for n in own_nodes(fi.node):
                if isinstance(n, ast.Assign) and len(n.targets) == 1 and isinstance(n.targets[0], ast.Name) and n.targets[0].id not in tagged:
                    names = {m.id for m in ast.walk(n.value) if isinstance(m, ast.Name)}
                    src = [tagged[x] for x in names if x in tagged]
                    if src and isinstance(n.value, ast.Call) and norm(n.value.func) in ("np.concatenate", "list", "np.asarray", "np.array", "np.unique", "np.hstack"):
                        tagged[n.targets[0].id] = (src[0][0].rstrip("S"), src[0][1])
                        changed = True
                if isinstance(n, (ast.For, ast.comprehension)) and isinstance(n.iter, ast.Name) and n.iter.id in tagged and tagged[n.iter.id][0].endswith("S") \
                        and isinstance(n.target, ast.Name) and n.target.id not in tagged:
                    tagged[n.target.id] = (tagged[n.iter.id][0].rstrip("S"), tagged[n.iter.id][1])
                    changed = True
                if isinstance(n, (ast.For, ast.comprehension)) and isinstance(n.iter, ast.Call) and isinstance(n.iter.func, ast.Name) and n.iter.func.id == "enumerate" and n.iter.args \
                        and isinstance(n.iter.args[0], ast.Name) and n.iter.args[0].id in tagged and tagged[n.iter.args[0].id][0].endswith("S") \
                        and isinstance(n.target, ast.Tuple) and len(n.target.elts) == 2 and isinstance(n.target.elts[1], ast.Name) and n.target.elts[1].id not in tagged:
                    src = tagged[n.iter.args[0].id]
                    tagged[n.target.elts[1].id] = (src[0].rstrip("S"), src[1])
                    changed = True
        # a tagged value handed to a helper of the package: the helper's parameter carries the kind (and the containers their kinds), two levels deep
        if depth < 2:
            for n in own_nodes(fi.node):
                if not isinstance(n, ast.Call):
                    continue
                actual = [(i, a) for i, a in enumerate(n.args)] + [(k.arg, k.value) for k in n.keywords if k.arg]
                if not any(isinstance(a, ast.Name) and a.id in tagged for _, a in actual):
                    continue
                cands = [c for c in res.resolve_call(n, fi) if c not in idx_fns and c is not sl_fn and c is not fi]
                if len(cands) != 1:
                    continue
                callee = cands[0]
                ca = callee.node.args
                names = [x.arg for x in ca.posonlyargs + ca.args]
                if callee.is_method and names and names[0] in ("self", "cls") and isinstance(n.func, ast.Attribute):
                    names = names[1:]
                seeds, kinds = {}, {}
                for pos, a in actual:
                    pname = pos if isinstance(pos, str) else (names[pos] if pos < len(names) else None)
                    if pname is None:
                        continue
                    if isinstance(a, ast.Name) and a.id in tagged:
                        seeds[pname] = tagged[a.id]
                    else:
                        ck = param_kinds.get(a.id) if isinstance(a, ast.Name) and a.id in param_kinds else container_kind(fi, a, par)
                        if ck in ("ndarray", "Series"):
                            kinds[pname] = ck
                if seeds:
                    work.append((callee, seeds, kinds, depth + 1))
        for n in own_nodes(fi.node):
            # positional / label-based *methods* given a tagged value: x.take(idx), np.take(x, idx) are positional; x.reindex(idx), x.drop(idx) label-based
            if isinstance(n, ast.Call) and isinstance(n.func, ast.Attribute) and n.func.attr in ("take", "reindex", "drop"):
                arg = None
                if norm(n.func.value) in ("np", "numpy") and len(n.args) >= 2:
                    arg = n.args[1]
                elif n.args:
                    arg = n.args[0]
                if isinstance(arg, ast.Name) and arg.id in tagged and not tagged[arg.id][0].endswith("S"):
                    kind, free = tagged[arg.id]
                    wants = "POSITION" if n.func.attr == "take" else "LABEL"
                    why = None
                    if wants != kind and not free:
                        src = "idx_ranges yields row positions" if kind == "POSITION" else "iter_slices yields index labels"
                        why = (f"{src}, but `{norm(n)[:60]}` is {'positional' if wants == 'POSITION' else 'label-based'}: on a table whose index is not 0..n-1 "
                               "(any filtered or per-chromosome subset) the wrong rows are selected")
                    yield fi, n, kind, why
                continue
            if not (isinstance(n, ast.Subscript) and isinstance(n.slice, ast.Name) and n.slice.id in tagged):
                continue
            kind, free = tagged[n.slice.id]
            if kind.endswith("S"):
                continue
            v = n.value
            wants = None
            if isinstance(v, ast.Attribute) and v.attr in ("iloc", "iat"):
                wants, idiom = "POSITION", f".{v.attr}[]"
            elif isinstance(v, ast.Attribute) and v.attr in ("loc", "at"):
                wants, idiom = "LABEL", f".{v.attr}[]"
            elif isinstance(v, ast.Attribute) and v.attr == "index":
                wants, idiom = "POSITION", ".index[] (position -> label)"
            else:
                ck = param_kinds[v.id] if isinstance(v, ast.Name) and v.id in param_kinds and not flow.assignments(fi.node, v.id) else container_kind(fi, v, par)
                if ck == "ndarray":
                    wants, idiom = "POSITION", "ndarray[]"
                elif ck == "Series":
                    wants, idiom = "LABEL", "Series[] (label-based)"
                else:
                    continue
            why = None
            if wants != kind and not free:
                src = "idx_ranges yields row positions" if kind == "POSITION" else "iter_slices yields index labels"
                why = (f"{src}, but `{norm(n)[:60]}` is {idiom}, which needs a {wants.lower()}: on a table whose index is not 0..n-1 "
                       "(any filtered or per-chromosome subset) the wrong rows are selected")
            yield fi, n, kind + (" (index reset: labels == positions)" if free else ""), why


# ---------------------------------------------------------------------------------------------- return kinds
def return_kind(prog, fi, e, res=None, depth=0):
    from .effects import Resolver
    res = res or Resolver(prog)
    par = parents(fi.node)
    if e is None or depth > 4:
        return "unknown"
    if isinstance(e, ast.Call):
        f = norm(e.func)
        if f in ("pd.Series", "self.as_series"):
            return "Series"
        if f in ("pd.DataFrame", "pd.DataFrame.from_records", "pd.concat", "pd.read_csv"):
            return "DataFrame"
        if isinstance(e.func, ast.Attribute) and e.func.attr in ("as_dataframe", "as_rows", "as_columns", "copy") and isinstance(e.func.value, ast.Name) and e.func.value.id == "self":
            return "GenomicArray"
        cands = res.resolve_call(e, fi)
        if len(cands) == 1 and cands[0] is not fi:
            kinds = {return_kind(prog, cands[0], r.value, res, depth + 1) for r in own_nodes(cands[0].node) if isinstance(r, ast.Return)}
            return kinds.pop() if len(kinds) == 1 else "unknown"
        return "unknown"
    if isinstance(e, ast.Name):
        vals = flow.reaching_values(fi, e.id, e, par)
        if vals == ["param"]:
            return param_kind(prog, fi, e.id, res)
        kinds = {return_kind(prog, fi, v, res, depth + 1) if not isinstance(v, str) else "unknown" for v in vals}
        return kinds.pop() if len(kinds) == 1 else "unknown"
    if isinstance(e, ast.Attribute) and e.attr == "data":
        return "DataFrame"
    if isinstance(e, ast.Subscript) and isinstance(e.slice, ast.Constant) and isinstance(e.slice.value, str):
        return "Series"
    return "unknown"


def param_kind(prog, fi, pname, res):
    """kind of a parameter from what the resolved call sites pass"""
    kinds = set()
    for cfi, call in flow.callers(prog, res, fi):
        a = flow.arg_of(call, fi, pname)
        if a is None:
            continue
        if isinstance(a, ast.Attribute) and a.attr == "data":
            kinds.add("DataFrame")
        elif isinstance(a, ast.Call) and isinstance(a.func, ast.Attribute) and a.func.attr in ("as_dataframe", "copy", "merge"):
            kinds.add("GenomicArray")
        else:
            kinds.add("unknown")
    return kinds.pop() if len(kinds) == 1 else "unknown"


# ---------------------------------------------------------------------------------------------- index / endpoint kinds of one function
