"""Translation / scale typing (C19-D4) and constant-data evaluation (C19-D5) of the estimator bodies in
cnvlib/descriptives.py, by abstract interpretation of the real ASTs over two small domains.

D4 domain -- a dimension-analysis style type per value:
    trans: "LOC" (moves by c under x -> x + c)  |  "INV" (unchanged)
    deg  : integer degree d (value scales by s**d under x -> s*x, s > 0) | "ANY" (a zero-like constant) | "MIX" (a degree-1 value
           met an absolute constant: scale behaviour undefined)
  Untypable combinations (LOC + LOC, LOC * k, abs(LOC), truthiness of LOC ...) are reported.  All paths are explored (every abstract
  boolean is a choice point)."""
import ast
import math
from fractions import Fraction as Fr

from .absint import Interp, Model, CTX
from .absval import NAN, Undecided, Raised, Term, W, T, same, t_add, t_sub, t_mul, t_div, f_sqrt, f_abs
from .core import AnalysisError, own_nodes, norm

DESC = "cnvlib.descriptives"
# sign not derivable in this domain: gapper's weights idx*(n - idx) need idx < n (np.arange(1, n)); confirmed by reading
SIGN_EXCEPTIONS = {"gapper_scale"}


class BadType(Exception):
    pass


class Chooser:
    cur = None


def _deg_add(a, b):
    if a == "MIX" or b == "MIX":
        return "MIX"
    if a == "ANY" or b == "ANY":
        return "ANY" if a == b else (a if b == "ANY" else b) if False else "ANY"
    return a + b


def _deg_join(a, b):
    """degree of a sum / comparison of two values"""
    if a == "ANY":
        return b
    if b == "ANY":
        return a
    if a == "MIX" or b == "MIX" or a != b:
        return "MIX"
    return a


def _weighs_all(x, what):
    """multiplicity rule: a statistic of the sample must see every observation with its multiplicity -- an array that went
    through np.unique / drop_duplicates has lost the ties"""
    if isinstance(x, TV) and x.dedup:
        raise BadType(f"{what} is computed from de-duplicated values (np.unique / drop_duplicates upstream): tied observations count once, "
                      "so the estimate of a sample with repeated values is not the estimator's formula on that sample")


def _pow2(x):
    """a constant whose product / quotient with a float is exact (barring overflow): +-2^k"""
    try:
        f = Fr(x)
    except (TypeError, ValueError):
        return False
    if f == 0:
        return False
    n, d = abs(f.numerator), f.denominator
    return n & (n - 1) == 0 and d & (d - 1) == 0


class TV:
    dedup = False                    # the array's values were de-duplicated (multiplicities lost)
    rounded = False                  # went through an operation that rounds even for small-integer inputs (a true division by a data-derived value, a root)

    def __init__(self, trans="INV", deg=0, arr=False, kind="num", note="", nonneg=False, pct=None):
        self.trans, self.deg, self.arr, self.kind, self.note = trans, deg, arr, kind, note
        self.nonneg = nonneg or kind in ("idx", "bool")      # sign domain: provably >= 0 (else unknown)
        self.pct = pct                                       # (id of the array, q) for np.percentile results

    def __repr__(self):
        return (f"<{self.trans} deg={self.deg}{' array' if self.arr else ''}{' ' + self.kind if self.kind != 'num' else ''}"
                f"{' >=0' if self.nonneg else ''}>")

    # ---- helpers
    @staticmethod
    def of(x):
        if isinstance(x, TV):
            return x
        if isinstance(x, bool):
            return TV("INV", 0, False, "bool")
        if isinstance(x, (int, float, Fr)):
            return TV("INV", "ANY" if x == 0 else 0, nonneg=x >= 0)
        if isinstance(x, (list, tuple)) and x and all(isinstance(e, TV) for e in x):
            t = x[0]
            for e in x[1:]:
                if e.trans != t.trans:
                    raise BadType("a list mixes LOC and INV values")
            d = x[0].deg
            for e in x[1:]:
                d = _deg_join(d, e.deg)
            return TV(t.trans, d, True, nonneg=all(e.nonneg for e in x))
        if x is None:
            raise Undecided("None in arithmetic")
        raise Undecided(f"typing of {type(x).__name__} {x!r}")

    def el(self):
        r = TV(self.trans, self.deg, False, self.kind, nonneg=self.nonneg)
        r.rounded = self.rounded
        return r

    # ---- interpreter hooks
    def abs_binop(self, op, other, reflected):
        r = self._binop(op, other, reflected)
        if isinstance(r, TV) and r.arr and (self.dedup or getattr(other, "dedup", False)):
            r.dedup = True
        if isinstance(r, TV):
            divisor = self if reflected else other
            r.rounded = self.rounded or getattr(other, "rounded", False) or (isinstance(op, ast.Div) and not (isinstance(divisor, (int, float, Fr)) and _pow2(divisor)))
        return r

    def _binop(self, op, other, reflected):
        o = TV.of(other)
        a, b = (o, self) if reflected else (self, o)
        arr = a.arr or b.arr
        if isinstance(op, (ast.BitAnd, ast.BitOr, ast.BitXor)):
            return TV("INV", 0, arr, "bool")
        if isinstance(op, (ast.Add, ast.Sub)):
            if a.trans == "LOC" and b.trans == "LOC":
                if isinstance(op, ast.Sub):
                    tr = "INV"
                else:
                    raise BadType("sum of two location-type values (moves by 2c under x -> x + c)")
            elif b.trans == "LOC" and isinstance(op, ast.Sub):
                raise BadType("a location-type value is subtracted from a translation-invariant one (moves by -c)")
            else:
                tr = "LOC" if "LOC" in (a.trans, b.trans) else "INV"
            kind = "idx" if "idx" in (a.kind, b.kind) and isinstance(op, ast.Add) else "num"
            nn = a.nonneg and b.nonneg if isinstance(op, ast.Add) else bool(a.pct and b.pct and a.pct[0] == b.pct[0] and a.pct[1] >= b.pct[1])
            return TV(tr, _deg_join(a.deg, b.deg), arr, kind, nonneg=nn)
        if isinstance(op, ast.Mult):
            if "LOC" in (a.trans, b.trans):
                raise BadType("a location-type value is multiplied (moves by k*c under x -> x + c)")
            return TV("INV", _mul_deg(a.deg, b.deg), arr, nonneg=a.nonneg and b.nonneg)
        if isinstance(op, (ast.Div, ast.FloorDiv)):
            if "LOC" in (a.trans, b.trans):
                raise BadType("a location-type value is divided / used as a divisor")
            return TV("INV", _mul_deg(a.deg, _neg_deg(b.deg)), arr, nonneg=a.nonneg and b.nonneg)
        if isinstance(op, ast.Pow):
            if a.trans == "LOC" or b.trans == "LOC":
                raise BadType("power of a location-type value")
            if not isinstance(other, (int, float, Fr)) or reflected:
                if b.deg in (0, "ANY") and a.deg in (0, "ANY"):
                    return TV("INV", 0, arr)
                raise Undecided("power with a non-constant exponent")
            even = isinstance(other, int) and other % 2 == 0
            if a.deg in ("MIX", "ANY"):
                return TV("INV", a.deg, arr, nonneg=a.nonneg or even)
            d = a.deg * other
            return TV("INV", int(d) if d == int(d) else Fr(d), arr, nonneg=a.nonneg or even)
        if isinstance(op, ast.Mod):
            raise BadType("modulo of a data-derived value")
        raise Undecided(f"operator {type(op).__name__} on typed values")

    def abs_unary(self, op):
        if isinstance(op, ast.Invert):
            return TV("INV", 0, self.arr, "bool")
        if isinstance(op, ast.USub):
            if self.trans == "LOC":
                raise BadType("negated location-type value")
            return TV("INV", self.deg, self.arr, "num")
        if isinstance(op, ast.Not):
            return not self.abs_truth()
        return self

    def abs_compare(self, op, other, reflected):
        o = TV.of(other)
        if isinstance(op, (ast.Is, ast.IsNot)):
            return isinstance(op, ast.IsNot)
        if self.trans != o.trans:
            raise BadType("a location-type value is compared with a translation-invariant one (the outcome changes with c)")
        tiny = isinstance(other, (int, float, Fr)) and not isinstance(other, bool) and 0 < other < Fr(1, 10 ** 9)
        below = (isinstance(op, (ast.Lt, ast.LtE)) and not reflected) or (isinstance(op, (ast.Gt, ast.GtE)) and reflected)
        if tiny and below and self.rounded:
            raise BadType("an equality-within-epsilon test on a quantity that went through a rounding division: with equal weights and an even count the halves "
                          "no longer meet the tolerance (sums of 1/n are not exact), so exact ties are missed and the tie value is not returned")
        return TV("INV", 0, self.arr or o.arr, "bool")

    def abs_truth(self):
        if self.arr:
            raise Undecided("truth value of an array")
        if self.trans == "LOC":
            raise BadType("truthiness of a location-type value (`if x:` is False only at x == 0, which moves with c)")
        return Chooser.cur()

    def abs_len(self):
        return TV("INV", 0, False, "idx")

    def abs_getitem(self, it, k):
        if isinstance(k, TV):
            r = TV(self.trans, self.deg, k.arr, self.kind, nonneg=self.nonneg)
            r.dedup = self.dedup and k.arr
            r.rounded = self.rounded
            return r
        if isinstance(k, slice):
            r = TV(self.trans, self.deg, True, self.kind, nonneg=self.nonneg)
            r.dedup = self.dedup
            r.rounded = self.rounded
            return r
        if isinstance(k, int):
            return self.el()
        if isinstance(k, tuple) and k and all(x is None or isinstance(x, slice) for x in k):
            # a[:, np.newaxis] and the like: the same elements in another shape
            r = TV(self.trans, self.deg, True, self.kind, nonneg=self.nonneg)
            r.dedup = self.dedup
            r.rounded = self.rounded
            return r
        raise Undecided(f"index {k!r} on a typed array")

    def abs_setitem(self, it, k, v, aug):
        v = TV.of(v)
        if v.trans != self.trans and not (v.deg == "ANY"):
            raise BadType("a store mixes LOC and INV values in one array")

    def abs_iter(self):
        return [self.el(), self.el(), self.el()]

    # ---- ndarray / Series methods (called through the interpreter's generic python-attribute fallback)
    def _red(self):
        r = TV(self.trans, self.deg, False, self.kind, nonneg=self.nonneg)
        r.rounded = self.rounded
        return r

    def mean(self, *a, **k):
        _weighs_all(self, "a mean")
        return self._red()

    def median(self, *a, **k):
        _weighs_all(self, "a median")
        return self._red()

    def unique(self, *a, **k):
        r = TV(self.trans, self.deg, True, self.kind, nonneg=self.nonneg)
        r.dedup = True
        r.is_sorted = True
        return r

    drop_duplicates = unique

    def max(self, *a, **k):
        return self._red()

    def min(self, *a, **k):
        return self._red()

    def take(self, indices, *a, **k):
        return self.abs_getitem(None, indices if isinstance(indices, (TV, slice, int)) else TV.of(indices))          # a.take(idx) is a[idx]

    def sum(self, *a, **k):
        _weighs_all(self, "a sum")
        if self.trans == "LOC":
            raise BadType("sum of location-type values (moves by n*c)")
        if self.kind == "bool":
            return TV("INV", 0, False, "idx")
        r = TV("INV", self.deg, False, nonneg=self.nonneg)
        r.rounded = self.rounded
        return r

    def cumsum(self, *a, **k):
        if self.trans == "LOC":
            raise BadType("cumulative sum of location-type values")
        r = TV("INV", self.deg, True, nonneg=self.nonneg)
        r.rounded = self.rounded
        return r

    def any(self, *a, **k):
        return TV("INV", 0, False, "bool")

    def all(self, *a, **k):
        return TV("INV", 0, False, "bool")

    def argsort(self, *a, **k):
        return TV("INV", 0, True, "idx")

    def argmax(self, *a, **k):
        return TV("INV", 0, False, "idx")

    def argmin(self, *a, **k):
        return TV("INV", 0, False, "idx")

    def searchsorted(self, v, *a, **k):
        o = TV.of(v)
        if o.trans != self.trans:
            raise BadType("searchsorted of a value of the other translation type")
        return TV("INV", 0, o.arr, "idx")

    def copy(self):
        return self

    def astype(self, *a, **k):
        return self

    def std(self, *a, **k):
        _weighs_all(self, "a standard deviation")
        return TV("INV", self.deg, False, nonneg=True)

    def var(self, *a, **k):
        _weighs_all(self, "a variance")
        return TV("INV", _mul_deg(self.deg, self.deg), False, nonneg=True)


def _mul_deg(a, b):
    if a == "MIX" or b == "MIX":
        return "MIX"
    if a == "ANY" or b == "ANY":
        return "ANY"
    return a + b


def _neg_deg(a):
    return a if a in ("MIX", "ANY") else -a


class KDE:
    def __init__(self, data):
        _weighs_all(data, "a kernel density estimate")
        self.data = data

    def evaluate(self, x):
        return TV("INV", _neg_deg(self.data.deg), True, nonneg=True)

    __call__ = evaluate


class Rows2:
    """np.vstack((a, b, ...)): parallel arrays stacked as rows; `.take(order, axis=1)` re-orders every row alike; unpacking gives the rows back"""

    def __init__(self, rows):
        self.rows = list(rows)

    def take(self, indices, axis=None, **k):
        if axis in (1, -1):
            return Rows2([r.take(indices) for r in self.rows])
        raise Undecided(f"take(axis={axis!r}) on stacked rows")

    def abs_iter(self):
        return list(self.rows)

    def abs_len(self):
        return len(self.rows)

    def abs_getitem(self, it, k):
        if isinstance(k, int) and not isinstance(k, bool):
            return self.rows[k]
        if isinstance(k, tuple) and len(k) == 2 and isinstance(k[0], slice) and k[0] == slice(None, None, None):
            return Rows2([r.abs_getitem(it, k[1]) for r in self.rows])          # m[:, order]
        raise Undecided(f"index {k!r} on stacked rows")


def function_forms(m, array_types):
    """np.f(x, ...) for the array methods the domains define is x.f(...) (an `axis` of 0 / None / -1 on a 1-D array changes nothing)"""
    def form(nm):
        def f(it, x, *a, **k):
            if not isinstance(x, array_types) or not hasattr(x, nm):
                raise Undecided(f"np.{nm} of {type(x).__name__}")
            k = {kk: vv for kk, vv in k.items() if not (kk == "axis" and vv in (0, None, -1))}
            if nm == "take" and len(a) > 1:
                a = a[:1] if a[1] in (0, None, -1) else a
            import inspect
            meth = getattr(x, nm)
            try:
                params = inspect.signature(meth).parameters
                if not any(p_.kind == p_.VAR_KEYWORD for p_ in params.values()):
                    k = {kk: vv for kk, vv in k.items() if kk in params}
            except (TypeError, ValueError):
                pass
            return meth(*a, **k)
        return f
    for nm in ("argsort", "cumsum", "argmax", "argmin", "searchsorted", "mean", "sum", "take", "any", "all", "max", "min", "copy", "median"):
        m.ext.setdefault(f"np.{nm}", form(nm))
    m.ext.setdefault("np.vstack", lambda it, rows, **k: Rows2(list(it.iterate(rows))))
    m.ext.setdefault("np.stack", lambda it, rows, axis=0, **k: Rows2(list(it.iterate(rows))) if axis == 0 else (_ for _ in ()).throw(Undecided("np.stack(axis != 0)")))
    if "np.count_nonzero" not in m.ext:
        m.ext["np.count_nonzero"] = lambda it, x, *a, **k: x.sum() if isinstance(x, array_types) else (_ for _ in ()).throw(Undecided("np.count_nonzero"))


def typing_model(role_of):
    m = Model()

    def keep(it, x, *a, **k):
        return TV.of(x)

    def red(it, x, *a, **k):
        x = TV.of(x)
        return TV(x.trans, x.deg, False, nonneg=x.nonneg)

    def red_all(it, x, *a, **k):
        _weighs_all(x, "a mean / median")
        return red(it, x, *a, **k)

    def np_unique(it, x, *a, **k):
        if a or k:
            raise Undecided("np.unique with options")
        return TV.of(x).unique()

    def pct(it, x, q, *a, **k):
        ident = id(x)
        _weighs_all(x, "a percentile")
        x = TV.of(x)
        return TV(x.trans, x.deg, False, nonneg=x.nonneg, pct=(ident, q) if isinstance(q, (int, float)) else None)

    def b_abs(x):
        x = TV.of(x)
        if x.trans == "LOC":
            raise BadType("abs() of a location-type value")
        r = TV("INV", x.deg, x.arr, nonneg=True)
        r.rounded = x.rounded
        return r

    def b_minmax(*args, _which="max", **k):
        vals = [TV.of(v) for v in (args[0] if len(args) == 1 and isinstance(args[0], (list, tuple)) else args)]
        if len({v.trans for v in vals}) > 1:
            raise BadType("min/max of a location-type and an invariant value")
        d = vals[0].deg
        for v in vals[1:]:
            d = _deg_join(d, v.deg) if not (d != v.deg and "ANY" not in (d, v.deg)) else "MIX"
        nn = any(v.nonneg for v in vals) if _which == "max" else all(v.nonneg for v in vals)
        return TV(vals[0].trans, d, any(v.arr for v in vals), nonneg=nn)

    m.builtins.update({"abs": b_abs, "max": b_minmax, "min": (lambda *a, **k: b_minmax(*a, _which="min", **k)), "len": lambda x: (TV("INV", 0, False, "idx") if isinstance(x, TV) else len(x)),
                       "range": lambda *a: (range(*a) if all(isinstance(x, int) for x in a) else [TV("INV", 0, False, "idx")] * 2),
                       "enumerate": lambda x, start=0: [(TV("INV", 0, False, "idx"), e) for e in (x.abs_iter() if isinstance(x, TV) else x)],
                       "int": lambda x: x, "float": lambda x: x, "round": lambda x, *a: x, "sum": lambda xs: TV.of(list(xs)).sum()})
    for f in ("np.max", "np.min", "np.amax", "np.amin"):
        m.ext[f] = red                   # extremes do not depend on multiplicities
    for f in ("np.median", "np.nanmedian", "np.mean", "np.nanmean"):
        m.ext[f] = red_all
    m.ext["np.unique"] = np_unique
    m.ext["pd.unique"] = np_unique
    m.ext["np.percentile"] = pct
    m.ext["np.quantile"] = pct
    for f in ("np.asarray", "np.array", "np.asfarray", "np.copy", "np.ravel"):
        m.ext[f] = keep
    # a random subsample has the type of the sample (whether the draw is reproducible is C10's subject, not a typing matter)
    m.ext["np.random.choice"] = lambda it, x, *a, **k: keep(it, x)
    m.ext["np.abs"] = lambda it, x, *a, **k: b_abs(x)
    m.ext["np.absolute"] = m.ext["np.abs"]
    m.ext["np.isnan"] = lambda it, x: TV("INV", 0, TV.of(x).arr, "bool")

    def isclose(it, a, b, *rest, **k):
        a, b = TV.of(a), TV.of(b)
        if "LOC" in (a.trans, b.trans):
            raise BadType("np.isclose of location-type values: the relative tolerance is taken from the magnitude of the value, which moves with c "
                          "(data with a small spread far from 0 is declared constant)")
        if a.deg not in (0, "ANY") or b.deg not in (0, "ANY"):
            raise BadType("np.isclose of scale-dependent values: the absolute tolerance (1e-8) does not scale with the data")
        return TV("INV", 0, a.arr or b.arr, "bool")
    m.ext["np.isclose"] = isclose
    m.ext["math.isclose"] = isclose

    def diff(it, x, *a, **k):
        was_sorted = getattr(x, "is_sorted", False)
        x = TV.of(x)
        return TV("INV", x.deg, True, nonneg=was_sorted)
    m.ext["np.diff"] = diff

    def np_sort(it, x, *a, **k):
        x = TV.of(x)
        r = TV(x.trans, x.deg, True, x.kind, nonneg=x.nonneg)
        r.is_sorted = True
        r.dedup = x.dedup
        return r
    m.ext["np.sort"] = np_sort

    def sqrt(it, x):
        x = TV.of(x)
        if x.trans == "LOC":
            raise BadType("sqrt of a location-type value")
        d = x.deg
        if d not in ("MIX", "ANY"):
            d = Fr(d, 2)
            d = int(d) if d.denominator == 1 else d
        return TV("INV", d, x.arr, nonneg=True)
    m.ext["np.sqrt"] = sqrt
    m.ext["math.sqrt"] = sqrt

    def average(it, x, axis=None, weights=None, **k):
        _weighs_all(x, "an average")
        x = TV.of(x)
        if weights is not None:
            w = TV.of(weights)
            if w.trans == "LOC":
                raise BadType("location-type weights")
        return TV(x.trans, x.deg, False, nonneg=x.nonneg)
    m.ext["np.average"] = average
    m.ext["np.arange"] = lambda it, *a, **k: TV("INV", 0, True, "idx")
    # pairs of elements of a typed array: each member has the element's type (three representative pairs)
    m.ext["itertools.combinations"] = lambda it, x, r=2, *a, **k: [tuple(TV.of(x).el() for _ in range(r))] * 3 if isinstance(x, TV) and isinstance(r, int) else (_ for _ in ()).throw(Undecided("itertools.combinations of a non-array"))
    m.ext["np.triu_indices"] = lambda it, *a, **k: (TV("INV", 0, True, "idx"), TV("INV", 0, True, "idx"))
    m.ext["np.flatnonzero"] = lambda it, x, *a, **k: TV("INV", 0, True, "idx")          # the positions where a mask holds: index-like, unmoved by x -> x + c

    def tri(it, x, k=0):
        x = TV.of(x)
        if x.trans == "LOC":
            raise BadType("a triangle of location-type values filled up with zeros (the zeros do not move with c)")
        r = TV("INV", x.deg, True, x.kind, nonneg=x.nonneg)
        r.rounded = x.rounded
        return r
    m.ext["np.triu"] = tri
    m.ext["np.tril"] = tri
    m.ext["np.tril_indices"] = m.ext["np.triu_indices"]
    m.ext["np.sum"] = lambda it, x, *a, **k: TV.of(x).sum()
    m.ext["scipy.stats.gaussian_kde"] = lambda it, x, *a, **k: KDE(TV.of(x))
    m.ext["np.where"] = lambda it, c, a=None, b=None: TV.of(a) if a is not None else TV("INV", 0, True, "idx")

    def attr_hook(it, obj, attr):
        if isinstance(obj, TV) and attr in ("values", "T"):
            return obj
        if isinstance(obj, TV) and attr == "size":
            return TV("INV", 0, False, "idx")
        return NotImplemented
    m.attr_hooks.append(attr_hook)
    # calls to other estimators: summarised by their role (each is typed itself)
    for name, role in role_of.items():
        def summary(it, a, *rest, _role=role, **k):
            _weighs_all(a, "an estimate")
            a = TV.of(a)
            if _role == "location":
                return TV(a.trans, a.deg, False, nonneg=a.nonneg)    # a location estimate has the type (and sign) of one element
            return TV("INV", a.deg, False, nonneg=True)
        m.prims[f"{DESC}.{name}"] = summary
    function_forms(m, (TV,))
    return m


def explore(run, limit=400):
    results, stack = [], [[]]
    while stack:
        prefix = stack.pop()
        taken = []

        def choose(prefix=prefix, taken=taken):
            i = len(taken)
            v = prefix[i] if i < len(prefix) else True
            taken.append(v)
            return v
        Chooser.cur = choose
        try:
            out = ("ok", run())
        except BadType as e:
            out = ("bad", str(e))
        except Raised as e:
            out = ("raised", str(e))
        finally:
            Chooser.cur = None
        results.append((tuple(taken), out))
        for i in range(len(prefix), len(taken)):
            if taken[i] is True:
                stack.append(taken[:i] + [False])
        if len(results) > limit:
            raise Undecided("too many paths")
    return results


def strip(prog, qn):
    import copy
    fi = prog.fn(qn)
    n2 = copy.copy(fi.node)
    n2.decorator_list = []
    return fi, n2


def type_estimator(prog, name, role_of, weighted):
    fi, node = strip(prog, f"{DESC}.{name}")
    others = {k: v for k, v in role_of.items() if k != name}
    model = typing_model(others)
    it = Interp(prog, model)
    a = TV("LOC", 1, True)
    args = [a] + ([TV("INV", 0, True, nonneg=True)] if weighted else [])
    kw = {}
    if "max_iter" in fi.params:
        kw["max_iter"] = 2

    def run():
        return it.call_function(fi.mod, node, list(args), dict(kw), qn=None)
    return fi, explore(run)


def check_typing(chk, prog, LOCATION, SCALE, floor=10):
    chk.rule("translation-typing", "location estimator: every path returns LOC; scale estimator: every path returns INV of degree 1 (degree not checked "
             "where the body clamps a degree-1 value with an absolute constant -- the biweights)")
    role_of = {**{k: "location" for k in LOCATION}, **{k: "scale" for k in SCALE}}
    skip = {"mean_squared_error": "not in the property's list; `if initial:` tests a location-type value for truth"}
    n = 0
    for name in list(LOCATION) + list(SCALE):
        if name in skip:
            chk.note(f"{name}: not typed ({skip[name]})")
            continue
        weighted = (LOCATION.get(name) or SCALE.get(name)) == "on_weighted_array"
        try:
            fi, results = type_estimator(prog, name, role_of, weighted)
        except Undecided as e:
            raise AnalysisError(f"C19-D4: cannot type {name}: {e}")
        n += 1
        bad, paths = [], 0
        for taken, (status, out) in results:
            if status == "raised":
                continue
            paths += 1
            if status == "bad":
                bad.append(f"untypable: {out}")
                continue
            if not isinstance(out, TV):
                if isinstance(out, (int, float)) and name in SCALE and out == 0:
                    continue
                bad.append(f"returns a constant {out!r}")
                continue
            if name in LOCATION:
                if out.trans != "LOC":
                    bad.append(f"a path returns {out!r}: the result does not move with the data when a constant is added")
            else:
                if out.trans != "INV":
                    bad.append(f"a path returns {out!r}: the result changes when a constant is added to the data")
                elif out.deg not in (1, "MIX") and not (out.deg == "ANY"):
                    bad.append(f"a path returns {out!r}: the result is not proportional to the data (degree {out.deg} under x -> s*x)")
                elif out.deg == "MIX" and name not in ("biweight_midvariance",):
                    bad.append(f"a path returns {out!r}: a degree-1 value is combined with an absolute constant, so the result is not proportional under rescaling")
                elif not out.nonneg and name not in SIGN_EXCEPTIONS:
                    bad.append(f"a path returns {out!r}: the result is not provably non-negative (no abs / square / sorted difference on the way)")
        bad = sorted(set(bad))
        chk.decide(not bad, "translation-typing", f"{name}: {paths} path(s) typed {'LOC' if name in LOCATION else 'INV, degree 1'}", f"{fi.qn}::typing", fi.loc(),
                   "; ".join(bad), witness=dict(paths=paths, role="location" if name in LOCATION else "scale"), cells=max(paths, 1))
    chk.floor("estimators typed", n, floor)


# ---------------------------------------------------------------------------------------------- D5: constant data
class Mat:
    """an exact 2-D array (rows of abstract scalars): what `a[:, None] - a`, np.triu and boolean-mask selection need"""

    def __init__(self, rows):
        self.rows = [list(r) for r in rows]

    def __repr__(self):
        return f"Mat{self.rows}"

    @property
    def shape(self):
        return (len(self.rows), len(self.rows[0]) if self.rows else 0)

    def abs_len(self):
        return len(self.rows)

    def abs_iter(self):
        return [Arr(r) for r in self.rows]

    def map(self, f):
        return Mat([[f(x) for x in r] for r in self.rows])

    def _with(self, other, f):
        """element-wise with numpy broadcasting of a scalar, a 1-D array (along the columns) or another matrix (size-1 axes stretched)"""
        n, m = self.shape
        if isinstance(other, Arr):
            other = Mat([other.v])
        if isinstance(other, Mat):
            on, om = other.shape
            rn, rm = max(n, on), max(m, om)
            if (n not in (1, rn)) or (on not in (1, rn)) or (m not in (1, rm)) or (om not in (1, rm)):
                raise Raised("ValueError", "operands could not be broadcast together")
            return Mat([[f(self.rows[i if n > 1 else 0][j if m > 1 else 0], other.rows[i if on > 1 else 0][j if om > 1 else 0]) for j in range(rm)] for i in range(rn)])
        return Mat([[f(x, other) for x in r] for r in self.rows])

    def abs_binop(self, op, other, reflected):
        from .absint import binop
        return self._with(other, (lambda x, y: binop(op, y, x)) if reflected else (lambda x, y: binop(op, x, y)))

    def abs_compare(self, op, other, reflected):
        from .absint import compare
        return self._with(other, (lambda x, y: compare(op, y, x)) if reflected else (lambda x, y: compare(op, x, y)))

    def abs_unary(self, op):
        if isinstance(op, ast.Invert):
            return self.map(lambda x: not x)
        if isinstance(op, ast.USub):
            from .absint import binop
            return self.map(lambda x: binop(ast.Sub(), 0, x))
        raise Undecided("unary op on a matrix")

    def abs_getitem(self, it, k):
        if isinstance(k, Mat) and k.shape == self.shape and all(isinstance(x, bool) for r in k.rows for x in r):
            return Arr(x for r, mr in zip(self.rows, k.rows) for x, m in zip(r, mr) if m)          # boolean mask: the selected elements, row by row
        if isinstance(k, tuple) and len(k) == 2 and all(isinstance(x, Arr) for x in k):
            return Arr(self.rows[_i(i)][_i(j)] for i, j in zip(k[0].v, k[1].v))
        if isinstance(k, tuple) and len(k) == 2 and not isinstance(k[0], (slice, Arr)) and not isinstance(k[1], (slice, Arr)) and k[0] is not None and k[1] is not None:
            return self.rows[_i(k[0])][_i(k[1])]
        if not isinstance(k, (tuple, slice, Arr, Mat)):
            return Arr(self.rows[_i(k)])
        raise Undecided(f"matrix index {k!r}")

    def ravel(self, *a, **k):
        return Arr(x for r in self.rows for x in r)

    flatten = ravel

    def sum(self, axis=None, **k):
        if axis is None:
            return self.ravel().sum()
        if _i(axis) == 1:
            return Arr(Arr(r).sum() for r in self.rows)
        if _i(axis) == 0:
            return Arr(Arr(c).sum() for c in zip(*self.rows))
        raise Undecided(f"sum(axis={axis!r})")


class Arr:
    """an exact 1-D array of abstract scalars (Terms over the symbol k, numbers, bools)"""

    def __init__(self, vals):
        self.v = list(vals)

    def __repr__(self):
        return f"Arr{self.v}"

    def abs_len(self):
        return len(self.v)

    def abs_iter(self):
        return list(self.v)

    @property
    def dtype(self):
        from .absmodel import DType
        vals = [x for x in self.v if x is not None]
        if vals and all(isinstance(x, bool) for x in vals):
            return DType("bool")
        if vals and all(isinstance(x, int) and not isinstance(x, bool) for x in vals):
            return DType("int")
        return DType("float")

    @property
    def size(self):
        return len(self.v)

    def _zip(self, other):
        if isinstance(other, Arr):
            if len(other.v) != len(self.v):
                raise Raised("ValueError", "operands could not be broadcast together")
            return other.v
        return [other] * len(self.v)

    def abs_binop(self, op, other, reflected):
        from .absint import binop
        if isinstance(other, Mat):
            return other.abs_binop(op, self, not reflected)
        o = self._zip(other)
        return Arr((binop(op, y, x) if reflected else binop(op, x, y)) for x, y in zip(self.v, o))

    def abs_compare(self, op, other, reflected):
        from .absint import compare
        o = self._zip(other)
        return Arr((compare(op, y, x) if reflected else compare(op, x, y)) for x, y in zip(self.v, o))

    def abs_unary(self, op):
        if isinstance(op, ast.Invert):
            return Arr(not x for x in self.v)
        if isinstance(op, ast.USub):
            from .absint import binop
            return Arr(binop(ast.Sub(), 0, x) for x in self.v)
        raise Undecided("unary op on array")

    def abs_truth(self):
        if len(self.v) == 1:
            from .absint import truth
            return truth(self.v[0])
        raise Raised("ValueError", "truth value of an array is ambiguous")

    def abs_getitem(self, it, k):
        if isinstance(k, tuple) and len(k) == 2 and k[1] is None and isinstance(k[0], slice) and k[0] == slice(None, None, None):
            return Mat([[x] for x in self.v])                    # a[:, np.newaxis]: a column
        if isinstance(k, tuple) and len(k) == 2 and k[0] is None and isinstance(k[1], slice) and k[1] == slice(None, None, None):
            return Mat([list(self.v)])                           # a[np.newaxis, :]: a row
        if isinstance(k, Arr):
            if all(isinstance(x, bool) for x in k.v):
                return Arr(x for x, m in zip(self.v, k.v) if m)
            return Arr(self.v[_i(i)] for i in k.v)
        if isinstance(k, slice):
            return Arr(self.v[slice(_i(k.start), _i(k.stop), _i(k.step))])
        return self.v[_i(k)]

    def abs_setitem(self, it, k, v, aug):
        if isinstance(k, Arr) and all(isinstance(x, bool) for x in k.v):
            vals = v.v if isinstance(v, Arr) else [v] * sum(k.v)
            j = 0
            for i, m in enumerate(k.v):
                if m:
                    self.v[i] = vals[j]
                    j += 1
            return
        if isinstance(k, Arr):
            # integer index array: positional scatter
            vals = v.v if isinstance(v, Arr) else [v] * len(k.v)
            if len(vals) != len(k.v):
                raise Raised("ValueError", "shape mismatch in an indexed store")
            for i, x in zip(k.v, vals):
                self.v[_i(i)] = x
            return
        self.v[_i(k)] = v

    # methods
    def to_numpy(self, *a, **k):
        return Arr(self.v)

    def tolist(self):
        return list(self.v)

    @property
    def values(self):
        return self

    def take(self, indices, *a, **k):
        return self.abs_getitem(None, indices)               # a.take(idx) is a[idx]

    def sum(self, *a, **k):
        r = 0
        from .absint import binop
        for x in self.v:
            r = binop(ast.Add(), r, int(x) if isinstance(x, bool) else x)
        return r

    def mean(self, *a, **k):
        if not self.v:
            return None
        from .absint import binop
        return binop(ast.Div(), self.sum(), len(self.v))

    def any(self):
        from .absint import truth
        return any(truth(x) for x in self.v)

    def all(self):
        from .absint import truth
        return all(truth(x) for x in self.v)

    def _order(self):
        from .absint import compare
        idx = list(range(len(self.v)))
        if all(isinstance(x, (int, Fr)) and not isinstance(x, bool) for x in self.v):
            return sorted(idx, key=lambda i: self.v[i])          # literal numbers: the same stable order
        # insertion sort with exact comparisons (stable)
        out = []
        for i in idx:
            j = len(out)
            while j > 0 and compare(ast.Lt(), self.v[i], self.v[out[j - 1]]) is True:
                j -= 1
            out.insert(j, i)
        return out

    def argsort(self, *a, **k):
        return Arr(self._order())

    def argmax(self):
        from .absint import compare
        b = 0
        for i in range(1, len(self.v)):
            if compare(ast.Gt(), self.v[i], self.v[b]) is True:
                b = i
        return b

    def cumsum(self):
        from .absint import binop
        out, r = [], 0
        for x in self.v:
            r = binop(ast.Add(), r, x)
            out.append(r)
        return Arr(out)

    def searchsorted(self, q, side="left"):
        from .absint import compare
        op = ast.Lt() if side == "left" else ast.LtE()
        return sum(1 for x in self.v if compare(op, x, q) is True)

    def copy(self):
        return Arr(self.v)

    def max(self):
        return self.v[self.argmax()]

    def min(self):
        o = self._order()
        return self.v[o[0]]


def _i(x):
    if x is None or isinstance(x, int):
        return x
    if isinstance(x, Term) and x.is_const() and x.cval().denominator == 1:
        return int(x.cval())
    raise Undecided(f"array index {x!r}")


def _sorted_arr(a):
    return Arr(a.v[i] for i in a._order())


def _median(a):
    s = _sorted_arr(a).v
    n = len(s)
    if not n:
        return None
    from .absint import binop
    return s[n // 2] if n % 2 else binop(ast.Div(), binop(ast.Add(), s[n // 2 - 1], s[n // 2]), 2)


def _percentile(a, q):
    from .absint import binop
    s = _sorted_arr(a).v
    if not s:
        raise Raised("IndexError", "np.percentile of an empty array: index -1 is out of bounds for axis 0 with size 0")
    pos = Fr(q, 100) * (len(s) - 1)
    lo = int(pos)
    frac = pos - lo
    if frac == 0:
        return s[lo]
    return binop(ast.Add(), s[lo], binop(ast.Mult(), frac, binop(ast.Sub(), s[lo + 1], s[lo])))


def const_model():
    m = Model()
    m.ext["np.asarray"] = lambda it, x, *a, **k: x if isinstance(x, Arr) else Arr(list(x))
    m.ext["np.array"] = m.ext["np.asarray"]
    m.ext["np.sort"] = lambda it, x, *a, **k: _sorted_arr(x)

    def np_unique(it, x, *a, **k):
        out = []
        for e in _sorted_arr(x if isinstance(x, Arr) else Arr(x)).v:
            if not out or not same(out[-1], e):
                out.append(e)
        return Arr(out)
    m.ext["np.unique"] = np_unique
    m.ext["np.median"] = lambda it, x, *a, **k: _median(x if isinstance(x, Arr) else Arr(x))
    m.ext["np.mean"] = lambda it, x, *a, **k: x.mean()
    m.ext["np.percentile"] = lambda it, x, q, *a, **k: _percentile(x if isinstance(x, Arr) else Arr(x), q)
    m.ext["np.isnan"] = lambda it, x: Arr(e is None for e in x.v) if isinstance(x, Arr) else (x is None)      # None stands for NaN

    def np_flatnonzero(it, x):
        from .absint import truth
        return Arr(i for i, e in enumerate(x.v if isinstance(x, Arr) else list(it.iterate(x))) if truth(e))
    m.ext["np.flatnonzero"] = np_flatnonzero

    def np_abs(it, x):
        from .absmodel import builtin
        if isinstance(x, Mat):
            return x.map(builtin(it, "abs"))
        return Arr(builtin(it, "abs")(e) for e in x.v) if isinstance(x, Arr) else builtin(it, "abs")(x)
    m.ext["np.abs"] = np_abs
    m.ext["np.absolute"] = np_abs
    m.builtins["abs"] = lambda x: np_abs(None, x)            # abs(array) is np.abs(array)
    m.ext["np.fabs"] = np_abs

    def np_tri(upper):
        def f(it, x, k=0):
            if not isinstance(x, Mat):
                raise Undecided("np.triu / np.tril of a non-matrix")
            k = _i(k)
            return Mat([[v if ((j - i >= k) if upper else (j - i <= k)) else 0 for j, v in enumerate(r)] for i, r in enumerate(x.rows)])
        return f
    m.ext["np.triu"] = np_tri(True)
    m.ext["np.tril"] = np_tri(False)
    m.ext["np.subtract.outer"] = lambda it, a, b: Mat([[x] for x in a.v]).abs_binop(ast.Sub(), b, False)

    def np_diff(it, x):
        from .absint import binop
        return Arr(binop(ast.Sub(), b, a) for a, b in zip(x.v, x.v[1:]))
    m.ext["np.diff"] = np_diff
    m.ext["np.arange"] = lambda it, *a: Arr(range(*[_i(x) for x in a]))

    def triu(it, n, k=0, m_=None):
        n, k = _i(n), _i(k)
        pairs = [(i, j) for i in range(n) for j in range(n) if j - i >= k]
        return (Arr(i for i, _ in pairs), Arr(j for _, j in pairs))
    m.ext["np.triu_indices"] = triu

    def combinations(it, x, r=2):
        import itertools
        return [tuple(c) for c in itertools.combinations(x.v if isinstance(x, Arr) else list(it.iterate(x)), r)]
    m.ext["itertools.combinations"] = combinations

    def np_sqrt(it, x):
        return Arr(f_sqrt(T(e)) for e in x.v) if isinstance(x, Arr) else f_sqrt(T(x))
    m.ext["np.sqrt"] = np_sqrt

    def np_average(it, x, weights=None, **k):
        from .absint import binop
        if weights is None:
            return x.mean()
        sw = weights.sum()
        if same(sw, 0):
            raise Raised("ZeroDivisionError", "Weights sum to zero, can't be normalized")
        return binop(ast.Div(), (x.abs_binop(ast.Mult(), weights, False)).sum(), sw)
    m.ext["np.average"] = np_average

    def kde(it, x, *a, **k):
        vals = x.v if isinstance(x, Arr) else list(x)
        if all(same(v, vals[0]) for v in vals):
            raise Raised("numpy.linalg.LinAlgError", "gaussian_kde: the data covariance matrix is singular (all values equal)")
        raise Undecided("gaussian_kde on non-constant data")
    m.ext["scipy.stats.gaussian_kde"] = kde
    m.ext["np.pi"] = None

    def isclose(it, a, b, rtol=Fr(1, 10 ** 5), atol=Fr(1, 10 ** 8), **k):
        if same(a, b):
            return True
        ta, tb_ = T(a), T(b)
        if ta.is_const() and tb_.is_const():
            return abs(ta.cval() - tb_.cval()) <= Fr(atol) + Fr(rtol) * abs(tb_.cval())
        raise Undecided("np.isclose of symbolic values that are not identical")
    m.ext["np.isclose"] = isclose
    function_forms(m, (Arr, Mat))
    return m


def check_constant(chk, prog, LOCATION, SCALE, floor=11):
    chk.rule("constant-data", "each estimator, through its decorator, interpreted on the uniform vector (k, k, k) and on the single value (k): "
             "location -> k, scale -> 0; a library precondition violated by constant data is a finding")
    n = 0
    for name in list(LOCATION) + list(SCALE):
        weighted = (LOCATION.get(name) or SCALE.get(name)) == "on_weighted_array"
        fi = prog.fn(f"{DESC}.{name}")
        problems = []
        for size in (3, 2, 1, "1 among NaN", "empty", "all NaN"):
            W.reset()
            k = Term.sym("k")
            it = Interp(prog, const_model())
            if isinstance(size, int):
                vals, wts = [k] * size, [1] * size
            elif size == "1 among NaN":
                vals, wts = [None, k, None], [1, 1, 1]
            elif size == "empty":
                vals, wts = [], []
            else:
                vals, wts = [None, None], [1, 1]
            args = [Arr(vals)] + ([Arr(wts)] if weighted else [])

            def generic_k(d, op):
                # k stands for a generic (non-zero) value: a non-zero polynomial in k is != 0; order comparisons stay undecided
                opn = type(op).__name__
                if opn in ("Eq", "NotEq") and d.n.t:
                    return opn == "NotEq"
                raise Undecided(f"comparison {d} {opn} 0 on constant data")
            from .absval import Closure
            old = CTX.atoms
            CTX.atoms = generic_k
            try:
                out = it.call(Closure(fi.node, {}, fi.mod, fi.qn), args, {})
            except Raised as e:
                problems.append(f"n={size}: raises {e}")
                continue
            except Undecided as e:
                if size in ("1 among NaN", "all NaN") and "None" in str(e):
                    # a missing value took part in the estimator's arithmetic: it was not stripped first
                    problems.append(f"{size}: a NaN reaches the estimator body ({e})")
                    continue
                if "comparison" not in str(e):
                    raise AnalysisError(f"C19-D5: cannot evaluate {name} on constant data (n={size}): {e}")
                # the body orders a polynomial in k against 0: generic k cannot decide that, so the estimator is re-interpreted with
                # the comparison decided at two representative constants of either sign (k = 7, k = -7); a wrong answer there is a
                # concrete counterexample (constant data at that value), and agreement at both is what is claimed for this estimator
                from .abstools import atoms_at, eval_term
                failed = False
                for kv in (7, -7):
                    W.reset()
                    CTX.atoms = atoms_at({"k": kv})
                    try:
                        o2 = Interp(prog, const_model()).call(Closure(fi.node, {}, fi.mod, fi.qn), args, {})
                    except Raised as e2:
                        problems.append(f"n={size}, every value {kv}: raises {e2}")
                        failed = True
                        continue
                    except Undecided as e2:
                        raise AnalysisError(f"C19-D5: cannot evaluate {name} on constant data (n={size}, k={kv}): {e2}")
                    if size in ("empty", "all NaN"):
                        if not (o2 is None or o2 is NAN):
                            problems.append(f"{size}: returns {o2!r}, expected NaN (no data)")
                            failed = True
                        continue
                    want2 = kv if name in LOCATION else 0
                    got2 = None if (o2 is None or o2 is NAN) else eval_term(T(o2), {"k": kv})
                    if got2 is None or got2 != want2:
                        problems.append(f"n={size}, every value {kv}: returns {got2!r}, expected {want2}")
                        failed = True
                continue
            finally:
                CTX.atoms = old
            if size in ("empty", "all NaN"):
                if not (out is None or out is NAN):
                    problems.append(f"{size}: returns {out!r}, expected NaN (no data)")
                continue
            want = k if name in LOCATION else 0
            if out is None or out is NAN or not same(out, want):
                problems.append(f"n={size}: returns {out!r}, expected {'the common value k' if name in LOCATION else '0'}")
        n += 1
        chk.decide(not problems, "constant-data", f"{name}: {'k' if name in LOCATION else '0'} on constant data (n = 3, 2, 1, one value among NaN); NaN for no data", f"{fi.qn}::constant data", fi.loc(),
                   "; ".join(problems), witness=dict(example=f"{name}([5, 5, 5])"), cells=6)
    chk.floor("estimators evaluated on constant data", n, floor)


def check(chk, prog, LOCATION, SCALE):
    check_typing(chk, prog, LOCATION, SCALE)
    check_constant(chk, prog, LOCATION, SCALE)
    check_weighted_median(chk, prog)


# ---------------------------------------------------------------------------------------------- weighted median: defining inequalities, small scope
def check_weighted_median(chk, prog):
    """weighted_median interpreted, through its decorator, on n <= 4 symbolic distinct values (order fixed by a representative point,
    fed in sorted and in reversed order) with every weight vector over {1, 2, 3}: the result m must satisfy
    weight(values < m) <= W/2 and weight(values > m) <= W/2, lie in the data range, and equal the ordinary median for equal weights."""
    import itertools
    from .abstools import atoms_at, eval_term
    from .absval import Closure
    chk.rule("weighted-median-definition", "for all weight vectors over {1,2,3}^n, n <= 4, and symbolic ordered values: the half-weight inequalities hold and equal "
             "weights give the ordinary median (exact evaluation; the order of the symbolic values is the only thing assumed)")
    fi = prog.fn(f"{DESC}.weighted_median")
    bad, cells = [], 0
    for n in (1, 2, 3, 4):
        for wts in itertools.product((1, 2, 3), repeat=n):
            for rev in (False, True):
                W.reset()
                syms = [Term.sym(f"a{i}") for i in range(n)]
                point = {f"a{i}": 10 * i for i in range(n)}
                order = list(range(n))[::-1] if rev else list(range(n))
                it = Interp(prog, const_model())
                old = CTX.atoms
                CTX.atoms = atoms_at(point)
                try:
                    out = it.call(Closure(fi.node, {}, fi.mod, fi.qn), [Arr([syms[i] for i in order]), Arr([wts[i] for i in order])], {})
                except Raised as e:
                    bad.append(f"weights {wts}: raises {e}")
                    continue
                except Undecided as e:
                    raise AnalysisError(f"C19: cannot evaluate weighted_median(weights={wts}): {e}")
                finally:
                    CTX.atoms = old
                cells += 1
                m = eval_term(T(out), point)
                tot = sum(wts)
                below = sum(w for i, w in enumerate(wts) if 10 * i < m)
                above = sum(w for i, w in enumerate(wts) if 10 * i > m)
                if not (2 * below <= tot and 2 * above <= tot and 0 <= m <= 10 * (n - 1)):
                    bad.append(f"weights {wts}: m = {out!r} leaves weight {below} below / {above} above of {tot}")
                if len(set(wts)) == 1:
                    want = syms[n // 2] if n % 2 else t_div(t_add(syms[n // 2 - 1], syms[n // 2]), Term.const(2))
                    if not same(out, want):
                        bad.append(f"equal weights {wts}: m = {out!r}, ordinary median = {want!r}")
    chk.decide(not bad, "weighted-median-definition", f"weighted_median: half-weight inequalities and equal-weight median on {cells} symbolic cases", f"{fi.qn}::definition", fi.loc(),
               "; ".join(bad[:4]) + (f" (+{len(bad) - 4} more)" if len(bad) > 4 else ""), witness=dict(failures=bad[:8]), cells=max(cells, 1))
