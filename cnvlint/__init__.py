"""cnvlint -- repository-specific static analysis deciding the cnvkit properties (see /verif/DESIGN.md)."""
