"""Command line:  python -m cnvlint check <ID> [--tier quick|thorough] [--repo PATH]
                  python -m cnvlint all [--tier ...]
                  python -m cnvlint selftest [<ID> ...] [-j N]
                  python -m cnvlint explain <replay.json>"""
import argparse
import importlib
import io
import json
import os
import sys
if hasattr(sys, "set_int_max_str_digits"):
    sys.set_int_max_str_digits(0)          # exact rational evaluation of iterated estimators produces very long integers
import traceback
import contextlib

from .core import Program, AnalysisError
from .report import Check

CLAIMED = ["C01", "C02", "C03", "C04", "C05", "C06", "C07", "C08", "C09", "C10",
           "C12", "C13", "C14", "C15", "C16", "C17", "C18", "C19", "C20"]


def run_check(pid, tier="quick", root=None, quiet=False, write=True):
    """Run one property's check in-process.  Returns (exit_code, Check|None, error_text)."""
    try:
        mod = importlib.import_module(f"cnvlint.props.{pid}")
        prog = Program(root)
        chk = Check(pid, tier, prog, quiet=quiet)
        try:
            mod.run(chk)
        except AnalysisError as e:
            # a later obligation could not be decided: definite violations found before it are still reported (exit 1);
            # without any, the run is an analysis error (exit 2)
            if not chk.violations:
                raise
            chk.note(f"analysis incomplete after the violation(s) above: {e}")
        deferred = getattr(chk, "deferred", [])
        if deferred:
            if not chk.violations:
                raise AnalysisError(deferred[0] + (f" [+{len(deferred) - 1} more undecided obligation(s)]" if len(deferred) > 1 else ""))
            for d in deferred:
                chk.note(f"undecided obligation (a definite violation was found elsewhere): {d}")
        if write:
            if tier == "thorough" and os.environ.get("CNVLINT_NO_SELFTEST") != "1":
                from . import mutate
                st = mutate.run_for(pid, root=prog.root)
                chk.selftest = st
                print(f"SELFTEST {pid}: {st.get('mutants', 0)} mutants {st.get('by_status', {})}")
                for pb in st.get("problems", []):
                    print(f"SELFTEST {pid} {pb['status']:16} {pb['mutant']}  {pb['detail']}")
            code = chk.finish(level_text=getattr(mod, "LEVEL_TEXT", ""))
        else:
            from .report import load_known
            open_keys = {k["key"] for k in load_known() if k.get("property") == pid and k.get("status") == "open"}
            code = 1 if any(v["key"] not in open_keys for v in chk.violations) else 0
        return code, chk, ""
    except AnalysisError as e:
        return 2, None, f"ANALYSIS-ERROR property={pid} {e}"
    except Exception as e:  # a crash of the analyser is never a verdict
        tb = traceback.format_exc()
        return 2, None, f"ANALYSIS-ERROR property={pid} internal error {type(e).__name__}: {e}\n{tb}"


def main(argv=None):
    ap = argparse.ArgumentParser(prog="cnvlint")
    sub = ap.add_subparsers(dest="cmd", required=True)
    c = sub.add_parser("check")
    c.add_argument("pid")
    c.add_argument("--tier", default=os.environ.get("VERIF_TIER", "quick"), choices=["quick", "thorough"])
    c.add_argument("--repo", default=None)
    c.add_argument("--nowrite", action="store_true", help="do not write evidence / replay files (used when trying a scratch change)")
    a = sub.add_parser("all")
    a.add_argument("--tier", default="quick", choices=["quick", "thorough"])
    a.add_argument("--repo", default=None)
    s = sub.add_parser("selftest")
    s.add_argument("pids", nargs="*")
    s.add_argument("-j", type=int, default=16)
    s.add_argument("--repo", default=None)
    s.add_argument("-v", action="store_true")
    e = sub.add_parser("explain")
    e.add_argument("path")
    args = ap.parse_args(argv)

    if args.cmd == "check":
        code, chk, err = run_check(args.pid, args.tier, args.repo, write=not args.nowrite)
        if err:
            print(err)
        if args.nowrite and chk is not None:
            for v in chk.violations:
                print(f"VIOLATION property={args.pid} replay=- (nowrite)")
                print(f"   {v['where']} [{v['rule']}] {v['construct']}: {v['msg'][:300]}")
        return code
    if args.cmd == "all":
        worst = 0
        for pid in CLAIMED:
            if not os.path.exists(os.path.join(os.path.dirname(__file__), "props", pid + ".py")):
                continue
            code, chk, err = run_check(pid, args.tier, args.repo)
            if err:
                print(err)
            worst = max(worst, code)
        return worst
    if args.cmd == "selftest":
        from . import mutate
        return mutate.main(args.pids or CLAIMED, jobs=args.j, root=args.repo, verbose=args.v)
    if args.cmd == "explain":
        with open(args.path) as fh:
            v = json.load(fh)
        print(json.dumps(v, indent=2))
        print(f"\nTo re-decide on the current tree: /venv/bin/python -m cnvlint check {v['property']} --tier {v.get('tier', 'quick')}")
        return 0
    return 2
