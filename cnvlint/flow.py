"""Small def-use / reaching-definition helpers on structured code, shared by the protocol and pandas-discipline rules."""
import ast

from .core import own_nodes, parents, stmt_of, dominates, norm, block_path


def assignments(fnode, name):
    """[(stmt, value expr | None)] of every binding of `name` in the function body (Assign / AugAssign / AnnAssign /
    For targets / with-as / tuple unpacking give value None when the bound value is not a single expression)."""
    out = []
    for n in own_nodes(fnode):
        if isinstance(n, ast.Assign):
            for t in n.targets:
                if isinstance(t, ast.Name) and t.id == name:
                    out.append((n, n.value))
                elif isinstance(t, (ast.Tuple, ast.List)):
                    for i, el in enumerate(t.elts):
                        if isinstance(el, ast.Name) and el.id == name:
                            v = n.value.elts[i] if isinstance(n.value, (ast.Tuple, ast.List)) and len(n.value.elts) == len(t.elts) else None
                            out.append((n, v))
        elif isinstance(n, ast.AnnAssign) and isinstance(n.target, ast.Name) and n.target.id == name and n.value is not None:
            out.append((n, n.value))
        elif isinstance(n, ast.AugAssign) and isinstance(n.target, ast.Name) and n.target.id == name:
            out.append((n, None))
        elif isinstance(n, (ast.For, ast.comprehension)):
            if any(isinstance(x, ast.Name) and x.id == name for x in ast.walk(n.target)):
                out.append((n if isinstance(n, ast.For) else None, None))
        elif isinstance(n, ast.With):
            for it in n.items:
                if it.optional_vars is not None and any(isinstance(x, ast.Name) and x.id == name for x in ast.walk(it.optional_vars)):
                    out.append((n, None))
        elif isinstance(n, ast.NamedExpr) and isinstance(n.target, ast.Name) and n.target.id == name:
            out.append((None, n.value))
    return out


def _pos(n):
    return (getattr(n, "lineno", 0), getattr(n, "col_offset", 0))


def reaching_values(fi, name, use_node, par=None):
    """Value expressions that may reach the use of `name` at `use_node`:  the closest dominating assignment plus every
    non-dominating assignment located between it and the use; "param" when the entry value may reach.
    Returns a list of ast expressions / the strings "param" / "unknown"."""
    par = par or parents(fi.node)
    use_st = stmt_of(use_node, par)
    defs = [(st, v) for st, v in assignments(fi.node, name)]
    before = [(st, v) for st, v in defs if st is not None and _pos(st) < _pos(use_st) and st is not use_st]
    # a definition in the same statement (x = f(x)) does not reach its own right-hand side
    dom = [(st, v) for st, v in before if dominates(st, use_st, par)]
    out = []
    last = max(dom, key=lambda d: _pos(d[0])) if dom else None
    floor_pos = _pos(last[0]) if last else (-1, -1)
    if last is not None:
        out.append(last[1] if last[1] is not None else "unknown")
    elif name in fi.params:
        out.append("param")
    else:
        out.append("unknown") if not before else None
    for st, v in before:
        if last is not None and st is last[0]:
            continue
        if _pos(st) > floor_pos and not dominates(st, use_st, par):
            # may or may not execute before the use (conditional): only counts if the use is not in a sibling branch
            if _same_branch_possible(st, use_st, par):
                out.append(v if v is not None else "unknown")
    # loop-carried definitions located after the use inside an enclosing loop
    for st, v in defs:
        if st is not None and _pos(st) > _pos(use_st) and _common_loop(st, use_st, par):
            out.append(v if v is not None else "unknown")
    if any(st is None for st, _ in defs):
        pass
    return [o for o in out if o is not None]


def _same_branch_possible(a, b, par):
    """False when a and b sit in different arms (body / orelse) of the same If -- then a cannot precede b on any path"""
    pa, pb = block_path(a, par), block_path(b, par)
    for (oa, fa, ia), (ob, fb, ib) in zip(pa, pb):
        if oa is ob and isinstance(oa, ast.If) and fa != fb:
            return False
        if oa is not ob or fa != fb or ia != ib:
            break
    return True


def _common_loop(a, b, par):
    la = {id(o) for o, f, i in block_path(a, par) if isinstance(o, (ast.For, ast.While)) and f == "body"}
    lb = {id(o) for o, f, i in block_path(b, par) if isinstance(o, (ast.For, ast.While)) and f == "body"}
    return bool(la & lb)


def derives_from_call(fi, expr, pred, par=None, depth=0):
    """Does every value reaching `expr` come out of a call satisfying `pred(call)` (looking through local names,
    `.data` attribute access on such a result, and parenthesised/method chains handled by pred itself)?"""
    par = par or parents(fi.node)
    if depth > 6:
        return False
    if isinstance(expr, ast.Call):
        return bool(pred(expr))
    if isinstance(expr, ast.Attribute) and expr.attr in ("data",):
        return derives_from_call(fi, expr.value, pred, par, depth + 1)
    if isinstance(expr, ast.Name):
        vals = reaching_values(fi, expr.id, expr, par)
        if not vals:
            return False
        for v in vals:
            if isinstance(v, str):
                return False
            if not derives_from_call(fi, v, pred, par, depth + 1):
                return False
        return True
    if isinstance(expr, ast.IfExp):
        return derives_from_call(fi, expr.body, pred, par, depth + 1) and derives_from_call(fi, expr.orelse, pred, par, depth + 1)
    return False


def calls_in(fi, pred):
    return [n for n in own_nodes(fi.node) if isinstance(n, ast.Call) and pred(n)]


def arg_of(call, cand, pname):
    """the expression bound to parameter `pname` of resolved callee `cand` at `call` (None when defaulted)"""
    ps = list(cand.posparams)
    off = 1 if (cand.is_method and isinstance(call.func, ast.Attribute) and ps and ps[0] in ("self", "cls")) else 0
    if cand.name == "__init__" and isinstance(call.func, ast.Name):
        off = 1
    if pname in ("self", "cls") and off and isinstance(call.func, ast.Attribute):
        return call.func.value
    for i, a in enumerate(call.args):
        if isinstance(a, ast.Starred):
            return None
        if i + off < len(ps) and ps[i + off] == pname:
            return a
    for k in call.keywords:
        if k.arg == pname:
            return k.value
    return None


def callers(prog, res, target):
    out = []
    for fi in prog.functions.values():
        for n in own_nodes(fi.node):
            if isinstance(n, ast.Call) and target in res.resolve_call(n, fi):
                out.append((fi, n))
    return out
