"""cnvlint core: load the repository's sources from the working tree, resolve
imports / classes / functions, and provide the structural helpers every rule
uses (parents, structured dominance, normalised text).  stdlib only."""
import ast
import glob
import os
import hashlib


class AnalysisError(Exception):
    """The analyser cannot decide (vanished anchor, unsupported construct).
    Exit code 2 -- never a silent pass, never a VIOLATION."""


def repo_root():
    return os.environ.get("CNVLINT_REPO", "/repo")


PACKAGES = ("cnvlib", "skgenome")


class FuncInfo:
    __slots__ = ("qn", "name", "node", "cls", "mod", "path", "parent", "params", "posparams", "decorators")

    def __init__(self, qn, node, cls, mod, path, parent):
        self.qn, self.name, self.node, self.cls, self.mod, self.path, self.parent = qn, node.name, node, cls, mod, path, parent
        a = node.args
        self.posparams = [x.arg for x in a.posonlyargs + a.args]
        self.params = (self.posparams + ([a.vararg.arg] if a.vararg else []) + [x.arg for x in a.kwonlyargs]
                       + ([a.kwarg.arg] if a.kwarg else []))
        self.decorators = [ast.unparse(d) for d in node.decorator_list]

    @property
    def is_method(self):
        return self.cls is not None and "staticmethod" not in self.decorators

    @property
    def is_property(self):
        return any(d == "property" or d.endswith(".setter") and False for d in self.decorators)

    def loc(self, node=None):
        return f"{self.path}:{(node or self.node).lineno}"

    def __repr__(self):
        return f"<fn {self.qn}>"


class ModuleInfo:
    def __init__(self, name, path, src):
        self.name, self.path, self.src = name, path, src
        self.tree = ast.parse(src, filename=path)
        self.is_pkg = path.endswith("__init__.py")
        self.imports = {}        # alias -> ("mod", dotted) | ("obj", dotted_module, name)
        self.functions = {}      # top-level name -> FuncInfo
        self.classes = {}        # name -> ClassInfo
        self.assigns = {}        # top-level NAME -> value expr (last assignment)


class ClassInfo:
    def __init__(self, name, node, mod):
        self.name, self.node, self.mod = name, node, mod
        self.bases = [b.id if isinstance(b, ast.Name) else getattr(b, "attr", None) for b in node.bases]
        self.methods = {}        # name -> FuncInfo (getter for properties)
        self.setters = {}        # name -> FuncInfo


class Program:
    def __init__(self, root=None, extra_dirs=("scripts",), sources=None):
        """`sources`: optional {relative path: source text} used instead of the file system
        (embedded positive examples of zero-expected rules)."""
        self.root = root or repo_root()
        self.modules = {}
        self.functions = {}      # qualname -> FuncInfo
        self.by_name = {}        # bare name -> [FuncInfo]
        self.classes = {}        # class name -> ClassInfo
        self.files = []
        self._virtual = sources is not None
        if sources is not None:
            self.root = "<embedded>"
            items = sorted(sources.items())
            extra_dirs = ()
        else:
            paths = []
            for pkg in PACKAGES:
                paths += sorted(glob.glob(os.path.join(self.root, pkg, "**", "*.py"), recursive=True))
            if not paths:
                raise AnalysisError(f"no sources found under {self.root}")
            items = []
            for p in paths:
                with open(p, encoding="utf-8") as fh:
                    items.append((os.path.relpath(p, self.root), fh.read()))
        for rel, src in items:
            name = rel[:-3].replace(os.sep, ".")
            if name.endswith(".__init__"):
                name = name[:-9]
            try:
                m = ModuleInfo(name, rel, src)
            except SyntaxError as e:
                raise AnalysisError(f"cannot parse {rel}: {e}")
            self.modules[name] = m
            self.files.append(rel)
        self.scripts = {}
        for d in extra_dirs:
            for p in sorted(glob.glob(os.path.join(self.root, d, "*.py"))):
                rel = os.path.relpath(p, self.root)
                try:
                    with open(p, encoding="utf-8") as fh:
                        self.scripts[rel] = ast.parse(fh.read(), filename=p)
                except SyntaxError:
                    pass
        for m in self.modules.values():
            self._index(m)

    # ------------------------------------------------------------------ indexing
    def _resolve_from(self, m, level, module):
        if level == 0:
            return module
        base = m.name.split(".")
        if not m.is_pkg:
            base = base[:-1]
        if level > 1:
            base = base[: len(base) - (level - 1)]
        return ".".join(base + ([module] if module else []))

    def _index(self, m):
        for n in ast.walk(m.tree):
            if isinstance(n, ast.Import):
                for a in n.names:
                    m.imports.setdefault(a.asname or a.name.split(".")[0], ("mod", a.name if a.asname else a.name.split(".")[0]))
            elif isinstance(n, ast.ImportFrom):
                src = self._resolve_from(m, n.level, n.module)
                for a in n.names:
                    alias = a.asname or a.name
                    full = f"{src}.{a.name}" if src else a.name
                    if full in self.modules or self._is_module_path(full):
                        m.imports.setdefault(alias, ("mod", full))
                    else:
                        m.imports.setdefault(alias, ("obj", src, a.name))

        def visit(body, prefix, cls, parent):
            for n in body:
                if isinstance(n, (ast.FunctionDef, ast.AsyncFunctionDef)):
                    qn = f"{prefix}.{n.name}"
                    fi = FuncInfo(qn, n, cls, m.name, m.path, parent)
                    is_setter = any(d.endswith(".setter") for d in fi.decorators)
                    if is_setter:
                        qn = qn + ".setter"
                        fi.qn = qn
                    self.functions[qn] = fi
                    self.by_name.setdefault(n.name, []).append(fi)
                    if cls is not None and parent is None:
                        ci = m.classes[cls]
                        (ci.setters if is_setter else ci.methods)[n.name] = fi
                    elif cls is None and parent is None:
                        m.functions[n.name] = fi
                    visit(n.body, qn, None, fi)
                elif isinstance(n, ast.ClassDef) and parent is None and cls is None:
                    ci = ClassInfo(n.name, n, m.name)
                    m.classes[n.name] = ci
                    self.classes[n.name] = ci
                    visit(n.body, f"{prefix}.{n.name}", n.name, None)
                elif isinstance(n, (ast.If, ast.Try, ast.With)) and parent is None:
                    for fld in ("body", "orelse", "finalbody"):
                        visit(getattr(n, fld, []) or [], prefix, cls, parent)
                    for h in getattr(n, "handlers", []) or []:
                        visit(h.body, prefix, cls, parent)
                elif isinstance(n, (ast.If, ast.For, ast.While, ast.With, ast.Try)):
                    for fld in ("body", "orelse", "finalbody"):
                        visit(getattr(n, fld, []) or [], prefix, cls, parent)
                    for h in getattr(n, "handlers", []) or []:
                        visit(h.body, prefix, cls, parent)

        visit(m.tree.body, m.name, None, None)
        for n in m.tree.body:
            if isinstance(n, ast.Assign) and len(n.targets) == 1 and isinstance(n.targets[0], ast.Name):
                m.assigns[n.targets[0].id] = n.value
            elif isinstance(n, ast.AnnAssign) and isinstance(n.target, ast.Name) and n.value is not None:
                m.assigns[n.target.id] = n.value

    def _is_module_path(self, dotted):
        if self._virtual:
            return dotted in self.modules
        p = os.path.join(self.root, *dotted.split("."))
        return os.path.isfile(p + ".py") or os.path.isfile(os.path.join(p, "__init__.py"))

    # ------------------------------------------------------------------ lookup
    def fn(self, qn):
        f = self.maybe_fn(qn)
        if f is None:
            raise AnalysisError(f"anchor vanished: function {qn}")
        return f

    def maybe_fn(self, qn):
        f = self.functions.get(qn)
        if f is None and "." in qn:
            # `module.name` still denotes the function for every user of the module when the module imports the name from where it was moved to
            mod, name = qn.rsplit(".", 1)
            if mod in self.modules:
                r = self.resolve_name(mod, name)
                if r and r[0] == "func":
                    return r[1]
        return f

    def module(self, name):
        m = self.modules.get(name)
        if m is None:
            raise AnalysisError(f"anchor vanished: module {name}")
        return m

    def mro(self, clsname):
        out = []
        seen = set()
        work = [clsname]
        while work:
            c = work.pop(0)
            if c in seen or c not in self.classes:
                continue
            seen.add(c)
            out.append(c)
            work += [b for b in self.classes[c].bases if b]
        return out

    def find_method(self, clsname, name, setter=False):
        for c in self.mro(clsname):
            ci = self.classes[c]
            d = ci.setters if setter else ci.methods
            if name in d:
                return d[name]
        return None

    def subclasses(self, clsname):
        return [c for c in self.classes if clsname in self.mro(c)]

    def resolve_name(self, modname, name, _depth=0):
        """What does bare `name` denote inside module `modname`?  Returns
        ("func", FuncInfo) | ("class", ClassInfo) | ("mod", dotted) | ("ext", dotted) |
        ("const", expr, modname) | None"""
        m = self.modules.get(modname)
        if m is None or _depth > 6:
            return None
        if name in m.functions:
            return ("func", m.functions[name])
        if name in m.classes:
            return ("class", m.classes[name])
        if name in m.assigns:
            return ("const", m.assigns[name], modname)
        if name in m.imports:
            imp = m.imports[name]
            if imp[0] == "mod":
                return ("mod", imp[1]) if imp[1] in self.modules else ("ext", imp[1])
            _, src, obj = imp
            if src in self.modules:
                r = self.resolve_name(src, obj, _depth + 1)
                return r
            return ("ext", f"{src}.{obj}")
        # star imports (cnvlib/__init__: from .commands import *): not needed
        return None

    def has_star_import(self, modname, name=None):
        """True when `name` could be bound in the module by something resolve_name does not see: a star import, or any
        binding construct anywhere in the module's text (conservative: function-local bindings count as well)"""
        m = self.modules.get(modname)
        if m is None:
            return True
        cache = getattr(m, "_bound_names", None)
        if cache is None:
            cache = set()
            star = False
            for n in ast.walk(m.tree):
                if isinstance(n, ast.Name) and isinstance(n.ctx, (ast.Store, ast.Del)):
                    cache.add(n.id)
                elif isinstance(n, (ast.FunctionDef, ast.AsyncFunctionDef, ast.ClassDef)):
                    cache.add(n.name)
                elif isinstance(n, (ast.Import, ast.ImportFrom)):
                    for a in n.names:
                        if a.name == "*":
                            star = True
                        cache.add((a.asname or a.name).split(".")[0])
                elif isinstance(n, ast.ExceptHandler) and n.name:
                    cache.add(n.name)
                elif isinstance(n, ast.arg):
                    cache.add(n.arg)
                elif isinstance(n, ast.Global):
                    cache.update(n.names)
            if star:
                cache.add("*")
            m._bound_names = cache
        return "*" in cache or (name is not None and name in cache)

    def resolve_attr(self, modname, expr):
        """Resolve `a.b.c` where `a` is a module alias; same return convention."""
        if isinstance(expr, ast.Name):
            return self.resolve_name(modname, expr.id)
        if isinstance(expr, ast.Attribute):
            base = self.resolve_attr(modname, expr.value)
            if base is None:
                return None
            if base[0] == "mod":
                sub = f"{base[1]}.{expr.attr}"
                if sub in self.modules:
                    return ("mod", sub)
                return self.resolve_name(base[1], expr.attr)
            if base[0] == "ext":
                return ("ext", f"{base[1]}.{expr.attr}")
            if base[0] == "class":
                f = self.find_method(base[1].name, expr.attr)
                return ("func", f) if f else None
        return None

    def digest(self):
        h = hashlib.sha256()
        for name in sorted(self.modules):
            h.update(name.encode())
            h.update(self.modules[name].src.encode())
        return h.hexdigest()[:16]

    def stats(self):
        ncalls = sum(1 for m in self.modules.values() for n in ast.walk(m.tree) if isinstance(n, ast.Call))
        return {"root": self.root, "files": len(self.files), "functions": len(self.functions), "call_sites": ncalls,
                "source_digest": self.digest()}


# ---------------------------------------------------------------------- AST helpers
def parents(root):
    p = {}
    for n in ast.walk(root):
        for c in ast.iter_child_nodes(n):
            p[c] = n
    return p


def own_nodes(fnode, include_lambdas=True):
    """ast.walk restricted to the function's own body (not nested defs/classes)."""
    stack = list(ast.iter_child_nodes(fnode))
    while stack:
        n = stack.pop()
        if isinstance(n, (ast.FunctionDef, ast.AsyncFunctionDef, ast.ClassDef)):
            continue
        if isinstance(n, ast.Lambda) and not include_lambdas:
            continue
        yield n
        stack.extend(ast.iter_child_nodes(n))


def norm(node):
    """Normalised source text of a node (used in finding keys; no line numbers)."""
    try:
        s = ast.unparse(node)
    except Exception:
        s = type(node).__name__
    return " ".join(s.split())


def stmt_of(node, par):
    while not isinstance(node, ast.stmt):
        node = par[node]
    return node


BLOCK_FIELDS = ("body", "orelse", "finalbody")


def block_path(node, par):
    """[(owner, field, index)] from the function body down to the statement `node`."""
    path = []
    cur = node
    while cur in par:
        up = par[cur]
        if isinstance(up, ast.ExceptHandler):
            blk = up.body
            if cur in blk:
                path.append((up, "body", blk.index(cur)))
        else:
            for field in BLOCK_FIELDS:
                blk = getattr(up, field, None)
                if isinstance(blk, list) and cur in blk:
                    path.append((up, field, blk.index(cur)))
                    break
            else:
                if isinstance(up, ast.Try) and cur in up.handlers:
                    path.append((up, "handlers", up.handlers.index(cur)))
        cur = up
    return path[::-1]


def _may_fall_through(stmts):
    """Can control leave this statement list normally (no return/raise/continue/break at the end)?"""
    for s in stmts:
        if isinstance(s, (ast.Return, ast.Raise, ast.Continue, ast.Break)):
            return False
        if isinstance(s, ast.If) and s.orelse and not _may_fall_through(s.body) and not _may_fall_through(s.orelse):
            return False
    return True


def dominates(a, b, par):
    """Statement `a` dominates statement `b` in structured code: `a` sits earlier in a
    block that (transitively) encloses `b`.  Loops: a statement in a loop body that
    precedes `b` in the same body dominates it.  try/except bodies are treated as
    straight-line (an exception leaves the function or reaches a handler, which is
    a different block)."""
    if a is b:
        return True
    pa, pb = block_path(a, par), block_path(b, par)
    if not pa or not pb or len(pa) > len(pb):
        return False
    for (oa, fa, ia), (ob, fb, ib) in zip(pa[:-1], pb[:-1]):
        if oa is not ob or fa != fb or ia != ib:
            return False
    (oa, fa, ia), (ob, fb, ib) = pa[-1], pb[len(pa) - 1]
    if not (oa is ob and fa == fb):
        return False
    if ia < ib:
        return True
    return False


def executes_on_all_paths_before(a, b, par):
    """`a` dominates `b` AND `a` is a plain statement (not itself conditional).  Alias of dominates
    for statements; kept for readability."""
    return dominates(a, b, par)


def guard_raises(ifnode):
    """An `if` whose body unconditionally ends in raise (directly or nested ifs all raising is not required:
    any raise directly in the body's top level)."""
    return isinstance(ifnode, ast.If) and any(isinstance(s, ast.Raise) for s in ifnode.body)


def names_in(e):
    return {n.id for n in ast.walk(e) if isinstance(n, ast.Name)}


def str_consts_in(e):
    return {n.value for n in ast.walk(e) if isinstance(n, ast.Constant) and isinstance(n.value, str)}


def call_name(call):
    """dotted text of a call's function expression"""
    return norm(call.func)


def const_int(e):
    if isinstance(e, ast.Constant) and isinstance(e.value, int) and not isinstance(e.value, bool):
        return e.value
    if isinstance(e, ast.UnaryOp) and isinstance(e.op, ast.USub):
        v = const_int(e.operand)
        return -v if v is not None else None
    return None
