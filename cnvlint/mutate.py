"""Self-validation of the checker: breaker mutants must fire (and name the construct), behaviour-preserving
twins must stay silent.  Mutants are textual edits of the *current* sources applied to a scratch copy (under
$TMPDIR, removed at once).  A mutant whose anchor text no longer exists is skipped, never an error."""
import concurrent.futures as cf
import importlib
import io
import contextlib
import os
import shutil
import sys
import tempfile
import time

from .core import repo_root, PACKAGES


def _copy_sources(root, dst):
    for pkg in PACKAGES:
        shutil.copytree(os.path.join(root, pkg), os.path.join(dst, pkg), ignore=shutil.ignore_patterns("__pycache__", "*.pyc", "data"))
    if os.path.isdir(os.path.join(root, "scripts")):
        shutil.copytree(os.path.join(root, "scripts"), os.path.join(dst, "scripts"), ignore=shutil.ignore_patterns("__pycache__"))


def baseline_keys(job):
    pid, root = job
    from .cli import run_check
    buf = io.StringIO()
    with contextlib.redirect_stdout(buf):
        code, chk, err = run_check(pid, "quick", root=root, quiet=True, write=False)
    if code == 2:
        return pid, None
    return pid, sorted({v["key"] for v in chk.violations})


def run_mutant(job):
    pid, m, root, base = job
    name = m["name"]
    edits = m["edits"] if "edits" in m else ([(m["file"], m["old"], m["new"])] if "file" in m else [])
    tmp = tempfile.mkdtemp(prefix="cnvlint-mut-")
    try:
        _copy_sources(root, tmp)
        if "patch" in m:
            import subprocess
            r = subprocess.run(["git", "apply", "--whitespace=nowarn", m["patch"]], cwd=tmp, capture_output=True, text=True)
            if r.returncode != 0:
                return (pid, name, "skipped", "seeded patch no longer applies: " + r.stderr.strip()[:120])
            edits = []
        for ed in edits:
            rel, old, new = ed[:3]
            replace_all = len(ed) > 3 and ed[3]
            path = os.path.join(tmp, rel)
            try:
                with open(path) as fh:
                    src = fh.read()
            except FileNotFoundError:
                return (pid, name, "skipped", "file vanished")
            if src.count(old) < 1:
                return (pid, name, "skipped", f"anchor text not found in {rel}")
            src = src.replace(old, new) if replace_all else src.replace(old, new, 1)
            try:
                compile(src, path, "exec")
            except SyntaxError as e:
                return (pid, name, "error", f"mutant does not compile: {e}")
            with open(path, "w") as fh:
                fh.write(src)
        from .cli import run_check
        buf = io.StringIO()
        with contextlib.redirect_stdout(buf):
            code, chk, err = run_check(pid, "quick", root=tmp, quiet=True, write=False)
        expect = m.get("expect", "fire")
        if code == 2:
            return (pid, name, "undecided" if expect == "fire" else "twin-undecided", err.splitlines()[0][:200] if err else "")
        from .report import load_known
        open_keys = {k["key"] for k in load_known() if k.get("property") == pid and k.get("status") == "open"}
        new = [v for v in chk.violations if v["key"] not in open_keys and v["key"] not in base]
        if expect == "fire":
            if not new:
                return (pid, name, "MISSED", "no violation reported")
            want = m.get("mention")
            text = " | ".join(f"{v['key']} {v['msg']} {v['where']}" for v in new)
            if want and want not in text:
                return (pid, name, "WRONG-CONSTRUCT", f"reported {text[:200]} but not `{want}`")
            return (pid, name, "killed", new[0]["key"][:120])
        else:
            if new:
                return (pid, name, "FALSE-ALARM", " | ".join(v["key"] for v in new)[:200])
            return (pid, name, "silent", "")
    except Exception as e:  # noqa
        import traceback
        return (pid, name, "error", f"{type(e).__name__}: {e} {traceback.format_exc()[-300:]}")
    finally:
        shutil.rmtree(tmp, ignore_errors=True)


def collect(pids):
    jobs = []
    for pid in pids:
        try:
            mod = importlib.import_module(f"cnvlint.props.{pid}")
        except ModuleNotFoundError:
            continue
        for m in getattr(mod, "MUTANTS", []):
            jobs.append((pid, m))
        jobs += [(pid, m) for m in seeded_mutants(pid)]
        jobs += [(pid, m) for m in refactor_mutants(pid)]
    return jobs


def refactor_mutants(pid):
    """behaviour-preserving refactorings written by sub-agents for this property (kept under /verif/refactors, each confirmed by an equivalence program
    and the unchanged test suite): the property's check must stay silent on every one of them"""
    base = os.path.join(os.path.dirname(os.path.dirname(os.path.abspath(__file__))), "refactors")
    out = []
    if not os.path.isdir(base):
        return out
    for sid in sorted(os.listdir(base)):
        if sid.startswith(pid) and os.path.exists(os.path.join(base, sid, "patch.diff")):
            out.append(dict(name=f"twin: refactoring {sid} (independent sub-agent, behaviour-preserving)", expect="silent", patch=os.path.join(base, sid, "patch.diff")))
    return out


def seeded_mutants(pid):
    """the independently seeded changes kept under /verif/seeded (written by sub-agents that saw only the property text): each one
    recorded as detected by this property's check must keep being detected"""
    import json
    base = os.path.join(os.path.dirname(os.path.dirname(os.path.abspath(__file__))), "seeded")
    try:
        with open(os.path.join(base, "RESULTS.json")) as fh:
            res = json.load(fh)
    except FileNotFoundError:
        return []
    out = []
    for sid, r in sorted(res.items()):
        if pid in r.get("detected_by", []) and os.path.exists(os.path.join(base, sid, "patch.diff")):
            out.append(dict(name=f"seeded change {sid} (independent sub-agent)", patch=os.path.join(base, sid, "patch.diff")))
    return out


def main(pids, jobs=16, root=None, verbose=False):
    root = root or repo_root()
    t0 = time.time()
    muts = collect(pids)
    results = []
    with cf.ProcessPoolExecutor(max_workers=jobs, max_tasks_per_child=1) as ex:          # one fresh process per job: no state carried from one scratch tree to the next
        base = dict(ex.map(baseline_keys, [(pid, root) for pid in sorted({p for p, _ in muts})]))
        for pid, keys in base.items():
            if keys is None:
                print(f"SELFTEST {pid} baseline undecided (exit 2) on the current tree")
                base[pid] = []
        work = [(pid, m, root, set(base[pid])) for pid, m in muts]
        for r in ex.map(run_mutant, work):
            results.append(r)
    bad = 0
    counts = {}
    for pid, name, status, detail in results:
        counts[status] = counts.get(status, 0) + 1
        is_bad = status in ("MISSED", "WRONG-CONSTRUCT", "FALSE-ALARM", "error", "undecided", "twin-undecided")
        bad += is_bad
        if verbose or is_bad or status == "skipped":
            print(f"SELFTEST {pid} {status:16} {name}  {detail}")
    print(f"SELFTEST summary: {len(results)} mutants {counts} in {time.time() - t0:.1f}s")
    return 1 if bad else 0


def run_for(pid, root=None, jobs=16):
    """mutation self-validation of one property (thorough tier): returns a summary dict for the evidence file"""
    root = root or repo_root()
    muts = collect([pid])
    if not muts:
        return {"mutants": 0}
    results = []
    with cf.ProcessPoolExecutor(max_workers=jobs, max_tasks_per_child=1) as ex:          # one fresh process per job: no state carried from one scratch tree to the next
        base = dict(ex.map(baseline_keys, [(pid, root)]))
        keys = set(base.get(pid) or [])
        for r in ex.map(run_mutant, [(p, m, root, keys) for p, m in muts]):
            results.append(r)
    counts = {}
    for _, name, status, detail in results:
        counts[status] = counts.get(status, 0) + 1
    bad = [dict(mutant=name, status=status, detail=detail[:160]) for _, name, status, detail in results
           if status in ("MISSED", "WRONG-CONSTRUCT", "FALSE-ALARM", "error", "undecided", "twin-undecided")]
    return {"mutants": len(results), "by_status": counts, "breakers_killed": counts.get("killed", 0), "twins_silent": counts.get("silent", 0),
            "skipped": counts.get("skipped", 0), "problems": bad,
            "note": "each breaker is a one-edit copy of the current sources on which the quick check must report a new violation; twins are behaviour-preserving edits that must stay silent"}
