"""Effect / alias analysis (DESIGN 3.4): which parameters' entry objects may be mutated
(`mut`), which parameters the return value may alias (`ret`), to a fix-point over
the call graph; flow-sensitive local aliasing on structured statements with
kill-on-rebind.  pandas >= 3 semantics: every indexing result is a new object."""
import ast
import collections

from .core import norm, own_nodes

GA_CLASSES = {"GenomicArray", "CopyNumArray", "VariantArray"}
EXTERNAL_ROOTS = {"np", "pd", "logging", "os", "math", "stats", "itertools", "collections", "re", "sys", "scipy",
                  "functools", "pysam", "pyfaidx", "subprocess", "tempfile", "shlex", "time", "warnings", "pyplot", "plt"}
# method names that exist on pandas / numpy / builtin containers as well as on repo classes: only
# treated as a repo method when the repo class defining them is a GA class
AMBIGUOUS = {"copy", "filter", "merge", "add", "concat", "sort", "subtract", "flatten", "update", "get", "items",
             "keys", "values", "index", "count", "join", "split", "read", "write", "close", "map", "apply", "sum", "mean",
             "median", "min", "max", "append", "extend", "remove", "pop", "insert", "clear"}

MUTATORS = {"append", "extend", "remove", "pop", "insert", "clear", "update", "setdefault", "popitem",
            "sort", "reverse", "discard", "fill", "put", "itemset", "setflags", "add_", "appendleft", "popleft"}
# set.add / GA.add: `add` on a GA is handled through the repo method summary; on a set it is a mutation of a local
SET_MUTATORS = {"add"}

FRESH_METHODS = {
    "copy", "deepcopy", "as_dataframe", "as_rows", "as_columns", "as_series", "add_columns", "keep_columns", "drop_extra_columns",
    "assign", "reindex", "reset_index", "set_index", "astype", "drop", "dropna", "fillna", "sort_values", "sort_index",
    "rename", "groupby", "apply", "map", "replace", "clip", "round", "abs", "cumsum", "diff", "tolist", "to_numpy",
    "resize_ranges", "subdivide", "intersection", "in_range", "in_ranges", "concat", "from_rows", "from_columns",
    "drop_low_coverage", "shift_xx", "squash_genes", "filter", "unique", "drop_duplicates", "isin", "isnull", "notnull", "head",
    "take", "sum", "mean", "median", "any", "all", "max", "min", "str", "items", "keys", "values", "get",
    "lower", "upper", "split", "join", "format", "startswith", "endswith", "rstrip", "strip", "count", "index",
    "searchsorted", "argsort", "itertuples", "labels", "coords", "residuals", "smooth_log2", "guess_xx",
    "compare_sex_chromosomes", "expect_flat_log2", "chr_x_filter", "chr_y_filter", "parx_filter", "pary_filter",
    "total_range_size", "_get_gene_map", "into_ranges", "baf_by_ranges", "mirrored_baf", "tumor_boost",
    "zygosity_from_freq", "het_frac_by_ranges", "to_csv", "equals", "rolling", "quantile", "std", "cummax", "corr",
    "where", "mask", "sample", "query", "nlargest", "nsmallest", "transpose", "dot", "cumprod", "shift", "merge_asof",
    "iterrows", "tolist", "to_dict", "to_frame", "squeeze", "flatten_", "ravel_", "encode", "decode", "title",
}


class Reason:
    __slots__ = ("kind", "fn", "param", "where", "construct", "callee", "cparam")

    def __init__(self, kind, fn, param, where, construct, callee=None, cparam=None):
        self.kind, self.fn, self.param, self.where, self.construct, self.callee, self.cparam = kind, fn, param, where, construct, callee, cparam

    def text(self):
        if self.kind == "direct":
            return f"{self.where} {self.construct}"
        return f"{self.where} passes it to {self.callee}({self.cparam})"


class Summary:
    def __init__(self, fi):
        self.fi = fi
        self.mut = set()
        self.ret = set()
        self.ret_tuple = None                        # per-position aliases when every return is a tuple of one length
        self.ret_mixed = False
        self.why = collections.defaultdict(list)     # param -> [Reason]


class Resolver:
    """call-site -> candidate repo callees (may-analysis)"""

    def __init__(self, prog):
        self.prog = prog


class Effects(Resolver):
    def __init__(self, prog):
        self.prog = prog
        self.sum = {qn: Summary(fi) for qn, fi in prog.functions.items()}
        self.rounds = 0
        self._solve()

    # ------------------------------------------------------------------ call resolution
    def resolve_call(self, call, fi):
        """Candidate callees (may-analysis, repo functions only)."""
        prog = self.prog
        f = call.func
        if isinstance(f, ast.Name):
            # nested function of an enclosing function?
            p = fi
            while p is not None:
                cand = prog.functions.get(f"{p.qn}.{f.id}")
                if cand is not None:
                    return [cand]
                p = p.parent
            r = prog.resolve_name(fi.mod, f.id)
            if r and r[0] == "func":
                return [r[1]]
            if r and r[0] == "class":
                init = prog.find_method(r[1].name, "__init__")
                return [init] if init else []
            return []
        if isinstance(f, ast.Attribute):
            root = f
            while isinstance(root, (ast.Attribute, ast.Subscript, ast.Call)):
                root = root.value if not isinstance(root, ast.Call) else root.func
            if isinstance(root, ast.Name):
                r = prog.resolve_attr(fi.mod, f)
                if r and r[0] == "func":
                    return [r[1]]
                rr = prog.resolve_name(fi.mod, root.id)
                if rr and rr[0] in ("ext",):
                    return []
                if rr and rr[0] == "mod" and r is None:
                    return []
                if root.id in EXTERNAL_ROOTS and rr is None:
                    return []
            cands = [x for x in prog.by_name.get(f.attr, []) if x.cls is not None and not any(d.endswith(".setter") for d in x.decorators)]
            if f.attr in AMBIGUOUS:
                cands = [x for x in cands if x.cls in GA_CLASSES]
            # super().method(...)
            if isinstance(f.value, ast.Call) and isinstance(f.value.func, ast.Name) and f.value.func.id == "super" and fi.cls:
                for c in prog.mro(fi.cls)[1:]:
                    m = prog.classes[c].methods.get(f.attr)
                    if m:
                        return [m]
                return []
            return cands
        return []

    # ------------------------------------------------------------------ one function
    def _analyse(self, s):
        fi = s.fi
        node = fi.node
        alias = collections.defaultdict(set)
        for p in fi.params:
            alias[p].add(p)
        a = node.args
        for special in ([a.vararg.arg] if a.vararg else []) + ([a.kwarg.arg] if a.kwarg else []):
            alias[special] = set()
        before = (set(s.mut), set(s.ret), repr(s.ret_tuple))
        s.ret_tuple, s.ret_mixed = None, False
        prog = self.prog
        summ = self.sum
        evidence = _container_evidence(node)

        def expr_alias(e):
            if isinstance(e, ast.Name):
                return set(alias.get(e.id, ()))
            if isinstance(e, ast.Attribute):
                if e.attr in ("data", "meta"):
                    return expr_alias(e.value)
                return set()
            if isinstance(e, ast.IfExp):
                return expr_alias(e.body) | expr_alias(e.orelse)
            if isinstance(e, ast.BoolOp):
                return set().union(*(expr_alias(v) for v in e.values))
            if isinstance(e, ast.NamedExpr):
                return expr_alias(e.value)
            if isinstance(e, (ast.Tuple, ast.List, ast.Dict, ast.Set, ast.ListComp, ast.DictComp, ast.GeneratorExp, ast.SetComp)):
                return set()
            if isinstance(e, ast.Starred):
                return expr_alias(e.value)
            if isinstance(e, ast.Call):
                f = e.func
                out = set()
                cands = self.resolve_call(e, fi)
                if isinstance(f, ast.Attribute) and f.attr in FRESH_METHODS and not cands:
                    return out
                for cand in cands:
                    cs = summ[cand.qn]
                    ps = cand.params
                    off = 1 if (cand.is_method and isinstance(f, ast.Attribute) and ps and ps[0] in ("self", "cls")) else 0
                    if cand.name == "__init__" and isinstance(f, ast.Name):
                        off = 1
                    if off and ps[0] in cs.ret and isinstance(f, ast.Attribute):
                        out |= expr_alias(f.value)
                    for i, a_ in enumerate(e.args):
                        if isinstance(a_, ast.Starred):
                            continue
                        if i + off < len(ps) and ps[i + off] in cs.ret:
                            out |= expr_alias(a_)
                    for k in e.keywords:
                        if k.arg in cs.ret:
                            out |= expr_alias(k.value)
                return out
            return set()

        def tuple_alias(call, n):
            """per-position alias sets of a call returning an n-tuple, or None when unknown"""
            cands = self.resolve_call(call, fi)
            if len(cands) != 1:
                return None
            cand = cands[0]
            cs = summ[cand.qn]
            if cs.ret_tuple is None or len(cs.ret_tuple) != n:
                return None
            f = call.func
            ps = cand.params
            off = 1 if (cand.is_method and isinstance(f, ast.Attribute) and ps and ps[0] in ("self", "cls")) else 0
            out = []
            for pos in cs.ret_tuple:
                al_ = set()
                if off and ps[0] in pos and isinstance(f, ast.Attribute):
                    al_ |= expr_alias(f.value)
                for i, a_ in enumerate(call.args):
                    if not isinstance(a_, ast.Starred) and i + off < len(ps) and ps[i + off] in pos:
                        al_ |= expr_alias(a_)
                for k in call.keywords:
                    if k.arg in pos:
                        al_ |= expr_alias(k.value)
                out.append(al_)
            return out

        def mark(e, construct, n, callee=None, cparam=None):
            for p in expr_alias(e):
                kind = "via" if callee else "direct"
                r = Reason(kind, fi.qn, p, f"{fi.path}:{n.lineno}", construct, callee, cparam)
                if not any(x.kind == r.kind and x.construct == r.construct and x.callee == r.callee and x.cparam == r.cparam for x in s.why[p]):
                    s.why[p].append(r)
                s.mut.add(p)

        def store_base(t):
            if isinstance(t, ast.Subscript):
                v = t.value
                if isinstance(v, ast.Attribute) and v.attr in ("loc", "iloc", "at", "iat"):
                    v = v.value
                return v
            if isinstance(t, ast.Attribute):
                return t.value
            return None

        def scan_expr(e):
            for n in [e] + list(own_nodes(e)):
                if isinstance(n, ast.Call):
                    f = n.func
                    if isinstance(f, ast.Attribute):
                        if f.attr in MUTATORS:
                            mark(f.value, norm(n), n)
                        elif f.attr in SET_MUTATORS and not isinstance(f.value, ast.Call):
                            # x.add(...) on a set mutates; on a GA it is resolved below through the summary
                            pass
                        if any(k.arg == "inplace" and isinstance(k.value, ast.Constant) and k.value.value is True for k in n.keywords):
                            mark(f.value, norm(n), n)
                        if norm(f) in ("np.random.shuffle", "random.shuffle") and n.args:
                            mark(n.args[0], norm(n), n)
                    for cand in self.resolve_call(n, fi):
                        cs = summ[cand.qn]
                        ps = cand.params
                        off = 1 if (cand.is_method and isinstance(f, ast.Attribute) and ps and ps[0] in ("self", "cls")) else 0
                        if cand.name == "__init__" and isinstance(f, ast.Name):
                            off = 1
                        if off and ps[0] in cs.mut and isinstance(f, ast.Attribute):
                            mark(f.value, norm(n), n, cand.qn, ps[0])
                        for i, a_ in enumerate(n.args):
                            if isinstance(a_, ast.Starred):
                                continue
                            if i + off < len(ps) and ps[i + off] in cs.mut:
                                mark(a_, norm(n), n, cand.qn, ps[i + off])
                        for k in n.keywords:
                            if k.arg in cs.mut:
                                mark(k.value, norm(n), n, cand.qn, k.arg)
                elif isinstance(n, ast.Yield) and n.value is not None:
                    if isinstance(n.value, ast.Tuple):
                        for el in n.value.elts:
                            s.ret |= expr_alias(el)
                    else:
                        s.ret |= expr_alias(n.value)
                elif isinstance(n, ast.YieldFrom):
                    s.ret |= expr_alias(n.value)

        def bind(t, al):
            if isinstance(t, ast.Name):
                alias[t.id] = set(al)
            elif isinstance(t, (ast.Tuple, ast.List)):
                for el in t.elts:
                    bind(el, al)
            elif isinstance(t, ast.Starred):
                bind(t.value, al)

        def snapshot():
            return {k: set(v) for k, v in alias.items()}

        def merge_into(other):
            for k, v in other.items():
                alias[k] |= v

        def walk(stmts):
            for st in stmts:
                if isinstance(st, (ast.FunctionDef, ast.AsyncFunctionDef, ast.ClassDef)):
                    continue
                if isinstance(st, ast.Assign):
                    scan_expr(st.value)
                    al = expr_alias(st.value)
                    for t in st.targets:
                        b = store_base(t)
                        if b is not None:
                            scan_expr(t)
                            mark(b, norm(t) + " = ...", st)
                        elif isinstance(t, (ast.Tuple, ast.List)) and isinstance(st.value, ast.Call) and tuple_alias(st.value, len(t.elts)) is not None:
                            for tt, al_i in zip(t.elts, tuple_alias(st.value, len(t.elts))):
                                bb = store_base(tt)
                                if bb is None:
                                    bind(tt, al_i)
                        elif isinstance(t, (ast.Tuple, ast.List)) and isinstance(st.value, (ast.Tuple, ast.List)) and len(t.elts) == len(st.value.elts):
                            for tt, vv in zip(t.elts, st.value.elts):
                                bb = store_base(tt)
                                if bb is not None:
                                    mark(bb, norm(tt) + " = ...", st)
                                else:
                                    bind(tt, expr_alias(vv))
                        else:
                            bind(t, al)
                elif isinstance(st, ast.AugAssign):
                    scan_expr(st.value)
                    b = store_base(st.target)
                    if b is not None:
                        mark(b, norm(st.target) + f" {_opname(st.op)}= ...", st)
                    elif isinstance(st.target, ast.Name):
                        # in-place operator on a name: mutates the object when it is a mutable kind (list, Series,
                        # ndarray, set).  Scalars / strings rebind: require evidence that the value is a container.
                        if st.target.id in evidence or (expr_alias(st.target) & evidence):
                            mark(st.target, norm(st), st)
                elif isinstance(st, ast.AnnAssign):
                    if st.value is not None:
                        scan_expr(st.value)
                        bind(st.target, expr_alias(st.value))
                elif isinstance(st, ast.Delete):
                    for t in st.targets:
                        b = store_base(t)
                        if b is not None:
                            mark(b, "del " + norm(t), st)
                elif isinstance(st, ast.Return):
                    if st.value is not None:
                        scan_expr(st.value)
                        if isinstance(st.value, ast.Tuple):
                            per = [expr_alias(el) for el in st.value.elts]
                            for x in per:
                                s.ret |= x
                            if not s.ret_mixed:
                                if s.ret_tuple is None:
                                    s.ret_tuple = per
                                elif len(s.ret_tuple) == len(per):
                                    s.ret_tuple = [a | b for a, b in zip(s.ret_tuple, per)]
                                else:
                                    s.ret_mixed, s.ret_tuple = True, None
                        else:
                            al_ = expr_alias(st.value)
                            s.ret |= al_
                            if al_:
                                s.ret_mixed, s.ret_tuple = True, None
                elif isinstance(st, ast.If):
                    scan_expr(st.test)
                    pre = snapshot()
                    walk(st.body)
                    after_body = snapshot()
                    alias.clear()
                    alias.update(pre)
                    walk(st.orelse)
                    merge_into(after_body)
                elif isinstance(st, (ast.For, ast.AsyncFor)):
                    scan_expr(st.iter)
                    bind(st.target, set())
                    pre = snapshot()
                    walk(st.body)
                    walk(st.body)
                    merge_into(pre)
                    walk(st.orelse)
                elif isinstance(st, ast.While):
                    scan_expr(st.test)
                    pre = snapshot()
                    walk(st.body)
                    walk(st.body)
                    merge_into(pre)
                    walk(st.orelse)
                elif isinstance(st, (ast.With, ast.AsyncWith)):
                    for it in st.items:
                        scan_expr(it.context_expr)
                        if it.optional_vars is not None:
                            bind(it.optional_vars, expr_alias(it.context_expr))
                    walk(st.body)
                elif isinstance(st, ast.Try):
                    pre = snapshot()
                    walk(st.body)
                    for h in st.handlers:
                        walk(h.body)
                    walk(st.orelse)
                    walk(st.finalbody)
                    merge_into(pre)
                elif isinstance(st, ast.Expr):
                    scan_expr(st.value)
                elif isinstance(st, (ast.Raise, ast.Assert)):
                    for sub in ast.iter_child_nodes(st):
                        if isinstance(sub, ast.expr):
                            scan_expr(sub)

        walk(node.body)
        return before != (s.mut, s.ret, repr(s.ret_tuple))

    def _solve(self):
        changed = True
        while changed and self.rounds < 30:
            changed = False
            self.rounds += 1
            for s in self.sum.values():
                if self._analyse(s):
                    changed = True

    # ------------------------------------------------------------------ queries
    def roots(self, qn, param, _seen=None, atomic=None):
        """Root-cause constructs: [(fn qn, param, where, construct)] for direct mutations reachable from (qn, param).
        `atomic(callee_qn, cparam)`: callee is an in-place operation by contract -- the root cause is then the call
        site that applies it to an aliased object, not the callee's internals."""
        _seen = _seen if _seen is not None else set()
        if (qn, param) in _seen:
            return []
        _seen.add((qn, param))
        out = []
        for r in self.sum[qn].why.get(param, []):
            if r.kind == "direct":
                out.append((qn, param, r.where, r.construct))
            elif atomic is not None and atomic(r.callee, r.cparam):
                out.append((qn, param, r.where, r.construct))
            else:
                sub = self.roots(r.callee, r.cparam, _seen, atomic)
                out += sub
        uniq = []
        for o in out:
            if o not in uniq:
                uniq.append(o)
        return uniq

    def chain(self, qn, param, root, _seen=None):
        """One call chain from (qn,param) to the root-cause construct, as text."""
        _seen = _seen if _seen is not None else set()
        if (qn, param) in _seen:
            return None
        _seen.add((qn, param))
        for r in self.sum[qn].why.get(param, []):
            if (qn, param, r.where, r.construct) == root:
                return [f"{qn}({param}) @ {r.where}: {r.construct}"]
            if r.kind == "via":
                sub = self.chain(r.callee, r.cparam, root, _seen)
                if sub:
                    return [f"{qn}({param}) @ {r.where}: {r.construct}"] + sub
        return None


Resolver.resolve_call = Effects.resolve_call


def _container_evidence(fnode):
    """Names used in this function in a way only containers / arrays are used (subscripted, iterated,
    measured, membership-tested, attribute-accessed, isinstance-tested against a container type)."""
    ev = set()
    for n in own_nodes(fnode):
        if isinstance(n, ast.Subscript) and isinstance(n.value, ast.Name):
            ev.add(n.value.id)
        elif isinstance(n, (ast.For, ast.comprehension)) and isinstance(n.iter, ast.Name):
            ev.add(n.iter.id)
        elif isinstance(n, ast.Attribute) and isinstance(n.value, ast.Name):
            ev.add(n.value.id)
        elif isinstance(n, ast.Call) and isinstance(n.func, ast.Name) and n.func.id in ("len", "iter", "sorted", "list", "tuple", "set", "enumerate") and n.args and isinstance(n.args[0], ast.Name):
            ev.add(n.args[0].id)
        elif isinstance(n, ast.Call) and isinstance(n.func, ast.Name) and n.func.id == "isinstance" and len(n.args) == 2 and isinstance(n.args[0], ast.Name):
            if any(w in norm(n.args[1]) for w in ("list", "Series", "ndarray", "dict", "set", "DataFrame", "Iterable", "Sequence")):
                ev.add(n.args[0].id)
        elif isinstance(n, ast.Compare) and any(isinstance(o, (ast.In, ast.NotIn)) for o in n.ops):
            for c in n.comparators:
                if isinstance(c, ast.Name):
                    ev.add(c.id)
        if isinstance(n, ast.Subscript):
            # a name used as (part of) an index expression of a table -- `arr[mask, "log2"]`, `df[m1 | m2]` -- is a mask / index array
            for m in ast.walk(n.slice):
                if isinstance(m, ast.Name) and not (isinstance(n.slice, ast.Name) and False):
                    if isinstance(n.slice, (ast.Tuple, ast.BinOp, ast.UnaryOp)) or (isinstance(n.slice, ast.Name) and False):
                        ev.add(m.id)
    return ev


def _opname(op):
    return {ast.Add: "+", ast.Sub: "-", ast.Mult: "*", ast.Div: "/", ast.BitOr: "|", ast.BitAnd: "&", ast.FloorDiv: "//",
            ast.Mod: "%", ast.Pow: "**", ast.BitXor: "^", ast.LShift: "<<", ast.RShift: ">>", ast.MatMult: "@"}.get(type(op), "?")
