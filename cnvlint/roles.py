"""Role-flow (DESIGN 3.7): flags passed positionally through several levels with different parameter
orders must land on a parameter of the same role at every resolved call site."""
import ast

from .core import own_nodes, norm
from .effects import Resolver

ROLE = {}
for _role, _names in {
    "REF_HAPLOID_X": ["is_haploid_x_reference", "is_haploid_x", "male_reference", "is_male_reference", "haploid_x_reference", "is_reference_male"],
    "SAMPLE_FEMALE": ["is_sample_female", "is_xx", "female_samples", "is_female", "sample_is_female", "is_sample_female_given"],
    "PAR_GENOME": ["diploid_parx_genome", "genome_build"],
    "PLOIDY": ["ploidy"], "PURITY": ["purity"],
    "FIX_GC": ["do_gc", "fix_gc"], "FIX_EDGE": ["do_edge", "fix_edge"], "FIX_RMASK": ["do_rmask", "fix_rmask"],
    "SKIP_LOW": ["skip_low", "drop_low_coverage"], "CLUSTER": ["do_cluster", "cluster"],
    "THRESHOLDS": ["thresholds"], "FILTERS": ["filters"], "METHOD": ["method", "segment_method"],
    "MIN_MAPQ": ["min_mapq"], "PROCESSES": ["processes", "procs", "nprocs"], "BY_COUNT": ["by_count", "count_reads"],
    "MIN_PROBES": ["min_probes"], "ALPHA": ["alpha"], "BOOTSTRAPS": ["bootstraps", "bootstrap"], "SMOOTHED": ["smoothed", "smooth_bootstrap"],
    "MIN_DEPTH": ["min_depth", "min_variant_depth"], "SKIP_SOMATIC": ["skip_somatic"], "ZYGOSITY_FREQ": ["zygosity_freq"],
    "SAMPLE_ID": ["sample_id"], "NORMAL_ID": ["normal_id"], "AVG_SIZE": ["avg_size", "avg_bin_size"], "MIN_SIZE": ["min_size", "min_bin_size"],
    "MIN_GAP": ["min_gap_size"], "SKIP_NONCANONICAL": ["skip_noncanonical"],
    "SEXES": ["sexes"], "IS_CHR_X": ["is_chr_x"], "IS_CHR_Y": ["is_chr_y"], "REF_FLAT": ["ref_flat_logr"], "REF_COLUMNS": ["ref_columns"],
    "REF_EDGE_BIAS": ["ref_edge_bias"],
}.items():
    for _n in _names:
        ROLE[_n] = _role


def argname(a):
    if isinstance(a, ast.Name):
        return a.id
    if isinstance(a, ast.Attribute):
        return a.attr
    return None


def check(chk, prog, modules, roles_of_interest, floor, callee_modules=None):
    res = Resolver(prog)
    chk.rule("role-flow", "at every call site resolved to one repo function, an argument whose name carries a role (synonym table in "
             "roles.py) must be bound to a parameter of the same role; literals and expressions are not judged")
    sites = judged = 0
    for fi in prog.functions.values():
        if fi.mod not in modules:
            continue
        for n in own_nodes(fi.node):
            if not isinstance(n, ast.Call):
                continue
            cands = res.resolve_call(n, fi)
            if len(cands) != 1:
                continue
            cand = cands[0]
            if callee_modules and cand.mod not in callee_modules:
                continue
            ps = list(cand.posparams)
            off = 1 if (cand.is_method and isinstance(n.func, ast.Attribute) and ps and ps[0] in ("self", "cls")) else 0
            if cand.name == "__init__" and isinstance(n.func, ast.Name):
                off = 1
            ps = ps[off:]
            if not any(ROLE.get(p) in roles_of_interest for p in cand.params):
                continue
            sites += 1
            pairs = []
            for i, a in enumerate(n.args):
                if isinstance(a, ast.Starred):
                    break
                if i < len(ps):
                    pairs.append((ps[i], a))
            pairs += [(k.arg, k.value) for k in n.keywords if k.arg]
            for p, a in pairs:
                an = argname(a)
                rp, ra = ROLE.get(p), ROLE.get(an)
                if rp in roles_of_interest or ra in roles_of_interest:
                    if rp and ra:
                        judged += 1
                        if rp != ra:
                            chk.violate("role-flow", f"{fi.qn}::{norm(n.func)}({p}={norm(a)})", fi.loc(n),
                                        f"argument `{norm(a)}` ({ra}) is bound to parameter `{p}` ({rp}) of {cand.qn}")
    chk.floor("role-flow judged argument/parameter pairs", judged, floor)
    chk.ok("role-flow", f"{judged} argument/parameter pairs at {sites} call sites carry matching roles {sorted(roles_of_interest)}", cells=judged)
