"""C15 -- centring is a uniform shift zeroing the autosomes; sample sex is inferred right.
D1 uniform shift / which bins and how they are estimated, D2 estimator registry, D3 X adjustment tables (shift_xx, guess_xx, do_sex)
and the noise-free decision skeleton of compare_sex_chromosomes, D4 role-flow."""
import ast
import itertools
from fractions import Fraction as Fr

from ..abstools import *
from ..absint import CTX
from ..absval import Raised
from ..core import AnalysisError, own_nodes, norm
from .. import roles
from . import C05

LEVEL_TEXT = ('static analysis: (KIND) the maleness verdict guess_xx negates with `~` is None or a comparison with a numpy scalar on every value path of compare_sex_chromosomes (scalar-kind may-analysis over its body and nested helpers; a Python bool under `~` is -1 / -2, always true); (D1) center_all interpreted on a symbolic table (two autosomes, X, PAR-X, Y, PAR-Y, a mitochondrial, an unplaced,'
              ' a *_random and an unprefixed decoy contig, two null-coverage bins: depth 0, and a tiny depth with the placeholder log2) with an '
              'opaque estimator: every bin is shifted by one and the same term, minus the estimator applied -- per chromosome first, then across '
              'the per-chromosome values, or directly when by_chrom is off -- to exactly the autosomal bins (plus PAR-X iff a PAR genome is '
              'given; minus null-coverage bins iff skip_low); tables without any autosome-like name are centred on all their bins, with or '
              'without a PAR genome; the location estimators center_all binds return the value itself for constant data / a single bin (C19-D5 '
              'rule); which bins are PAR-X / PAR-Y is decided on literal bins around every PAR boundary (C01-D2b rule); (D2) center_all(<name>), '
              'interpreted with the four estimators recording their calls, applies the estimator of that name for mean / median / mode / biweight'
              ' (the median by default), those names equal the CLI choices, and any other string raises; (D3) shift_xx moves X by -1 iff (female '
              'sample, male reference), +1 iff (male sample, female reference), nothing else, on a copy; the flat reference profile (C05-D2 rule:'
              ' autosomes 0, Y -1 incl. PAR-Y for a female reference, X -1 iff male reference); guess_xx returns the negation of '
              "compare_sex_chromosomes' maleness verdict (None passed on) -- of this call: asked twice on one array with another reference sex "
              'the second answer follows the second verdict and the metadata is not extended; the `sex` report prints Male iff that verdict; and '
              'the decision skeleton of compare_sex_chromosomes on noise-free levels (its median-difference path): X / Y at the levels expected '
              "for the sample's sex under either reference sex, with or without chrY, is classified as that sex; (D3c) verify_sample_sex returns "
              'the stated sex whenever one is stated (x / y / f / m / female / male), else the inferred one; (D4) the sex / PAR flags reach same-'
              'role parameters. (LOW) drop_low_coverage on every subset of five literal bin kinds, with and without a depth column, drops exactly'
              ' the bins with log2 < -15 or depth 0, on a copy; (STATE) no class-level or module-level container is written by the table classes '
              '(C10 rule: the X / Y labels a table caches are its own); the row-class tables stand for tables with any index, so row positions '
              'used as labels (np.flatnonzero through .loc) are rejected. The estimators center_all binds are also typed for translation (C19-D4 '
              'rule): adding c to every value adds c to the estimate. `~` applied to the stated sex (a Python bool) is rejected in the shift_xx '
              'table. (CLI) the `call --center / sex` command line(s), through a model of argparse built from the declarations in commands.py and'
              ' the real _cmd_ body interpreted with readers, library step and writers stubbed: the estimator (or `median` when --center has no '
              'value), --drop-low-coverage and the PAR genome reach center_all, --center-at shifts instead; every file, -y and the PAR genome '
              "reach do_sex. Does not decide the Mood's-median-test inference under noise (statistical).")
TECHNIQUE = "abstract interpretation with an opaque estimator (uniform-shift identity, argument provenance); registry agreement; decision tables; role-flow"

CNA = "cnvlib.cnary.CopyNumArray"


def table(style, par, with_low, unsorted=False):
    """exact table: chromosomes 1, 2, X (non-PAR), X (PAR), Y (non-PAR and PAR), mitochondrion, an unplaced contig (+ a null-coverage bin
    on chromosome 1); `unsorted`: the second bin of
    chromosome 1 comes after chromosome 2 (e.g. targets and antitargets concatenated without re-sorting)"""
    pref = "chr" if style else ""
    rows, names = [], []
    spec = [("a1", pref + "1", 5_000_000), ("a1b", pref + "1", 6_000_000), ("a2", pref + "2", 5_000_000), ("x", pref + "X", 50_000_000),
            ("parx", pref + "X", 100_000), ("y", pref + "Y", 20_000_000), ("pary", pref + "Y", 100_000), ("mito", pref + "M" if style else "MT", 1000),
            ("unplaced", (pref + "Un_gl000220") if style else "GL000220.1", 1000), ("random", pref + "1_gl000191_random", 1000),
            ("decoy", "HLA-A*01:01:01:01" if style else "hs37d5", 1000)]          # a contig without the genome's chr prefix (hg38 HLA / decoy sequences, spike-ins)
    if with_low:
        spec.insert(2, ("low", pref + "1", 7_000_000))         # placeholder log2, depth 0
        spec.insert(3, ("low2", pref + "1", 8_000_000))        # placeholder log2, a tiny but non-zero depth: still a null-coverage bin
    if unsorted:
        spec.append(spec.pop(1))
    for nm, chrom, start in spec:
        if nm in ("low", "low2"):
            lg = Term.sym(f"v_{nm}", -INF, -16)
        else:
            lg = Term.sym(f"v_{nm}", -10, 10)
        rows.append(dict(chromosome=chrom, start=start, end=start + 1000, gene="g", log2=lg, depth=(0 if nm == "low" else Term.sym(f"d_{nm}", Fr(1, 10 ** 6), INF, positive=True))))
        names.append(nm)
    g = make_ga("CopyNumArray", rows, {"sample_id": "S"}, index="any", exact=True)
    return g, names


def d1(chk, prog):
    chk.clause("D1", "center_all adds one constant: minus estimator(per-chromosome estimates of the autosomal (+PAR-X) bins)")
    fi = prog.fn(f"{CNA}.center_all")
    tb = Table(chk, "uniform-shift", "center_all (by_chrom x skip_low x PAR genome x naming)", fi.loc(), fi.qn)
    for by_chrom, skip_low, par, style, unsorted in itertools.product([True, False], [False, True], [None, "grch38"], ["", "chr"], [False, True]):
        W.reset()
        g, names = table(style, par, True, unsorted)
        before = list(g.data.cols["log2"].v)
        calls = []

        def est(v, calls=calls):
            vals = list(v.v) if isinstance(v, Vec) else list(v)
            calls.append(vals)
            return Term.sym(f"EST{len(calls)}")
        it = Interp(prog)
        out = tb.guard(lambda: it.run_method(g, "center_all", [est, by_chrom, skip_low, False, par]), f"by_chrom={by_chrom} skip_low={skip_low} par={par}")
        if not calls and out is None and tb.undecided:
            continue
        after = g.data.cols["log2"].v
        shifts = [t_sub(T(a), T(b)) for a, b in zip(after, before)]
        uniform = all(same(s, shifts[0]) for s in shifts)
        used = [nm for nm in names if nm in ("a1", "a1b", "a2") or (nm == "parx" and par) or (nm in ("low", "low2") and not skip_low)]
        order = {nm: i for i, nm in enumerate(names)}
        sym = {nm: before[names.index(nm)] for nm in names}
        if by_chrom:
            groups = [[nm for nm in used if nm in ("a1", "a1b", "low", "low2")], [nm for nm in used if nm == "a2"]] + ([["parx"]] if par else [])
            groups = [sorted(grp, key=order.get) for grp in groups]          # one group per chromosome name, rows in table order
            want_calls = [[sym[n] for n in grp] for grp in groups]
            ok_calls = len(calls) == len(want_calls) + 1 and all(len(c) == len(w) and all(same(a, b) for a, b in zip(c, w)) for c, w in zip(calls, want_calls)) \
                and len(calls[-1]) == len(want_calls) and all(same(x, Term.sym(f"EST{i + 1}")) for i, x in enumerate(calls[-1]))
        else:
            w = [sym[n] for n in used]
            ok_calls = len(calls) == 1 and len(calls[0]) == len(w) and all(same(a, b) for a, b in zip(calls[0], w))
        ok_shift = uniform and bool(calls) and same(shifts[0], t_neg(Term.sym(f"EST{len(calls)}")))
        tb.cell(uniform and ok_calls and ok_shift, dict(by_chrom=by_chrom, skip_low=skip_low, par_genome=par, naming=style or "bare", rows_unsorted=unsorted, uniform_shift=uniform,
                                                         shift=repr(shifts[0]), estimator_calls=[[repr(x) for x in c] for c in calls], estimated_bins=used))
    tb.done("centring is not one constant shift by the estimator of the autosomal bins (per chromosome first)")
    # nothing to centre on: no autosome-named chromosome -> all bins are used (documented fallback), with or without a PAR genome
    tbn = Table(chk, "uniform-shift", "center_all on tables without any autosome-like name (chrX incl. PAR-X bins, chrY, chrM, a scaffold): one constant, estimated from all bins (PAR genome given or not)", fi.loc(), fi.qn + "::no autosomes")
    for by_chrom, par, style in itertools.product([True, False], [None, "grch38"], ["", "chr"]):
        W.reset()
        pref = "chr" if style else ""
        spec = [("x", pref + "X", 50_000_000), ("parx", pref + "X", 100_000), ("x2", pref + "X", 60_000_000), ("y", pref + "Y", 20_000_000), ("mito", pref + "M" if style else "MT", 1000), ("scaffold", "scaffold_12", 5000)]
        rows = [dict(chromosome=c, start=st, end=st + 1000, gene="g", log2=Term.sym(f"v_{nm}", -10, 10), depth=Term.sym(f"d_{nm}", 1, INF)) for nm, c, st in spec]
        g = make_ga("CopyNumArray", rows, {"sample_id": "S"}, index="any", exact=True)
        before = list(g.data.cols["log2"].v)
        calls = []

        def est(v, calls=calls):
            calls.append(list(v.v) if isinstance(v, Vec) else list(v))
            return Term.sym(f"EST{len(calls)}")
        it = Interp(prog)
        out = tbn.guard(lambda: ("v", it.run_method(g, "center_all", [est, by_chrom, False, False, par])), f"by_chrom={by_chrom} par={par} naming={style or 'bare'}")
        if out is None:
            continue
        after = g.data.cols["log2"].v
        shifts = [t_sub(T(a), T(b)) for a, b in zip(after, before)]
        uniform = all(same(s_, shifts[0]) for s_ in shifts)
        seen = calls[:-1] if by_chrom else calls
        flat = [x for c in seen for x in c]
        all_bins = len(flat) == len(before) and all(any(same(x, b) for x in flat) for b in before)
        ok = uniform and bool(calls) and all_bins and same(shifts[0], t_neg(Term.sym(f"EST{len(calls)}")))
        tbn.cell(ok, dict(by_chrom=by_chrom, par_genome=par, naming=style or "bare", uniform_shift=uniform, bins_estimated_from=len(flat), of=len(before), estimator_calls=[[repr(x) for x in c] for c in calls]))
    tbn.done("on a table without autosome-like names the centre is not estimated from all bins (e.g. from the PAR-X bins alone when a PAR genome is given)")
    W.reset()
    it = Interp(prog)
    g = GA("CopyNumArray", DF({c: Vec([], aligned=True) for c in ("chromosome", "start", "end", "gene", "log2")}, 0), 0, {"sample_id": "S"})
    g.data.exact = True
    try:
        it.run_method(g, "center_all", [])
        chk.ok("uniform-shift", "center_all on an empty array is a no-op")
    except Raised as e:
        chk.violate("uniform-shift", f"{fi.qn}::empty", fi.loc(), f"center_all on an empty array raises {e}")
    except Undecided as e:
        raise AnalysisError(f"C15-D1 empty array: {e}")


def sex_labels(chk, prog):
    """the names under which a table's X and Y chromosomes are looked up: the table's own naming style (shared with C01 / C20, whose copy-number tables hang on them)"""
    fi = prog.fn(f"{CNA}.chr_x_label")
    tb = Table(chk, "uniform-shift", "chr_x_label / chr_y_label on literal tables: chr-named, bare, chr-named with an unprefixed decoy contig, without any X row, Y rows only", fi.loc(), f"{CNA}.chr_x_label / chr_y_label")
    cases = {"chr-named": (["chr1", "chr2", "chrX", "chrY"], "chr"), "bare names": (["1", "2", "X", "Y", "MT"], ""), "chr-named with an unprefixed decoy": (["chr1", "chrX", "chrY", "HLA-A*01:01", "hs37d5"], "chr"),
             "chr-named, no X row": (["chr1", "chr2", "chrY"], "chr"), "Y rows only": (["chrY", "chrY"], "chr"), "bare, no sex chromosome": (["1", "2"], ""), "chr-named after sorting decoys last": (["chr1", "chrX", "chrUn_gl000220", "GL000220.1"], "chr")}
    for label, (names, pref) in cases.items():
        W.reset()
        rows = [dict(chromosome=c, start=10 * i, end=10 * i + 5, gene="g", log2=0) for i, c in enumerate(names)]
        got = {}
        for prop in ("chr_x_label", "chr_y_label"):
            g = make_ga("CopyNumArray", rows, {"sample_id": "S"}, index="any", exact=True)
            it = Interp(prog)
            out = tb.guard(lambda: ("v", it.attribute(g, prop)), f"{label} {prop}")
            got[prop] = out[1] if out is not None else "<undecided>"
        if "<undecided>" in got.values():
            continue
        tb.cell(got == {"chr_x_label": pref + "X", "chr_y_label": pref + "Y"}, dict(table=label, chromosomes=names, got=got, want=(pref + "X", pref + "Y")))
    tb.done("the sex chromosomes are looked up under a name the table does not use (its X / Y rows are then treated as autosomes)")


def d2(chk, prog):
    chk.clause("D2", "estimator registry: names <-> functions <-> CLI choices; unknown string raises")
    fi = prog.fn(f"{CNA}.center_all")
    # the estimator each name stands for: center_all interpreted with the four library / package estimators recording their calls
    want = {"mean": "pd.Series.mean", "median": "pd.Series.median", "mode": "descriptives.modal_location", "biweight": "descriptives.biweight_location"}
    tbr = Table(chk, "estimator-registry", "center_all(<name>) applies the estimator of that name (mean / median / mode / biweight; default: median), per chromosome and overall", fi.loc(), f"{fi.qn}::estimator names")
    for name in list(want) + [None]:
        for by_chrom in (True, False):
            W.reset()
            used = []
            model = Model()

            def rec(tag, used=used):
                def f(it, v, *a, **k):
                    used.append(tag)
                    return Term.sym(f"EST{len(used)}")
                return f
            # every reducer a name could be bound to records itself: the Series reducers and all public functions of cnvlib.descriptives
            for red in ("mean", "median", "max", "min", "std", "var", "sum", "mode", "mad"):
                model.ext[f"pd.Series.{red}"] = rec(f"pd.Series.{red}")
                model.ext[f"np.{red}"] = rec(f"np.{red}")
            for fname, ffi in prog.module("cnvlib.descriptives").functions.items():
                if not fname.startswith("_") and ffi.parent is None:
                    model.prims[f"cnvlib.descriptives.{fname}"] = rec(f"descriptives.{fname}")
            g, _ = table("chr", None, False)
            it = Interp(prog, model)
            kw = dict(by_chrom=by_chrom)
            out = tbr.guard(lambda: ("v", it.run_method(g, "center_all", [name] if name is not None else [], kw)), f"estimator={name!r} by_chrom={by_chrom}")
            if out is None:
                continue
            expect = want[name if name is not None else "median"]
            tbr.cell(bool(used) and set(used) == {expect}, dict(estimator=name if name is not None else "(default)", by_chrom=by_chrom, applied=sorted(set(used)), want=expect))
    tbr.done("an estimator name (or the default) does not stand for the estimator it names")
    got = want
    cmds = prog.module("cnvlib.commands")
    choices = [ast.literal_eval(k.value) for n in ast.walk(cmds.tree) if isinstance(n, ast.Call) and isinstance(n.func, ast.Attribute) and n.func.attr == "add_argument"
               and any(isinstance(a, ast.Constant) and a.value == "--center" for a in n.args) for k in n.keywords if k.arg == "choices"]
    chk.floor("--center options", len(choices), 1)
    for c in choices:
        chk.decide(set(c) == set(got), "estimator-registry", f"CLI --center choices {tuple(c)} == estimator names", "cnvlib.commands::--center choices", "cnvlib/commands.py",
                   f"CLI offers {sorted(c)} but the estimator names are {sorted(got)}")
    W.reset()
    model = Model()
    empty = GA("CopyNumArray", DF({c: Vec([], aligned=True) for c in ("chromosome", "start", "end", "gene", "log2")}, 0), 0, {})
    model.method_prims["autosomes"] = lambda it, obj, *a, **k: empty          # nothing to estimate: only the name validation is exercised
    it = Interp(prog, model)
    g, _ = table("chr", None, False)
    try:
        it.run_method(g, "center_all", ["bogus"])
        chk.violate("estimator-registry", f"{fi.qn}::unknown estimator", fi.loc(), "an unknown estimator name is accepted silently")
    except Raised as e:
        chk.decide("ValueError" in str(e), "estimator-registry", "unknown estimator name raises ValueError", f"{fi.qn}::unknown estimator", fi.loc(), f"raises {e}")
    except Undecided as e:
        raise AnalysisError(f"C15-D2: {e}")


def d3(chk, prog):
    chk.clause("D3", "X adjustment tables: shift_xx, guess_xx, do_sex; noise-free decision skeleton of compare_sex_chromosomes")
    fi = prog.fn(f"{CNA}.shift_xx")
    tb = Table(chk, "x-adjustment", "shift_xx (sample sex x reference sex x PAR genome x naming)", fi.loc(), fi.qn)
    for is_xx, hap, par, style in itertools.product([True, False, None], [False, True], [None, "grch38"], ["", "chr"]):
        for guessed in ([True, False] if is_xx is None else [None]):
            W.reset()
            model = Model()
            seen = []

            def guess(it, obj, is_haploid_x_reference=False, diploid_parx_genome=None, verbose=True, guessed=guessed, seen=seen):
                seen.append((is_haploid_x_reference, diploid_parx_genome))
                return guessed
            model.method_prims["guess_xx"] = guess
            it = Interp(prog, model)
            g = cna(CLS5, style)
            before = list(g.data.cols["log2"].v)
            out = tb.guard(lambda: it.run_method(g, "shift_xx", [hap, is_xx, par]), f"is_xx={is_xx} hap={hap}")
            if out is None:
                continue
            fem = guessed if is_xx is None else is_xx
            inverted = [h for h in W.hazards if h.startswith("~ applied to the boolean `is_xx`")]
            if is_xx is not None and inverted:
                # the caller stated the sex as a Python bool (True / False): `~is_xx` is then -2 / -1, always truthy
                tb.cell(False, dict(is_xx=is_xx, haploid_x_reference=hap, problem=inverted[0], consequence="a stated female on a female reference takes the male branch: chrX is raised by a whole copy"))
                continue
            dx = -1 if (fem and hap) else (1 if (not fem and not hap) else 0)
            for i, c in enumerate(CLS5):
                want = t_add(T(before[i]), Term.const(dx if c in ("x", "parx") else 0))
                tb.cell(same(out.data.cols["log2"].v[i], want) and same(g.data.cols["log2"].v[i], before[i]),
                        dict(is_xx=is_xx, guessed=guessed, haploid_x_reference=hap, cls=c, got=repr(out.data.cols["log2"].v[i]), want=repr(want), input_after=repr(g.data.cols["log2"].v[i])))
            if is_xx is None:
                tb.cell(seen == [(hap, par)], dict(guess_xx_called_with=seen, want=[(hap, par)]))
    tb.done("shift_xx does not bring chrX to the autosomal level for the sample's sex / reference sex (or alters its input)")

    fg = prog.fn(f"{CNA}.guess_xx")
    tb2 = Table(chk, "x-adjustment", "guess_xx == not maleness verdict (None passed on)", fg.loc(), fg.qn)
    for verdict, hap, par in itertools.product([True, False, None], [False, True], [None, "grch38"]):
        W.reset()
        model = Model()
        seen = []

        def cmp_(it, obj, is_haploid_x_reference=False, diploid_parx_genome=None, skip_low=False, verdict=verdict, seen=seen):
            seen.append((is_haploid_x_reference, diploid_parx_genome))
            return verdict, ({"chrx_ratio": 0, "chry_ratio": 0, "chrx_male_lr": 1, "chry_male_lr": 1} if verdict is not None else {})
        model.method_prims["compare_sex_chromosomes"] = cmp_
        it = Interp(prog, model)
        out = tb2.guard(lambda: ("v", it.run_method(cna(CLS5, "chr"), "guess_xx", [hap, par, False])), f"verdict={verdict}")
        if out is None:
            continue
        want = None if verdict is None else (not verdict)
        tb2.cell(out[1] is want and seen == [(hap, par)], dict(maleness_verdict=verdict, got=out[1], want=want, called_with=seen))
    # history: asked twice on one array (another reference sex, changed values) the second answer follows the second verdict, and the array's metadata is not extended
    for first, second in itertools.product([True, False], [True, False]):
        W.reset()
        model = Model()
        verdicts = [first, second]
        calls = []

        def cmp2(it, obj, is_haploid_x_reference=False, diploid_parx_genome=None, skip_low=False, verdicts=verdicts, calls=calls):
            calls.append((is_haploid_x_reference, diploid_parx_genome))
            return verdicts[min(len(calls) - 1, 1)], {"chrx_ratio": 0, "chry_ratio": 0, "chrx_male_lr": 1, "chry_male_lr": 1}
        model.method_prims["compare_sex_chromosomes"] = cmp2
        it = Interp(prog, model)
        g = cna(CLS5, "chr")
        meta_before = dict(g.meta)

        def twice():
            a = it.run_method(g, "guess_xx", [False, None, False])
            b = it.run_method(g, "guess_xx", [True, "grch38", False])
            return a, b
        out = tb2.guard(twice, f"two calls, verdicts {first} then {second}")
        if out is None:
            continue
        tb2.cell(out[0] is (not first) and out[1] is (not second) and calls == [(False, None), (True, "grch38")] and g.meta == meta_before,
                 dict(verdicts=[first, second], answers=list(out), want=[not first, not second], compare_calls=calls, metadata_keys_added=sorted(set(g.meta) - set(meta_before))))
    tb2.done("guess_xx is not the negation of the maleness verdict (of this call: its own reference sex, the array's current values)")

    fs = prog.fn("cnvlib.commands.do_sex")
    tb3 = Table(chk, "x-adjustment", "sex report prints Male <=> maleness verdict", fs.loc(), fs.qn)
    for verdict in (True, False):
        W.reset()
        model = Model()
        model.method_prims["compare_sex_chromosomes"] = lambda it, obj, *a, verdict=verdict, **k: (verdict, {"chrx_ratio": Fr(1, 2), "chry_ratio": Fr(-1, 2)})
        captured = {}
        model.ext["pd.DataFrame.from_records"] = lambda it, rows, columns=None, **k: captured.setdefault("rows", (list(it.iterate(rows)), columns))
        it = Interp(prog, model)
        g = cna(CLS5, "chr")
        g.meta["filename"] = "f.cnr"
        out = tb3.guard(lambda: it.run(fs.qn, [[g], False, None]), f"verdict={verdict}")
        if out is None:
            continue
        rows, cols = captured.get("rows", ([], None))
        ok = len(rows) == 1 and cols is not None and list(cols)[:2] == ["sample", "sex"] and rows[0][1] == ("Male" if verdict else "Female") and rows[0][0] == "f.cnr"
        tb3.cell(ok, dict(verdict=verdict, row=[repr(x) for x in (rows[0] if rows else [])]))
    tb3.done("the sex report does not print the inferred sex")

    fc = prog.fn(f"{CNA}.compare_sex_chromosomes")
    tb4 = Table(chk, "sex-skeleton", "compare_sex_chromosomes on noise-free expected levels (median-difference path)", fc.loc(), fc.qn)
    for male, hap, with_y, par, style in itertools.product([True, False], [False, True], [True, False], [None, "grch38"], ["", "chr"]):
        W.reset()
        pref = "chr" if style else ""
        xlevel = (0 if hap else -1) if male else (1 if hap else 0)
        ylevel = 0 if male else -4
        rows = [dict(chromosome=pref + "1", start=5_000_000 + i, end=5_000_100 + i, gene="g", log2=0) for i in range(3)]
        rows += [dict(chromosome=pref + "X", start=50_000_000 + i, end=50_000_100 + i, gene="g", log2=xlevel) for i in range(3)]
        if with_y:
            rows += [dict(chromosome=pref + "Y", start=20_000_000 + i, end=20_000_100 + i, gene="g", log2=ylevel) for i in range(2)]
        g = make_ga("CopyNumArray", rows, {"sample_id": "S"}, index="any", exact=True)
        model = Model()

        def mood(it, *a, **k):
            raise Raised("ValueError", "All values are below the grand median")
        model.ext["scipy.stats.median_test"] = mood
        it = Interp(prog, model)
        out = tb4.guard(lambda: it.run_method(g, "compare_sex_chromosomes", [hap, par]), f"male={male} hap={hap} y={with_y}")
        if out is None:
            continue
        tb4.cell(out[0] is male, dict(sample_male=male, haploid_x_reference=hap, chrY_present=with_y, par_genome=par, naming=style or "bare", x_level=xlevel, y_level=ylevel if with_y else None,
                                       verdict=repr(out[0]), score=repr(out[1].get("combined_score"))))
    tb4.done("a sample sitting exactly at its sex's expected X / Y levels is classified as the other sex")


def low_coverage(chk, prog):
    """the null-coverage rule shared by centring, fix, segmentation and the reports: which bins `drop_low_coverage` removes"""
    fi = prog.fn(f"{CNA}.drop_low_coverage")
    tb = Table(chk, "low-coverage", "drop_low_coverage on literal tables (every subset of: ordinary bin, log2 below the null threshold, zero depth with an ordinary log2, both, log2 exactly at the threshold) "
               "with and without a depth column: drops exactly the bins with log2 < -15 or depth == 0, on a copy", fi.loc(), fi.qn)
    kinds = [("ordinary", Fr(3, 10), 5), ("low log2", -17, 2), ("zero depth", -3, 0), ("low and empty", -20, 0), ("at the threshold", -15, 1)]
    for r in range(1, len(kinds) + 1):
        for subset in itertools.combinations(kinds, r):
            for with_depth in (True, False):
                W.reset()
                rows = []
                for i, (nm, lg, dp) in enumerate(subset):
                    row = dict(chromosome="chr1", start=100 * i, end=100 * i + 50, gene=nm, log2=lg)
                    if with_depth:
                        row["depth"] = dp
                    rows.append(row)
                g = make_ga("CopyNumArray", rows, {"sample_id": "S"}, exact=True, labels=[7 + 3 * i for i in range(len(rows))])
                it = Interp(prog)
                out = tb.guard(lambda: ("v", it.run_method(g, "drop_low_coverage", [])), f"{[k[0] for k in subset]} depth column={with_depth}")
                if out is None:
                    continue
                res = out[1]
                want = [nm for nm, lg, dp in subset if not (lg < -15 or (with_depth and dp == 0))]
                got = list(res.data.cols["gene"].v) if isinstance(res, GA) else None
                untouched = list(g.data.cols["gene"].v) == [k[0] for k in subset]
                tb.cell(got == want and untouched, dict(bins=[k[0] for k in subset], depth_column=with_depth, kept=got, want=want, input_untouched=untouched))
    tb.done("drop_low_coverage does not drop exactly the null-coverage bins (log2 below -15, or zero depth)")


def d3c_stated_sex(chk, prog):
    """the command-line glue: a stated sample sex always wins over the inferred one (shared with C01 / C02 / C20, whose commands go through it)"""
    fi = prog.fn("cnvlib.cmdutil.verify_sample_sex")
    tb = Table(chk, "x-adjustment", "verify_sample_sex: stated sex (x / y / f / m / female / male, any case) x inferred sex (female / male / undetermined)", fi.loc(), fi.qn)
    for guess, arg in itertools.product([True, False, None], [None, "x", "f", "female", "Female", "y", "m", "male", "Male"]):
        W.reset()
        model = Model()
        seen = []

        def gx(it, obj, hap=False, par=None, verbose=True, seen=seen, guess=guess, **k):
            seen.append((hap, par))
            return guess
        model.method_prims["guess_xx"] = gx
        it = Interp(prog, model)
        out = tb.guard(lambda: ("v", it.run(fi.qn, [cna(["auto", "x", "y"], "chr"), arg, True, "grch38"])), f"inferred={guess} stated={arg}")
        if out is None:
            continue
        want = guess if arg is None else (arg.lower() not in ("y", "m", "male"))
        tb.cell(out[1] is want and seen == [(True, "grch38")], dict(inferred_female=guess, stated=arg, result=out[1], want=want, guess_xx_called_with=seen))
    tb.done("the sample sex used downstream is not the stated one when one is stated (else the inferred one)")


def d4(chk, prog):
    chk.clause("D4", "role-flow of the sex / PAR flags through guess_xx, shift_xx, compare_sex_chromosomes, do_sex")
    roles.check(chk, prog, modules=("cnvlib.cnary", "cnvlib.commands", "cnvlib.reference", "cnvlib.reports", "cnvlib.segmetrics", "cnvlib.export", "cnvlib.diagram",
                                    "cnvlib.scatter", "cnvlib.heatmap", "cnvlib.call", "cnvlib.batch"),
                roles_of_interest=("REF_HAPLOID_X", "SAMPLE_FEMALE", "PAR_GENOME", "SKIP_LOW"), floor=40, callee_modules=("cnvlib.cnary", "cnvlib.commands", "cnvlib.reports"))


def run(chk):
    prog = chk.prog
    chk.trust("Python grammar via ast", "pandas groupby(sort=False) yields groups in order of first appearance; boolean-mask selection (absmodel.py)",
              "numpy bool: ~True == False")
    chk.assume("the estimator passed to center_all is a function of the values it is given (treated as an opaque symbol per call)")
    chk.clause("PAR", "which bins count as PAR-X / PAR-Y: the filters on literal bins around every PAR boundary (C01-D2b rule)")
    from . import C01
    C01.par_key_label(chk, prog)
    d1(chk, prog)
    chk.clause("LOW", "which bins `skip_low` leaves out of the estimate: drop_low_coverage on literal tables")
    low_coverage(chk, prog)
    sex_labels(chk, prog)
    chk.clause("STATE", "the X / Y labels a table caches in its metadata are that table's own: no container shared between tables (C10 rule)")
    from . import C10
    C10.shared_state(chk, prog, modules=("cnvlib.cnary", "skgenome.gary"))
    d2(chk, prog)
    from . import C19
    # the estimators center_all binds: a location estimate of constant data / of a single value is that value (a chromosome covered by one bin votes its own level), C19-D5 rule
    from .. import estyping
    estyping.check_constant(chk, prog, {k: v for k, v in C19.LOCATION.items() if k in ("biweight_location", "modal_location")}, {}, floor=2)
    # ... and move with the data: adding c to every value adds c to the estimate (otherwise the table is not centred on its own estimate afterwards), C19-D4 typing
    estyping.check_typing(chk, prog, {k: v for k, v in C19.LOCATION.items() if k in ("biweight_location", "modal_location")}, {}, floor=2)
    d3(chk, prog)
    d3c_stated_sex(chk, prog)
    invert_operand_kind(chk, prog)
    C05.d2(chk, prog)            # expect_flat_log2 table (shared with C05-D2)
    d4(chk, prog)
    chk.clause("CLI", "the `call --center` and `sex` command lines: estimator, --drop-low-coverage, -y and the PAR genome reach center_all / do_sex as given")
    from .. import cliglue
    cliglue.check_call(chk, prog)
    cliglue.check_sex(chk, prog)


_C = "cnvlib/cnary.py"
MUTANTS = [
    dict(name="seeded C15e: guess_xx memoised in the array's metadata", file="cnvlib/cnary.py", old="        is_xy, stats = self.compare_sex_chromosomes(is_haploid_x_reference, diploid_parx_genome)\n        if is_xy is None:\n            return None\n", new="        if \"is_xx\" in self.meta:\n            return self.meta[\"is_xx\"]\n        is_xy, stats = self.compare_sex_chromosomes(is_haploid_x_reference, diploid_parx_genome)\n        if is_xy is None:\n            return None\n        self.meta[\"is_xx\"] = ~is_xy\n"),
    dict(name="seeded C15f: null-coverage bins by depth alone when a depth column exists", file="cnvlib/cnary.py", old="        drop_idx = self.data[\"log2\"] < min_cvg\n        if \"depth\" in self:\n            drop_idx |= self.data[\"depth\"] == 0\n", new="        if \"depth\" in self:\n            drop_idx = self.data[\"depth\"] == 0\n        else:\n            drop_idx = self.data[\"log2\"] < min_cvg\n"),
    dict(name="shift applied to autosomes only", file=_C, old='            self.data["log2"] += shift', new='            self.data.loc[cnarr.data.index, "log2"] += shift'),
    dict(name="shift sign", file=_C, old="            shift = -estimator(values)", new="            shift = estimator(values)"),
    dict(name="skip_low ignored", file=_C, old="            self.drop_low_coverage(verbose=verbose) if skip_low else self\n", new="            self\n"),
    dict(name="PAR genome not passed to autosomes", file=_C, old="        ).autosomes(diploid_parx_genome=diploid_parx_genome)\n        if cnarr:", new="        ).autosomes()\n        if cnarr:"),
    dict(name="by_chrom ignored", file=_C, old="            if by_chrom:\n                values = pd.Series(", new="            if False:\n                values = pd.Series("),
    dict(name="biweight bound to midvariance", file=_C, old='            "biweight": descriptives.biweight_location,', new='            "biweight": descriptives.biweight_midvariance,'),
    dict(name="unknown estimator falls back silently", file=_C, old='                raise ValueError(\n                    "Estimator must be a function or one of: "\n                    + ", ".join(map(repr, est_funcs))\n                )', new="                estimator = pd.Series.median"),
    dict(name="guess_xx returns maleness", file=_C, old="        return ~is_xy\n", new="        return is_xy\n"),
    dict(name="shift_xx branches swapped", file=_C, old="        if is_xx and is_haploid_x_reference:", new="        if not is_xx and is_haploid_x_reference:"),
    dict(name="shift_xx mutates input", file=_C, old="        outprobes = self.copy()\n        if is_xx is None:", new="        outprobes = self\n        if is_xx is None:"),
    dict(name="shift_xx male +1 also under male reference", file=_C, old="        elif not is_xx and not is_haploid_x_reference:", new="        elif not is_xx:"),
    dict(name="x shifts swapped in compare_sex_chromosomes", file=_C, old="        female_x_shift, male_x_shift = (-1, 0) if is_haploid_x_reference else (0, +1)", new="        female_x_shift, male_x_shift = (0, +1) if is_haploid_x_reference else (-1, 0)"),
    dict(name="maleness threshold inverted", file=_C, old="            combined_score > 1.0,", new="            combined_score < 1.0,"),
    dict(name="Y shifts swapped", file=_C, old="                +3,\n                0,\n            )", new="                0,\n                +3,\n            )"),
    dict(name="sex report inverted", file="cnvlib/commands.py", old='            "Male" if is_xy else "Female",', new='            "Female" if is_xy else "Male",'),
    dict(name="drop_low threshold inverted", file=_C, old='        drop_idx = self.data["log2"] < min_cvg', new='        drop_idx = self.data["log2"] > min_cvg'),
    dict(name="twin: shift computed then negated", file=_C, old="            shift = -estimator(values)", new="            shift = 0 - estimator(values)", expect="silent"),
    dict(name="twin: shift_xx condition order", file=_C, old="        if is_xx and is_haploid_x_reference:", new="        if is_haploid_x_reference and is_xx:", expect="silent"),
]


# ---------------------------------------------------------------------------------------------- numpy truth values under `~`
def invert_operand_kind(chk, prog):
    """guess_xx answers `~is_xy`.  On a numpy bool that is the logical negation; on a Python bool it is the integer -2 / -1, which is true
    either way (every sample would be called female).  The model interprets `~` as negation, so the verdict compare_sex_chromosomes returns
    must be a numpy bool on every path: a may-analysis of scalar kinds (NP numpy scalar / PY Python scalar / ? unknown) over the function
    body, following local names and nested helper functions.  Only a definite Python-scalar path is reported."""
    import ast as _ast
    chk.clause("KIND", "the maleness verdict negated with `~` in guess_xx is a numpy bool on every path (a Python bool under `~` is -1 / -2: always true)")
    chk.rule("invert-needs-numpy-bool", "every operand of `~` that is a scalar truth value obtained from compare_sex_chromosomes is a comparison with a numpy "
             "scalar on one side on every path of the scalar-kind dataflow (constants, min / max / float / bool / round give Python scalars)")
    fg = prog.fn(f"{CNA}.guess_xx")
    inverts = [n for n in _ast.walk(fg.node) if isinstance(n, _ast.UnaryOp) and isinstance(n.op, _ast.Invert)]
    src_names = set()
    for n in _ast.walk(fg.node):
        if isinstance(n, _ast.Assign) and isinstance(n.value, _ast.Call) and isinstance(n.value.func, _ast.Attribute) and n.value.func.attr == "compare_sex_chromosomes" \
                and isinstance(n.targets[0], _ast.Tuple) and isinstance(n.targets[0].elts[0], _ast.Name):
            src_names.add(n.targets[0].elts[0].id)
    instances = [n for n in inverts if isinstance(n.operand, _ast.Name) and n.operand.id in src_names]
    if not instances:
        chk.ok("invert-needs-numpy-bool", "guess_xx does not negate the verdict with `~` (nothing to decide)", where=fg.loc(), cells=1)
        return
    fc = prog.fn(f"{CNA}.compare_sex_chromosomes")
    funcs = {n.name: n for n in _ast.walk(fc.node) if isinstance(n, _ast.FunctionDef)}

    def assigned(scope, name):
        out = []
        for n in _ast.walk(scope):
            if isinstance(n, _ast.FunctionDef) and n is not scope:
                continue
            if isinstance(n, _ast.Assign):
                for t in n.targets:
                    if isinstance(t, _ast.Name) and t.id == name:
                        out.append(n.value)
                    elif isinstance(t, _ast.Tuple) and isinstance(n.value, _ast.Tuple) and len(t.elts) == len(n.value.elts):
                        out += [v for e, v in zip(t.elts, n.value.elts) if isinstance(e, _ast.Name) and e.id == name]
                    elif isinstance(t, _ast.Tuple) and any(isinstance(e, _ast.Name) and e.id == name for e in t.elts):
                        out.append(("elt", [isinstance(e, _ast.Name) and e.id == name for e in t.elts].index(True), n.value))
            elif isinstance(n, _ast.AugAssign) and isinstance(n.target, _ast.Name) and n.target.id == name:
                out.append(_ast.BinOp(left=_ast.Name(id=name + "'", ctx=_ast.Load()), op=n.op, right=n.value))
        return out

    def scopes_of(scope):
        return [scope] + ([fc.node] if scope is not fc.node else [])

    def kinds(e, scope, depth=0, seen=()):
        """set of (kind, why) with kind in NP / PY / ?"""
        if depth > 12:
            return {("?", "depth")}
        if isinstance(e, tuple):                                   # element i of a tuple-returning call
            _, i, call = e
            if isinstance(call, _ast.Call) and isinstance(call.func, _ast.Name) and call.func.id in funcs:
                out = set()
                for r in [n for n in _ast.walk(funcs[call.func.id]) if isinstance(n, _ast.Return) and n.value is not None]:
                    if isinstance(r.value, _ast.Tuple) and i < len(r.value.elts):
                        out |= kinds(r.value.elts[i], funcs[call.func.id], depth + 1, seen)
                    else:
                        out.add(("?", "non-literal tuple"))
                return out
            return {("?", "unpacked call")}
        if isinstance(e, _ast.Constant):
            return {("NONE", "None")} if e.value is None else {("PY", f"the literal {e.value!r}")}
        if isinstance(e, _ast.Name):
            if e.id.endswith("'"):
                e = _ast.Name(id=e.id[:-1], ctx=_ast.Load())
            key = (id(scope), e.id)
            if key in seen:
                return set()
            out = set()
            for sc in scopes_of(scope):
                vals = assigned(sc, e.id)
                for v in vals:
                    out |= kinds(v, sc, depth + 1, seen + (key,))
                if vals:
                    return out
            return {("?", f"name {e.id}")}
        if isinstance(e, _ast.BinOp):
            l, r = kinds(e.left, scope, depth + 1, seen), kinds(e.right, scope, depth + 1, seen)
            lk, rk = {k for k, _ in l if k != "NONE"}, {k for k, _ in r if k != "NONE"}
            if (lk and lk <= {"NP"}) or (rk and rk <= {"NP"}):
                return {("NP", "numpy operand")}
            out = set()
            for a, wa in l:
                for b, wb in r:
                    if a == "PY" and b == "PY":
                        out.add(("PY", f"{wa} combined with {wb}"))
                    elif "NONE" in (a, b):
                        continue
                    else:
                        out.add(("NP", "numpy operand") if "NP" in (a, b) and "?" not in (a, b) else ("?", "mixed"))
            return out or {("?", "binop")}
        if isinstance(e, _ast.Compare) and len(e.ops) == 1:
            if isinstance(e.ops[0], (_ast.Is, _ast.IsNot, _ast.In, _ast.NotIn)):
                return {("PY", "an identity / membership test")}
            return kinds(_ast.BinOp(left=e.left, op=_ast.Add(), right=e.comparators[0]), scope, depth + 1, seen)
        if isinstance(e, _ast.IfExp):
            return kinds(e.body, scope, depth + 1, seen) | kinds(e.orelse, scope, depth + 1, seen)
        if isinstance(e, _ast.UnaryOp):
            return {("PY", "`not`")} if isinstance(e.op, _ast.Not) else kinds(e.operand, scope, depth + 1, seen)
        if isinstance(e, _ast.BoolOp):
            out = set()
            for v in e.values:
                out |= kinds(v, scope, depth + 1, seen)
            return out
        if isinstance(e, _ast.Call):
            f = e.func
            if isinstance(f, _ast.Name):
                if f.id in ("float", "int", "bool", "round", "len", "sum") and f.id not in funcs:
                    return {("PY", f"{f.id}() gives a Python scalar")}
                if f.id in ("min", "max") and len(e.args) >= 2 and not e.keywords:
                    out = set()
                    for a in e.args:
                        out |= {(k, w + f" chosen by {f.id}()") if k == "PY" else (k, w) for k, w in kinds(a, scope, depth + 1, seen)}
                    return out
                if f.id == "abs" and e.args:
                    return kinds(e.args[0], scope, depth + 1, seen)
                if f.id in funcs:
                    out = set()
                    for r in [n for n in _ast.walk(funcs[f.id]) if isinstance(n, _ast.Return)]:
                        out |= kinds(r.value, funcs[f.id], depth + 1, seen) if r.value is not None else {("NONE", "None")}
                    return out
                return {("?", f"call {f.id}")}
            if isinstance(f, _ast.Attribute):
                root = f
                while isinstance(root, _ast.Attribute):
                    root = root.value
                if isinstance(root, _ast.Name) and root.id in ("np", "numpy", "descriptives", "stats") or f.attr in ("median", "mean", "sum", "std", "min", "max", "item") and f.attr != "item":
                    return {("NP", "library call")}
                if f.attr == "item":
                    return {("PY", ".item() gives a Python scalar")}
                return {("?", f"method {f.attr}")}
        if isinstance(e, _ast.Subscript):
            return {("?", "subscript")}
        return {("?", type(e).__name__)}

    n_paths = 0
    problems = []
    for r in [n for n in _ast.walk(fc.node) if isinstance(n, _ast.Return) and n.value is not None]:
        owner = next((fn for fn in funcs.values() if fn is not fc.node and any(x is r for x in _ast.walk(fn))), fc.node)
        if owner is not fc.node:
            continue
        if not (isinstance(r.value, _ast.Tuple) and r.value.elts):
            continue
        ks = kinds(r.value.elts[0], fc.node)
        n_paths += len(ks)
        for k, why in sorted(ks):
            if k == "PY":
                problems.append(f"line {r.lineno}: `{norm(r.value.elts[0])}` can be a Python bool ({why})")
    chk.decide(not problems, "invert-needs-numpy-bool", f"guess_xx `~verdict`: the verdict of compare_sex_chromosomes is None or a comparison with a numpy scalar on every one of {n_paths} value path(s)",
               f"{fc.qn}::verdict kind", fc.loc(), "; ".join(problems[:4]) + " -- guess_xx negates it with `~`, which on a Python bool gives -2 / -1 (true): the sample is called female whatever the evidence",
               witness=dict(problems=problems[:6], negated_at=f"{fg.loc()} line {instances[0].lineno}"), cells=max(n_paths, 1))
    chk.floor("value paths of the maleness verdict", n_paths, 2)
