"""C10 -- results depend only on arguments; inputs untouched.
D1 argument immutability (effects), D2 RNG discipline, D3 ordered fan-out, D4 no hidden state,
D5 rename-don't-overwrite protocol."""
import ast
import itertools

from ..core import (AnalysisError, Program, parents, own_nodes, norm, stmt_of, dominates, names_in)
from ..effects import Effects, GA_CLASSES
from .. import rules
from ..abstools import Table, W, Model, Interp, Undecided
from ..absval import Raised

LEVEL_TEXT = ('static analysis (effect / alias fix-point over the whole call graph + dominance rules): decides that no pipeline entry point or '
              'non-in-place array method may mutate an argument object, that every random draw is dominated by a constant seed and none comes '
              'from a generator object that outlives the call (module-level, default-argument or class-attribute RandomState / default_rng), that'
              ' pool results are consumed in submission order and the fan-out drivers (read counting, pileup, segmentation), interpreted for 1 '
              'and 3 processes, hand every unit of work to the same worker with the same options in the same order (rules of C09-D5 / C03-D5; the'
              ' chunker on all small inputs), that no hidden module-level or class-level state is written (containers written through a local '
              'alias included; embedded positive example), that ensure_path() precedes the promised writes, and -- interpreted over a small file-'
              'system model -- never overwrites or loses an existing file (k writes leave k files).  D3: pick_pool interpreted for 1, 2, 7, 0, -1'
              ' processes; the serial / parallel agreement of the read-count and pileup paths is decided by interpretation (C09-D5b / D5c) '
              "instead of comparing the two branches' call sets. D4 exempts a complete memo (a cache keyed by every parameter its values depend "
              'on, read by key only) and reports an incomplete one; private helper methods of the table classes are judged through the public '
              'methods that call them. Does not decide floating-point run-to-run equality (follows from these only modulo library determinism).')

# methods that are in-place by contract (documented mutators) -- everything else on the array classes must leave self alone
IN_PLACE = {"__init__", "__setitem__", "__delitem__", "add", "sort", "sort_columns", "center_all", "shuffle"}
PIPELINE_MODULES = ["cnvlib.target", "cnvlib.antitarget", "cnvlib.fix", "cnvlib.segmentation", "cnvlib.segmetrics", "cnvlib.call",
                    "cnvlib.reports", "cnvlib.bintest", "cnvlib.metrics", "cnvlib.reference", "cnvlib.access", "cnvlib.coverage",
                    "cnvlib.export", "cnvlib.autobin", "cnvlib.segfilters", "cnvlib.importers", "cnvlib.cmdutil",
                    "skgenome.tabio", "skgenome.merge", "skgenome.subtract", "skgenome.subdivide", "skgenome.intersect",
                    "skgenome.combiners", "cnvlib.descriptives", "cnvlib.smoothing"]
# smoothing/descriptives helpers that work on private scratch arrays by design (window normalisation, edge fit)
INTERNAL_SCRATCH = {"cnvlib.smoothing._fit_edge", "cnvlib.smoothing._fit_edges", "cnvlib.smoothing.convolve_weighted",
                    "cnvlib.smoothing.convolve_unweighted"}

EMBEDDED = {
    "cnvlib/pos.py": (
        "import numpy as np\nfrom concurrent import futures\n"
        "def do_thing(arr, opts):\n    tmp = arr\n    helper(tmp)\n    return arr.copy()\n"
        "def helper(x):\n    x['log2'] = 0\n"
        "def do_clean(arr):\n    arr = arr.copy()\n    arr['log2'] = 0\n    return arr\n"
        "def draw():\n    return np.random.permutation(3)\n"
        "def draw_ok():\n    np.random.seed(5)\n    return np.random.permutation(3)\n"
        "def fan(pool, xs):\n    return [f.result() for f in futures.as_completed([pool.submit(abs, x) for x in xs])]\n"
        "CACHE = {}\n"
        "def do_state(k, scale):\n    if k not in CACHE:\n        CACHE[k] = k * scale\n    return CACHE[k]\n"          # a memo whose key leaves out `scale`: stale answers
        "MEMO = {}\n"
        "def do_memo(k, scale):\n    key = (k, scale)\n    if key not in MEMO:\n        MEMO[key] = k * scale\n    return MEMO[key]\n"   # keyed by everything the value depends on: not hidden state
        "_RNG = np.random.RandomState(7)\n"
        "def shared_draw(n):\n    return _RNG.permutation(n)\n"
        "def local_draw(n):\n    rng = np.random.RandomState(7)\n    return rng.permutation(n)\n"
        "class Box:\n    _limits = {'lower': 0}\n    def clip(self, hi=None):\n        limits = self._limits\n        if hi:\n            limits['upper'] = hi\n        return limits\n"
        "    def clip_ok(self, hi=None):\n        limits = {'lower': 0}\n        if hi:\n            limits['upper'] = hi\n        return limits\n"
    )
}


EXPLICIT_ENTRIES = {
    "skgenome.tabio.read", "skgenome.tabio.read_auto", "skgenome.tabio.write",
    "cnvlib.cmdutil.read_cna", "cnvlib.cmdutil.read_ga", "cnvlib.cmdutil.load_het_snps", "cnvlib.cmdutil.write_tsv",
    "cnvlib.cmdutil.write_text", "cnvlib.cmdutil.write_dataframe",
    "skgenome.merge.merge", "skgenome.merge.flatten", "skgenome.subtract.subtract", "skgenome.subdivide.subdivide",
    "skgenome.intersect.by_ranges", "skgenome.intersect.into_ranges", "skgenome.intersect.iter_ranges",
    "skgenome.intersect.iter_slices", "skgenome.intersect.by_shared_chroms", "skgenome.intersect.idx_ranges",
    "cnvlib.export.merge_samples", "cnvlib.export.fmt_cdt", "cnvlib.export.fmt_jtv", "cnvlib.export.fmt_gct",
    "cnvlib.export.segments2vcf", "cnvlib.export.assign_ci_start_end",
    "cnvlib.segmetrics.segment_mean", "cnvlib.segmetrics.calc_intervals", "cnvlib.segmetrics.confidence_interval_bootstrap",
    "cnvlib.segmetrics.prediction_interval", "cnvlib.bintest.z_prob", "cnvlib.bintest.p_adjust_bh",
    "cnvlib.call.absolute_clonal", "cnvlib.call.absolute_pure", "cnvlib.call.absolute_threshold", "cnvlib.call.absolute_expect",
    "cnvlib.call.absolute_reference", "cnvlib.call.absolute_dataframe", "cnvlib.call.log2_ratios", "cnvlib.call.rescale_baf",
    "cnvlib.fix.load_adjust_coverages", "cnvlib.fix.match_ref_to_sample", "cnvlib.fix.mask_bad_bins", "cnvlib.fix.apply_weights",
    "cnvlib.fix.center_by_window", "cnvlib.fix.get_edge_bias", "cnvlib.reports.group_by_genes", "cnvlib.reports.get_gene_intervals",
    "cnvlib.reports.get_breakpoints", "cnvlib.target.shorten_labels", "cnvlib.antitarget.get_antitargets",
    "cnvlib.access.get_regions", "cnvlib.access.join_regions", "cnvlib.metrics.ests_of_scale",
    "cnvlib.importers.do_import_picard", "cnvlib.importers.do_import_theta",
}
ENTRY_MODULES = {"cnvlib.target", "cnvlib.antitarget", "cnvlib.fix", "cnvlib.segmentation", "cnvlib.segmetrics", "cnvlib.call",
                 "cnvlib.reports", "cnvlib.bintest", "cnvlib.metrics", "cnvlib.reference", "cnvlib.access", "cnvlib.coverage",
                 "cnvlib.export", "cnvlib.autobin", "cnvlib.importers"}
ESTIMATOR_MODULES = {"cnvlib.descriptives", "cnvlib.smoothing"}


def entry_points(prog):
    """Pipeline steps (do_* / export_* and the named public helpers they are built from), the call filters, every
    public estimator / smoother, and every array-class method that is not an in-place mutator by contract."""
    out = []
    for qn, fi in prog.functions.items():
        if fi.parent is not None:
            continue
        if fi.cls in GA_CLASSES:
            if fi.name in IN_PLACE or any(d.endswith(".setter") for d in fi.decorators):
                continue
            if fi.name.startswith("_") and not fi.name.startswith("__"):
                # a private helper method is judged through the public methods that call it (its effects are part of their summaries): as the
                # body of an in-place mutator it may write to self, reached from any other method that write is reported there
                continue
            out.append(fi)
        elif fi.cls is None:
            if qn in EXPLICIT_ENTRIES:
                out.append(fi)
            elif fi.mod in ENTRY_MODULES and (fi.name.startswith("do_") or fi.name.startswith("export_")):
                out.append(fi)
            elif fi.mod == "cnvlib.segfilters" and any(d.startswith("require_column") for d in fi.decorators):
                out.append(fi)
            elif fi.mod in ESTIMATOR_MODULES and not fi.name.startswith("_") and qn not in INTERNAL_SCRATCH \
                    and fi.name not in ("on_array", "on_weighted_array", "check_inputs"):
                out.append(fi)
    return out


def _atomic(prog):
    def atomic(callee_qn, cparam):
        fi = prog.functions.get(callee_qn)
        return bool(fi and fi.cls in GA_CLASSES and cparam == "self"
                    and (fi.name in IN_PLACE or any(d.endswith(".setter") for d in fi.decorators)))
    return atomic


def allowed_root(prog, root):
    """Frozen, reasoned exceptions of the immutability rule."""
    qn, param, where, construct = root
    if qn in ("cnvlib.cnary.CopyNumArray.chr_x_label", "cnvlib.cnary.CopyNumArray.chr_y_label") and construct.startswith("self.meta["):
        return "chromosome-label cache in the array's metadata (the property's own exception)"
    if construct.endswith("= ...") and param == "self":
        # value-preserving dtype normalisation:  T = T.astype(str)
        fi = prog.functions[qn]
        for n in own_nodes(fi.node):
            if isinstance(n, ast.Assign) and len(n.targets) == 1 and norm(n.targets[0]) + " = ..." == construct:
                v = n.value
                if (isinstance(v, ast.Call) and isinstance(v.func, ast.Attribute) and v.func.attr == "astype"
                        and norm(v.func.value) == norm(n.targets[0]) and len(v.args) == 1
                        and norm(v.args[0]) in ("str", "'str'", '"str"')
                        and norm(n.targets[0]).endswith(".chromosome")):
                    return "value-preserving: chromosome is already str (enforced by __init__)"
    return None


def d1_immutability(chk, prog, eff):
    chk.clause("D1", "no entry point / non-in-place array method mutates an argument object (effects fix-point)")
    chk.rule("arg-mutation", "mut[f] (parameters whose entry object may be mutated, through any callee) must be empty for every "
             "pipeline entry point and every array method that is not an in-place mutator by contract; exceptions: the "
             "chr_x/chr_y label cache in meta, and by_arm's value-preserving astype(str)")
    # the effect analysis takes `.copy()` as a fresh object: that premise is checked on the repository's own copy methods
    from ..abstools import make_ga, Term, same
    tbc = Table(chk, "arg-mutation", "GenomicArray.copy / CopyNumArray.copy return an independent table (a store into the copy leaves the original alone; metadata not shared)", "skgenome/gary.py", "skgenome.gary.GenomicArray.copy")
    for cls in ("GenomicArray", "CopyNumArray", "VariantArray"):
        if prog.find_method(cls, "copy") is None:
            continue
        W.reset()
        g = make_ga(cls, [dict(chromosome="chr1", start=0, end=10, gene="g", log2=Term.sym("v0")), dict(chromosome="chr1", start=10, end=20, gene="h", log2=Term.sym("v1"))], {"sample_id": "S"}, exact=True)
        it = Interp(prog)

        def probe():
            c = it.run_method(g, "copy", [])
            it.lib.store_subscript(it, c, "log2", 0)
            c.meta["sample_id"] = "changed"
            return c
        c = tbc.guard(probe, cls)
        if c is None:
            continue
        untouched = same(g.data.cols["log2"].v[0], Term.sym("v0")) and same(g.data.cols["log2"].v[1], Term.sym("v1")) and g.meta.get("sample_id") == "S"
        tbc.cell(c is not g and c.data is not g.data and untouched and c.cls == cls, dict(cls=cls, same_object=c is g, same_table=c.data is g.data, original_untouched=untouched))
    tbc.done("copy() hands back the array itself or a wrapper around the same table: every 'works on a copy' function then writes into its caller's array")
    entries = entry_points(prog)
    chk.floor("C10-D1 entry points", len(entries), 140)
    atomic = _atomic(prog)
    reported = {}
    n_clean = 0
    for fi in entries:
        s = eff.sum[fi.qn]
        bad_roots = []
        for p in sorted(s.mut):
            for root in eff.roots(fi.qn, p, atomic=atomic):
                if allowed_root(prog, root) is None:
                    bad_roots.append((p, root))
        if not bad_roots:
            n_clean += 1
            continue
        for p, root in bad_roots:
            rqn, rparam, where, construct = root
            key = f"{rqn}::{construct}"
            ent = reported.setdefault(key, dict(root=root, entries=[], chain=None))
            ent["entries"].append(f"{fi.qn}({p})")
            if ent["chain"] is None:
                ent["chain"] = eff.chain(fi.qn, p, root)
    chk.ok("arg-mutation", f"{n_clean} of {len(entries)} entry points have an empty mutation summary", cells=n_clean)
    for key, ent in sorted(reported.items()):
        rqn, rparam, where, construct = ent["root"]
        chk.violate("arg-mutation", key, where,
                    f"argument object may be mutated: `{construct}` on parameter `{rparam}` of {rqn}; reached from "
                    f"{len(ent['entries'])} entry point(s): {', '.join(ent['entries'][:6])}",
                    witness=dict(chain=ent["chain"], entries=ent["entries"]), cells=len(ent["entries"]))
    chk.sample(dict(rule="arg-mutation", entry="cnvlib.call.do_call", mut=sorted(eff.sum[prog.fn("cnvlib.call.do_call").qn].mut),
                    ret_alias=sorted(eff.sum["cnvlib.call.do_call"].ret)))
    # positive must-flow: the copies that the anchors name are present (deleting one is the realistic regression; the
    # effect rule above reports it as a mutation, this only pins that the instances exist)
    return len(entries)


def d2_rng(chk, prog, eff):
    chk.clause("D2", "every draw from a global generator is dominated by a constant seed; library RNG users get a constant state")
    chk.rule("seed-before-draw", "np.random.<draw>/random.<draw> must be dominated in its function by np.random.seed(<int constant>) "
             "(or, for a private helper, at every caller); DataFrame.sample / scipy.cluster.vq.kmeans* / sklearn estimators "
             "must receive a constant random_state/seed or be dominated by such a seed call (through callees they call)")
    # generator objects that persist between calls: their draws depend on the process's history
    shared = rules.shared_generators(prog)
    for sfi, sn, desc in shared:
        chk.violate("seed-before-draw", f"{sfi.qn}::{norm(sn)[:70]}", sfi.loc(sn), f"`{norm(sn)[:60]}` draws from a generator that outlives the call ({desc}): the state advances with every call, "
                    "so the result depends on how often the function ran before in this process -- seed a generator inside the call instead")
    if not shared:
        chk.ok("seed-before-draw", "no draw from a module-level / default-argument / class-attribute generator object")
    sites = rules.rng_sites(prog)
    chk.floor("C10-D2 RNG sites", len(sites), 6)
    for fi, n, kind, name in sites:
        par = parents(fi.node)
        where = fi.loc(n)
        inst = f"{fi.qn}::{norm(n)[:70]}"
        if kind == "global-draw":
            ok, why = rules.seeded(prog, eff, fi, n)
            chk.decide(ok, "seed-before-draw", inst, inst, where, why, detail=why)
        else:
            r = rules.lib_rng_call(n)
            ok = r[1]
            why = "constant random state passed"
            if not ok:
                ok, why = rules.seeded(prog, eff, fi, n)
                if not ok and fi.name.startswith("pca_") or (not ok and len(rules.callers_of(prog, eff, fi)) > 0 and fi.name != "kmeans"):
                    # helper: every caller must seed before the call
                    callers = rules.callers_of(prog, eff, fi)
                    oks = [rules.seeded(prog, eff, cfi, cn)[0] for cfi, cn in callers]
                    if callers and all(oks):
                        ok, why = True, "every caller seeds first"
                    else:
                        why = f"{name}() falls back to the global generator and neither {fi.qn} nor all of its callers " \
                              f"({', '.join(c.qn for c, _ in callers)}) seed it with a constant"
                elif not ok:
                    why = f"{name}() falls back to the global numpy generator; no constant seed/random_state and no dominating np.random.seed()"
            chk.decide(ok, "seed-before-draw", inst, inst, where, why, detail=why)
    chk.sample(dict(rule="seed-before-draw", sites=[f"{fi.qn}: {norm(n)[:60]}" for fi, n, _, _ in sites]))


def d3_fanout(chk, prog, eff):
    chk.clause("D3", "pool results are consumed in submission order; serial and parallel branch reach the same worker")
    chk.rule("ordered-fanout", "no as_completed / imap_unordered / wait in cnvlib+skgenome; pool.map results iterated directly; "
             "submit() futures collected in a list and read back in list order; SerialPool.map is builtin map")
    sites, banned = rules.fanout_sites(prog)
    chk.floor("C10-D3 pool sites", len(sites), 6)
    for fi, n in banned:
        chk.violate("ordered-fanout", f"{fi.qn}::{norm(n.func)}", fi.loc(n), "completion-order consumption of pool results")
    for fi, n in sites:
        par = parents(fi.node)
        inst = f"{fi.qn}::{norm(n.func)}({norm(n.args[0]) if n.args else ''})"
        if n.func.attr == "map":
            chk.ok("ordered-fanout", inst, "Executor.map preserves input order", fi.loc(n))
        elif n.func.attr == "submit":
            # the future must be appended to a list (order kept) or discarded (fire-and-forget), never put in a set/dict
            up = par.get(n)
            ok, how = True, "future discarded (results are files, not a table)"
            if isinstance(up, ast.Call) and isinstance(up.func, ast.Attribute) and up.func.attr == "append":
                lst = norm(up.func.value)
                how = f"appended to list `{lst}`"
                # every consumer of that list iterates it in order
                for m in own_nodes(fi.node):
                    if isinstance(m, (ast.Set, ast.SetComp)) and lst in names_in(m):
                        ok, how = False, f"futures of `{lst}` put in a set"
                    if isinstance(m, ast.Call) and isinstance(m.func, ast.Name) and m.func.id in ("set", "sorted", "reversed", "frozenset") and m.args and norm(m.args[0]) == lst:
                        ok, how = False, f"`{lst}` is reordered by {m.func.id}()"
            elif isinstance(up, ast.Call) and isinstance(up.func, ast.Attribute) and up.func.attr == "add":
                ok, how = False, "future added to a set"
            elif not isinstance(up, ast.Expr):
                if isinstance(up, (ast.Dict, ast.DictComp, ast.Set, ast.SetComp)):
                    ok, how = False, "futures collected in an unordered container"
                else:
                    how = f"future bound by `{norm(up)[:50]}`"
            chk.decide(ok, "ordered-fanout", inst, inst, fi.loc(n), how, detail=how)
        else:
            chk.violate("ordered-fanout", inst, fi.loc(n), f"pool.{n.func.attr} is not a recognised order-preserving idiom")
    # SerialPool.map, interpreted: func applied to every item of the iterable once, results in item order (was a match on the shape of the return expression)
    sp = prog.fn("cnvlib.parallel.SerialPool.map")
    from ..abstools import Interp
    from ..absval import Undecided, Raised
    applied = []

    def worker(x):
        applied.append(x)
        return ("result of", x)
    try:
        res = list(Interp(prog).iterate(Interp(prog).call_function(sp.mod, sp.node, [None, worker, ["a", "b", "c", "a"]], {}, qn=sp.qn)))
        ok = res == [("result of", x) for x in ("a", "b", "c", "a")] and applied == ["a", "b", "c", "a"]
    except (Undecided, Raised) as e:
        raise AnalysisError(f"C10-D3: SerialPool.map cannot be interpreted: {e}")
    chk.decide(ok, "ordered-fanout", "SerialPool.map(func, items): func applied once per item, results in item order", "cnvlib.parallel.SerialPool.map", sp.loc(),
               f"the serial pool must apply func to every item in order; got {res} (applied to {applied})")
    # pick_pool, interpreted: the serial pool for one process, an executor with that many workers otherwise (all cores for a count below 1)
    pp = prog.fn("cnvlib.parallel.pick_pool")
    from ..abstools import Model, Table, Row
    tbp = Table(chk, "ordered-fanout", "pick_pool(n) for n = 1, 2, 7, 0, -1: what the `with` block receives", pp.loc(), pp.qn)
    for n_ in (1, 2, 7, 0, -1):
        made = []
        model = Model()

        def executor(it_, *a, made=made, **k):
            made.append(k.get("max_workers", a[0] if a else None))
            return Row({"__executor__": True, "__enter__": None})
        model.ext["concurrent.futures.ProcessPoolExecutor"] = executor
        it_ = Interp(prog, model)
        try:
            got = list(it_.iterate(it_.call_function(pp.mod, pp.node, [n_], {}, qn=pp.qn)))
        except (Undecided, Raised) as e:
            tbp.undecided.append(f"pick_pool({n_}): {e}")
            continue
        if n_ == 1:
            ok = len(got) == 1 and not made and isinstance(got[0], Row) and "SerialPool" in str(got[0]._d.get("__class__", ""))
        else:
            ok = len(got) == 1 and made == [n_ if n_ >= 1 else None] and isinstance(got[0], Row) and got[0]._d.get("__executor__") is True
        tbp.cell(ok, dict(nprocs=n_, yielded=repr(got)[:80], executors_created_with=made))
    tbp.done("pick_pool does not hand out the serial pool for one process and a process pool of the requested size otherwise")
    # (sibling agreement -- with 1 and with 3 processes the read-count and pileup paths reach the same worker with the same arguments and give the same rows
    #  in the same order -- is decided by interpretation: C09-D5b / D5c, run from run() below; the former comparison of the two branches' call sets is retired)


def _closure(prog, eff, fi, depth):
    out = {fi.qn}
    if depth == 0:
        return out
    for n in own_nodes(fi.node):
        if isinstance(n, ast.Call):
            for c in eff.resolve_call(n, fi):
                if c.qn not in out:
                    out |= _closure(prog, eff, c, depth - 1)
    return out


def d4_hidden_state(chk, prog, eff):
    chk.clause("D4", "no pipeline function writes module-level state or mutates a mutable default argument")
    chk.rule("no-hidden-state", "no `global` rebinding, no store into / mutator call on a module-level container, no mutation of a "
             "parameter whose default is a mutable literal, in cnvlib + skgenome (argparse wiring in commands.py excluded)")
    n_fn = 0
    for fi in prog.functions.values():
        if not (fi.mod in PIPELINE_MODULES or fi.mod.startswith("skgenome") or fi.mod.startswith("cnvlib.segmentation")
                or fi.mod in ("cnvlib.cnary", "cnvlib.vary", "cnvlib.core", "cnvlib.parallel", "cnvlib.samutil", "cnvlib.batch", "cnvlib.cluster", "cnvlib.params")):
            continue          # argparse wiring and the plotting modules are outside the property's steps
        n_fn += 1
        m = prog.modules[fi.mod]
        module_containers = {k for k, v in m.assigns.items() if isinstance(v, (ast.Dict, ast.List, ast.Set, ast.DictComp, ast.ListComp))
                             or (isinstance(v, ast.Call) and norm(v.func) in ("dict", "list", "set", "collections.defaultdict", "OrderedDict", "collections.OrderedDict"))}
        local_names = set(fi.params)
        for n in own_nodes(fi.node):
            if isinstance(n, ast.Assign):
                for t in n.targets:
                    for x in ast.walk(t):
                        if isinstance(x, ast.Name) and isinstance(x.ctx, ast.Store):
                            local_names.add(x.id)
            elif isinstance(n, (ast.For, ast.comprehension)):
                for x in ast.walk(n.target):
                    if isinstance(x, ast.Name):
                        local_names.add(x.id)
        for n in own_nodes(fi.node):
            if isinstance(n, ast.Global):
                chk.violate("no-hidden-state", f"{fi.qn}::global {','.join(n.names)}", fi.loc(n), "rebinds a module global")
            tgt = None
            if isinstance(n, (ast.Assign, ast.AugAssign)):
                for t in (n.targets if isinstance(n, ast.Assign) else [n.target]):
                    if isinstance(t, ast.Subscript) and isinstance(t.value, ast.Name):
                        tgt = t.value.id
            if isinstance(n, ast.Call) and isinstance(n.func, ast.Attribute) and n.func.attr in ("append", "extend", "update", "setdefault", "pop", "clear", "add", "insert", "remove") \
                    and isinstance(n.func.value, ast.Name):
                tgt = n.func.value.id
            if tgt and tgt in module_containers and tgt not in local_names:
                if rules.complete_memo(fi, tgt):
                    chk.note(f"{fi.qn} keeps a cache in `{tgt}` keyed by every parameter its values depend on: what it returns does not depend on earlier calls")
                    continue
                chk.violate("no-hidden-state", f"{fi.qn}::{tgt}", fi.loc(n), f"writes module-level container `{tgt}`: {norm(n)[:60]}")
        # mutable default mutated
        a = fi.node.args
        pos = a.posonlyargs + a.args
        defaults = [None] * (len(pos) - len(a.defaults)) + list(a.defaults)
        for arg, d in list(zip(pos, defaults)) + list(zip(a.kwonlyargs, a.kw_defaults)):
            if d is not None and isinstance(d, (ast.List, ast.Dict, ast.Set)) and arg.arg in eff.sum[fi.qn].mut:
                if rules.complete_memo(fi, arg.arg):
                    chk.note(f"{fi.qn} keeps a cache in its default argument `{arg.arg}` keyed by every parameter its values depend on: what it returns does not depend on earlier calls")
                    continue
                chk.violate("no-hidden-state", f"{fi.qn}::default {arg.arg}", fi.loc(d), f"mutable default `{arg.arg}={norm(d)}` is mutated: results depend on call history")
    shared_state(chk, prog)
    chk.ok("no-hidden-state", f"{n_fn} functions scanned", cells=n_fn)


def shared_state(chk, prog, modules=("cnvlib", "skgenome")):
    """class attributes / module-level names bound to a dict, list or set and written inside a function, directly or through a local alias
    (shared with C06 / C12 for the interval operations: resize_ranges(bp) after resize_ranges(bp, chrom_sizes) must not see the earlier call's sizes)"""
    hits = [(fi, n, d) for fi, n, d in rules.shared_mutable_state(prog, modules) if "__all__" not in d and not fi.mod.startswith("cnvlib.commands")]
    hits += [(fi, n, d) for fi, n, d in rules.cached_result_mutations(prog) if fi.mod.startswith(tuple(modules))]
    for fi, n, d in hits:
        chk.violate("no-hidden-state", f"{fi.qn}::{norm(n)[:60]}", fi.loc(n), f"{d}: the container outlives the call, so what {fi.name} returns depends on the calls made before it in the same process "
                    "(build the container inside the function instead)")
    if not hits:
        chk.ok("no-hidden-state", f"no function in {' / '.join(modules)} writes into a class-level or module-level dict / list / set (directly or through a local alias)")


def d5_ensure_path(chk, prog):
    chk.clause("D5", "ensure_path(p) precedes tabio.write(_, p) at the promised sites; ensure_path renames onto a free name")
    chk.rule("rename-dont-overwrite", "ensure_path(p) dominates tabio.write(x, p) where promised; inside ensure_path the os.rename "
             "destination is the variable whose non-existence is the exit condition of the preceding search loop, and the "
             "source is the function's path parameter")
    for qn in ("cnvlib.commands._cmd_coverage", "cnvlib.commands._cmd_reference", "cnvlib.batch.batch_make_reference"):
        fi = prog.fn(qn)
        par = parents(fi.node)
        ens = [n for n in own_nodes(fi.node) if isinstance(n, ast.Call) and norm(n.func) in ("core.ensure_path", "ensure_path") and n.args]
        writes = sorted((n for n in own_nodes(fi.node) if isinstance(n, ast.Call) and norm(n.func) in ("tabio.write", "write") and len(n.args) >= 2),
                        key=lambda n: (n.lineno, n.col_offset))
        if not writes:
            raise AnalysisError(f"{qn}: tabio.write call vanished")
        # the promised write is the one to the function's output path: the last write in the function
        for w in writes[-1:]:
            pth = norm(w.args[1])
            ok = any(norm(e.args[0]) == pth and dominates(stmt_of(e, par), stmt_of(w, par), par) and stmt_of(e, par) is not stmt_of(w, par) for e in ens)
            # no rebinding of the path between
            chk.decide(ok, "rename-dont-overwrite", f"{qn}: ensure_path({pth}) dominates tabio.write(_, {pth})", f"{qn}::tabio.write(_, {pth})",
                       fi.loc(w), f"no core.ensure_path({pth}) on every path before the write")
    # ensure_path itself, interpreted over a small file-system model: nothing that exists is ever overwritten or lost
    fi = prog.fn("cnvlib.core.ensure_path")
    tb = Table(chk, "rename-dont-overwrite", "ensure_path on a modelled file system: 0..3 earlier backups x plain / nested / missing-directory paths", fi.loc(), fi.qn)
    import posixpath
    for path, existing_dirs in (("out.cnn", {"/cwd"}), ("results/out.cnn", {"/cwd", "/cwd/results"}), ("new/deep/out.cnn", {"/cwd"}), ("./out.cnn", {"/cwd"})):
        for present, backups in itertools.product([False, True], [0, 1, 2, 3]):
            if not present and backups:
                continue
            W.reset()
            ab = lambda p_: posixpath.normpath(posixpath.join("/cwd", p_))
            files = {}
            if present and ab(posixpath.dirname(path) or ".") in existing_dirs:
                files[ab(path)] = "current"
                for k in range(1, backups + 1):
                    files[ab(f"{path}.{k}")] = f"backup{k}"
            elif present:
                continue
            dirs = set(existing_dirs)
            before = dict(files)
            model = Model()
            model.ext["os.path.normpath"] = lambda it, p_: posixpath.normpath(p_)
            model.ext["os.path.abspath"] = lambda it, p_: ab(p_)
            model.ext["os.path.dirname"] = lambda it, p_: posixpath.dirname(p_)
            model.ext["os.path.basename"] = lambda it, p_: posixpath.basename(p_)
            model.ext["os.path.join"] = lambda it, *a: posixpath.join(*a)
            model.ext["os.path.isdir"] = lambda it, p_, dirs=dirs: ab(p_) in dirs
            model.ext["os.path.isfile"] = lambda it, p_, files=files: ab(p_) in files
            model.ext["os.path.exists"] = lambda it, p_, files=files, dirs=dirs: ab(p_) in files or ab(p_) in dirs
            model.ext["os.curdir"] = "."

            def makedirs(it, p_, *a, dirs=dirs, **k):
                q = ab(p_)
                while q not in dirs and q != "/":
                    dirs.add(q)
                    q = posixpath.dirname(q)
            model.ext["os.makedirs"] = makedirs

            def listdir(it, p_=".", files=files, dirs=dirs):
                d = ab(p_)
                if d not in dirs:
                    raise Raised("FileNotFoundError", p_)
                return sorted({posixpath.basename(f) for f in files if posixpath.dirname(f) == d})
            model.ext["os.listdir"] = listdir

            def rename(it, src, dst, files=files):
                s_, d_ = ab(src), ab(dst)
                if s_ not in files:
                    raise Raised("FileNotFoundError", src)
                files[d_] = files.pop(s_)             # POSIX rename: silently replaces an existing destination
            model.ext["os.rename"] = rename
            model.ext["os.replace"] = rename
            model.ext["shutil.move"] = rename
            it = Interp(prog, model)
            out = tb.guard(lambda: ("v", it.run(fi.qn, [path])), f"path={path} present={present} backups={backups}")
            if out is None:
                continue
            kept = sorted(files.values()) == sorted(before.values())
            free = ab(path) not in files
            moved_to = [f for f, c in files.items() if c == "current"]
            want_to = [ab(f"{path}.{backups + 1}")] if present else []
            untouched = all(files.get(f) == c for f, c in before.items() if c != "current")
            dir_ok = ab(posixpath.dirname(path) or ".") in dirs
            tb.cell(kept and free and moved_to == want_to and untouched and dir_ok,
                    dict(path=path, existed=present, earlier_backups=backups, files_before=sorted(before), files_after=sorted(files), nothing_lost=kept, path_free=free, directory_exists=dir_ok))
    tb.done("ensure_path overwrites or loses an existing file (k writes to one path must leave k files), or leaves the path occupied / its directory missing")


def embedded_positive(chk):
    """Zero-expected rules must fire on a tiny embedded example on every run."""
    p = Program(sources=EMBEDDED)
    e = Effects(p)
    ok = e.sum["cnvlib.pos.do_thing"].mut == {"arr"} and not e.sum["cnvlib.pos.do_clean"].mut
    sites = rules.rng_sites(p)
    res = {fi.name: rules.seeded(p, e, fi, n)[0] for fi, n, _, _ in sites}
    ok = ok and {k: v for k, v in res.items() if k in ("draw", "draw_ok")} == {"draw": False, "draw_ok": True}
    _, banned = rules.fanout_sites(p)
    ok = ok and len(banned) == 1
    if not ok:
        raise AnalysisError("embedded positive example not recognised by the effect / RNG / fan-out rules")
    sg = rules.shared_generators(p)
    if [f.name for f, _, _ in sg] != ["shared_draw"]:
        raise AnalysisError(f"embedded positive example: shared-generator rule found {[f.name for f, _, _ in sg]}, expected ['shared_draw']")
    sm = sorted({f.name for f, _, _ in rules.shared_mutable_state(p)})
    if sm != ["clip", "do_state"]:
        raise AnalysisError(f"embedded positive example: shared-mutable-state rule found {sm}, expected ['clip', 'do_state']")
    chk.ok("self-check", "embedded positive examples: alias mutation, unseeded draw, as_completed, shared generator, class-level container written through an alias all fire", cells=5)


def run(chk):
    prog = chk.prog
    eff = Effects(prog)
    chk.trust("Python grammar via ast", "pandas>=3 copy-on-write: indexing results are new objects",
              "numpy/pandas in-place method names (MUTATORS table in effects.py)",
              "concurrent.futures.Executor.map preserves input order",
              "DataFrame.sample / scipy.cluster.vq.kmeans2 / sklearn PCA draw from the global numpy generator when no state is given")
    chk.assume("library routines are deterministic given their inputs and RNG state")
    embedded_positive(chk)
    d1_immutability(chk, prog, eff)
    d2_rng(chk, prog, eff)
    d3_fanout(chk, prog, eff)
    chk.clause("D3b", "1 worker and N workers compute the same table: the fan-out drivers interpreted for 1 and 3 processes (rules of C09-D5 and C03-D5), the chunker on all small inputs")
    from . import C09, C03
    C09.chunker(chk, prog)
    C09.d5b(chk, prog)
    C09.d5c(chk, prog)
    C03.d5(chk, prog)
    d4_hidden_state(chk, prog, eff)
    d5_ensure_path(chk, prog)
    chk.sample(dict(effects_rounds=eff.rounds, functions=len(eff.sum),
                    functions_with_mutation_summary=sum(1 for s in eff.sum.values() if s.mut)))


MUTANTS = [
    dict(name="twin: reference copies memoised in a module-level table keyed by every argument", expect="silent", edits=[
        ("cnvlib/call.py", "def _reference_copies_pure(chrom, ploidy, is_haploid_x_reference):", "_REF_COPIES_MEMO = {}\n\n\ndef _reference_copies_pure(chrom, ploidy, is_haploid_x_reference):"),
        ("cnvlib/call.py", "    chrom = chrom.lower()\n    if chrom in [\"chry\", \"y\"] or (is_haploid_x_reference and chrom in [\"chrx\", \"x\"]):\n        ref_copies = ploidy // 2\n    else:\n        ref_copies = ploidy\n    return ref_copies\n",
         "    key = (chrom, ploidy, bool(is_haploid_x_reference))\n    if key not in _REF_COPIES_MEMO:\n        name = chrom.lower()\n        if name in [\"chry\", \"y\"] or (is_haploid_x_reference and name in [\"chrx\", \"x\"]):\n            _REF_COPIES_MEMO[key] = ploidy // 2\n        else:\n            _REF_COPIES_MEMO[key] = ploidy\n    return _REF_COPIES_MEMO[key]\n")]),
    dict(name="reference copies memoised in a module-level table keyed without the ploidy", edits=[
        ("cnvlib/call.py", "def _reference_copies_pure(chrom, ploidy, is_haploid_x_reference):", "_REF_COPIES_MEMO = {}\n\n\ndef _reference_copies_pure(chrom, ploidy, is_haploid_x_reference):"),
        ("cnvlib/call.py", "    chrom = chrom.lower()\n    if chrom in [\"chry\", \"y\"] or (is_haploid_x_reference and chrom in [\"chrx\", \"x\"]):\n        ref_copies = ploidy // 2\n    else:\n        ref_copies = ploidy\n    return ref_copies\n",
         "    key = (chrom, bool(is_haploid_x_reference))\n    if key not in _REF_COPIES_MEMO:\n        name = chrom.lower()\n        if name in [\"chry\", \"y\"] or (is_haploid_x_reference and name in [\"chrx\", \"x\"]):\n            _REF_COPIES_MEMO[key] = ploidy // 2\n        else:\n            _REF_COPIES_MEMO[key] = ploidy\n    return _REF_COPIES_MEMO[key]\n")]),
    dict(name="GenomicArray.copy wraps the same table", file="skgenome/gary.py", old="        return self.as_dataframe(self.data.copy())", new="        return self.as_dataframe(self.data)"),
    # (GenomicArray.__init__ copies the metadata mapping itself, so passing it uncopied changes nothing)
    dict(name="twin: as_dataframe passes the metadata dict uncopied", expect="silent", file="skgenome/gary.py", old="        return self.__class__(dframe, self.meta.copy())", new="        return self.__class__(dframe, self.meta)"),
    dict(name="backup name not advanced past existing backups", file="cnvlib/core.py", old="        while os.path.isfile(bak_fname):\n            cnt += 1\n            bak_fname = f\"{fname}.{cnt}\"\n", new=""),
    dict(name="twin: backup search as a for loop over itertools.count", expect="silent", edits=[("cnvlib/core.py", """        cnt = 1
        bak_fname = f"{fname}.{cnt}"
        while os.path.isfile(bak_fname):
            cnt += 1
            bak_fname = f"{fname}.{cnt}"
""", """        for cnt in range(1, 1000000):
            bak_fname = f"{fname}.{cnt}"
            if not os.path.isfile(bak_fname):
                break
""")]),
    dict(name="do_call works on the input (no copy)", file="cnvlib/call.py", old="    outarr = cnarr.copy()\n", new="    outarr = cnarr\n", mention="do_call"),
    dict(name="re-introduce filters.remove on caller's list", file="cnvlib/call.py", old="        filters = list(filters)\n", new="", mention="filters.remove"),
    dict(name="delete seed in center_by_window", file="cnvlib/fix.py", old="    np.random.seed(0xA5EED)\n", new="", mention="center_by_window"),
    dict(name="delete seed in bootstrap", file="cnvlib/segmetrics.py", old="    np.random.seed(0xA5EED)\n", new="", mention="confidence_interval_bootstrap"),
    dict(name="seed only on one branch", file="cnvlib/segmetrics.py", old="    np.random.seed(0xA5EED)\n    rand_indices", new="    if smoothed:\n        np.random.seed(0xA5EED)\n    rand_indices", mention="confidence_interval_bootstrap"),
    dict(name="sample without random_state", file="cnvlib/autobin.py", old="midsize_regions.sample(max_num, random_state=0xA5EED)", new="midsize_regions.sample(max_num)", mention="sample"),
    dict(name="as_completed in segmentation", file="cnvlib/segmentation/__init__.py", old="            rets = list(\n                pool.map(", new="            from concurrent import futures as _f\n            _f.as_completed([])\n            rets = list(\n                pool.map(", mention="as_completed"),
    dict(name="shift_xx mutates self", file="cnvlib/cnary.py", old="        outprobes = self.copy()\n", new="        outprobes = self\n", mention="shift_xx"),
    dict(name="segmetrics on input", file="cnvlib/segmetrics.py", old="    segarr = segarr.copy()\n", new="", mention="do_segmetrics"),
    dict(name="module cache in do_target", file="cnvlib/target.py", old="def do_target(", new="_CACHE = {}\n\n\ndef _remember(k, v):\n    _CACHE.setdefault(k, v)\n    return _CACHE[k]\n\n\ndef do_target(", mention="_CACHE"),
    dict(name="ensure_path renames onto fixed suffix", file="cnvlib/core.py", old="        os.rename(fname, bak_fname)", new="        os.rename(fname, fname + '.1')", mention="ensure_path"),
    dict(name="ensure_path call deleted in _cmd_reference", file="cnvlib/commands.py", old="    core.ensure_path(ref_fname)\n", new="", mention="_cmd_reference"),
    dict(name="tabio.read writes caller meta", file="skgenome/tabio/__init__.py", old="    meta = dict(meta) if meta is not None else {}\n", new="    if meta is None:\n        meta = {}\n", mention="tabio.read"),
    dict(name="SerialPool.map reversed", file="cnvlib/parallel.py", old="        return map(func, iterable)", new="        return map(func, reversed(list(iterable)))", mention="SerialPool"),
    dict(name="twin: copy via as_dataframe", file="cnvlib/call.py", old="    outarr = cnarr.copy()\n", new="    outarr = cnarr.as_dataframe(cnarr.data.copy())\n", expect="silent"),
    dict(name="twin: seed constant changed", file="cnvlib/fix.py", old="    np.random.seed(0xA5EED)\n", new="    np.random.seed(12345)\n", expect="silent"),
]
