"""C14 -- segment filters merge only adjacent like segments and conserve what they merge.
D1 level tables of ci / sem / ampdel / cn, D2 group key (level run + chromosome / arm, allele-specific runs), D3 conservation in
squash_region, D4 ordering of the filters in do_call and the CLI registry, D5 the level vector carries the segments' own index."""
import ast
import itertools
from fractions import Fraction as Fr

from ..abstools import *
from ..absint import CTX
from ..absval import Raised, Closure
from ..core import AnalysisError, own_nodes, norm, parents, stmt_of, dominates
from ..effects import Resolver
from .. import flow

LEVEL_TEXT = ('static analysis: (D1) each filter body is interpreted, through its require_column wrapper, on one representative segment per order'
              ' position of the quantity it tests (ci_lo / ci_hi / log2 -+ 1.96*sem relative to 0; cn relative to 0 and 5) and the level vector '
              'it hands to squash_by_groups must be the stated three-valued one (cn: cn itself); ampdel afterwards keeps exactly cn = 0 or cn >= '
              '5; a missing column raises; (D2) squash_by_groups, interpreted on 2566 literal tables (1-4 rows x levels {0,1,2,4} x every '
              'placement of chromosome boundaries; allele-specific and by-arm variants) with squash_region stubbed, reduces exactly the maximal '
              'runs of consecutive rows equal in level, chromosome (arm) and, when present, cn1 / cn2, in order; (D3) squash_region on a symbolic'
              ' 3-row group: first start, last end, probes = sum (or row count), weight = sum, log2 / depth / baf weight-averaged (plain mean '
              'when the weights sum to 0; a zero-weight member of a run does not switch the weighting off), cn / cn1 = weighted median of the '
              'run, cn2 = cn - cn1, gene = distinct names joined; (D6) do_call interpreted for every ordered list of distinct filters holding at '
              'most one of ci / sem x calling method: ci / sem run before the copy numbers exist, the others afterwards in the order given, each '
              "once, the caller's list unchanged; (D4) the CLI --filter choices are exactly the implemented @require_column functions; (D5) ci / "
              'sem / ampdel / cn interpreted end to end through the real squash_by_groups on literal 6-row tables whose index labels are a '
              'permutation: each merges exactly the runs of its own level (a level vector re-wrapped on a fresh 0..n-1 index is aligned by label '
              'onto the wrong rows); on one-row tables nothing merges and ampdel still keeps only cn = 0 or cn >= 5. D2 includes neighbours that '
              'both lack allelic copy numbers (cn1 = cn2 missing): they share their level; a missing level next to a known one is left '
              'unspecified. D6 includes method `none` (a called table filtered again: the cn-based filters still run), D2 tables left without '
              'rows. D2 has levels that differ by less than one (5, 5.5, 6; a ladder of quarters): every change of level starts a new run. D5 '
              'runs every filter on an empty table. (CLI) the `call` command line(s), through a model of argparse built from the declarations in '
              'commands.py and the real _cmd_ body interpreted with readers, library step and writers stubbed: every --filter, in the order '
              'given, reaches do_call. Decides the run-length grouping on that scope only (longer tables follow the same cumulative-key '
              'construction; no induction is attempted).')
TECHNIQUE = ('abstract interpretation of the filter bodies over order positions; bounded exhaustive interpretation of the grouping on literal '
             'tables; closed forms on symbolic groups; dominance; index-label alignment hazard on literal tables')

SF = "cnvlib.segfilters"


def seg_table(cols):
    n = len(next(iter(cols.values()))) if cols else 2
    rows = []
    for i in range(n):
        r = dict(chromosome="chr1", start=i * 10, end=i * 10 + 10, gene=f"g{i}", log2=Term.sym(f"v{i}"), probes=1, weight=1)
        r.update({k: v[i] for k, v in cols.items()})
        rows.append(r)
    return make_ga("CopyNumArray", rows, {"sample_id": "S"}, index="any")


def run_filter(prog, name, g, result=None):
    model = Model()
    seen = {}

    def squash(it, cnarr, levels, by_arm=False, seen=seen):
        seen["levels"] = list(levels.v) if isinstance(levels, Vec) else levels
        seen["table"] = cnarr
        seen["by_arm"] = by_arm
        return result if result is not None else cnarr
    model.prims[f"{SF}.squash_by_groups"] = squash
    it = Interp(prog, model)
    fi = prog.fn(f"{SF}.{name}")
    out = it.call(Closure(fi.node, {}, fi.mod, fi.qn), [g], {})
    return out, seen


def d1(chk, prog):
    chk.clause("D1", "level tables: ci, sem, ampdel (and its final selection), cn; a missing column raises")
    fi = prog.fn(f"{SF}.ci")
    tb = Table(chk, "filter-levels", "ci: +1 <=> ci_lo > 0, -1 <=> ci_hi < 0, else 0", fi.loc(), fi.qn)
    pairs = [(lo, hi) for lo in (-2, -1, 0, 1, 2) for hi in (-2, -1, 0, 1, 2) if lo <= hi]
    W.reset()
    g = seg_table({"ci_lo": [Fr(p[0]) for p in pairs], "ci_hi": [Fr(p[1]) for p in pairs]})
    r = tb.guard(lambda: run_filter(prog, "ci", g), "ci")
    if r is not None:
        lv = r[1].get("levels")
        for i, (lo, hi) in enumerate(pairs):
            want = 1 if lo > 0 else (-1 if hi < 0 else 0)
            tb.cell(lv is not None and same(lv[i], want), dict(ci_lo=lo, ci_hi=hi, level=repr(lv[i]) if lv else None, want=want))
        tb.cell(r[1].get("table") is g and r[1].get("by_arm") is False, dict(squash_args="(segarr, levels)"))
    tb.done("the ci filter's levels are not (above / below / straddling zero)")

    fi = prog.fn(f"{SF}.sem")
    tb = Table(chk, "filter-levels", "sem: +1 <=> log2 - 1.96 sem > 0, -1 <=> log2 + 1.96 sem < 0, else 0", fi.loc(), fi.qn)
    z = Fr("1.96")
    cases = [(l * s, s) for s in (Fr(1), Fr(1, 4)) for l in (Fr(-5, 2), -z, Fr(-17, 10), Fr(0), Fr(17, 10), z, Fr(5, 2))]
    W.reset()
    g = seg_table({"log2": [c[0] for c in cases], "sem": [c[1] for c in cases]})
    r = tb.guard(lambda: run_filter(prog, "sem", g), "sem")
    if r is not None:
        lv = r[1].get("levels")
        for i, (l, s) in enumerate(cases):
            want = 1 if l - z * s > 0 else (-1 if l + z * s < 0 else 0)
            tb.cell(lv is not None and same(lv[i], want), dict(log2=str(l), sem=str(s), level=repr(lv[i]) if lv else None, want=want))
    tb.done("the sem filter's levels are not log2 -+ 1.96*sem above / below / straddling zero")

    fi = prog.fn(f"{SF}.ampdel")
    tb = Table(chk, "filter-levels", "ampdel: -1 <=> cn = 0, +1 <=> cn >= 5, else 0; then keep cn = 0 or cn >= 5", fi.loc(), fi.qn)
    cns = [0, 1, 2, 4, 5, 6, 9, Fr(1, 2), Fr(9, 2)]            # (a pooled run may carry a fractional copy number: 1/2 is not a deep deletion, 9/2 not an amplification)
    W.reset()
    g = seg_table({"cn": cns})
    merged = seg_table({"cn": cns})
    r = tb.guard(lambda: run_filter(prog, "ampdel", g, result=merged), "ampdel")
    if r is not None:
        lv = r[1].get("levels")
        if lv is not None and not isinstance(lv, (list, tuple)):
            raise AnalysisError(f"C14-D1 ampdel: the levels handed to the squashing step are not an array the model understands ({lv!r})")
        for i, c in enumerate(cns):
            want = -1 if c == 0 else (1 if c >= 5 else 0)
            tb.cell(lv is not None and same(lv[i], want), dict(cn=c, level=repr(lv[i]) if lv else None, want=want))
        keep = r[0].data.cols.get("__keep__")
        kept = [k is True for k in keep.v] if keep is not None else [True] * len(cns)
        for i, c in enumerate(cns):
            tb.cell(kept[i] == (c == 0 or c >= 5), dict(cn=c, kept=kept[i], want=(c == 0 or c >= 5)))
    tb.done("ampdel does not flag / keep exactly the cn = 0 and cn >= 5 runs")

    fi = prog.fn(f"{SF}.cn")
    tb = Table(chk, "filter-levels", "cn: the level is cn itself", fi.loc(), fi.qn)
    W.reset()
    cnv = [Term.sym(f"c{i}", 0, INF, True) for i in range(4)]
    g = seg_table({"cn": cnv})
    r = tb.guard(lambda: run_filter(prog, "cn", g), "cn")
    if r is not None:
        lv = r[1].get("levels")
        tb.cell(lv is not None and len(lv) == 4 and all(same(a, b) for a, b in zip(lv, cnv)), dict(levels=[repr(x) for x in (lv or [])]))
    tb.done("the cn filter does not group by the copy number")

    for name, need in (("ci", "ci_lo"), ("sem", "sem"), ("ampdel", "cn"), ("cn", "cn")):
        W.reset()
        g = seg_table({})
        fi = prog.fn(f"{SF}.{name}")
        try:
            run_filter(prog, name, g)
            chk.violate("filter-levels", f"{fi.qn}::missing column", fi.loc(), f"filter {name} runs on a table without its `{need}` column")
        except Raised as e:
            chk.decide("ValueError" in str(e), "filter-levels", f"{name}: missing `{need}` column raises ValueError", f"{fi.qn}::missing column", fi.loc(), f"raises {e}")
        except Undecided as e:
            raise AnalysisError(f"C14-D1 missing column {name}: {e}")


def literal_segments(chroms, levels, cn1=None, arms=None):
    n = len(levels)
    cols = {"chromosome": list(chroms), "start": [10 * i for i in range(n)], "end": [10 * i + 10 for i in range(n)], "gene": [f"g{i}" for i in range(n)],
            "log2": [Fr(i, 4) for i in range(n)], "probes": [1] * n, "weight": [1] * n, "rowid": list(range(n))}
    if cn1 is not None:
        cols["cn"] = list(levels)
        cols["cn1"] = list(cn1)
        cols["cn2"] = [None if b is None else a - b for a, b in zip(levels, cn1)]
    rows = [{c: v[i] for c, v in cols.items()} for i in range(n)]
    if n == 0:
        df = DF({c: Vec([], aligned=True) for c in cols}, 0)
        df.exact = True
        for v in df.cols.values():
            v.exact = True
        return GA("CopyNumArray", df, 0, {"sample_id": "S", "_arms": None})
    g = make_ga("CopyNumArray", rows, {"sample_id": "S", "_arms": list(arms) if arms else None}, index="any", exact=True)
    return g


def want_groups(chroms, levels, cn1=None, arms=None):
    """maximal runs of consecutive rows equal in chromosome (arm), level (and cn1 / cn2)"""
    key = [(chroms[i], arms[i] if arms else 0, levels[i], cn1[i] if cn1 else 0, (levels[i] - cn1[i]) if cn1 and cn1[i] is not None else 0) for i in range(len(levels))]
    out = []
    for i, k in enumerate(key):
        if out and key[out[-1][-1]] == k:
            out[-1].append(i)
        else:
            out.append([i])
    return out


def d2(chk, prog):
    chk.clause("D2", "squash_by_groups merges exactly the maximal runs of consecutive rows equal in level, chromosome (arm) and, when present, cn1 / cn2 -- literal small tables")
    fi = prog.fn(f"{SF}.squash_by_groups")
    tb = Table(chk, "group-key", "squash_by_groups on literal tables: 1-4 rows x levels {0,1,2,4} x chromosome boundaries; allele-specific and by-arm variants", fi.loc(), fi.qn)
    configs = []
    for n in ((1, 2, 3, 4) if chk.tier != "thorough" else (1, 2, 3, 4, 5)):
        for lv in itertools.product([0, 1, 2, 4], repeat=n):
            for cuts in itertools.product([False, True], repeat=n - 1):
                chroms, c = [], 0
                for i in range(n):
                    if i and cuts[i - 1]:
                        c += 1
                    chroms.append(f"chr{c + 1}")
                configs.append((chroms, list(lv), None, None, False))
    for lv in itertools.product([1, 2], repeat=3):
        for c1 in itertools.product([0, 1], repeat=3):
            configs.append((["chr1"] * 3, list(lv), list(c1), None, False))
    # segments without heterozygous SNPs carry missing allelic copy numbers: neighbours equal in cn and both missing share their level
    # (a missing level next to a known one within one cn run is left out: the property does not say which way it goes)
    for lv, c1 in (([2, 2], [None, None]), ([2, 2, 2], [None, None, None]), ([2, 2, 3, 3], [None, None, None, None]), ([1, 2, 2], [0, None, None]), ([2, 2, 1], [None, None, 1]),
                   ([3, 2, 2, 2, 1], [2, None, None, None, 0])):
        configs.append((["chr1"] * len(lv), lv, c1, None, False))
    for lv in itertools.product([0, 2, 4], repeat=3):
        for arms in ([0, 0, 1], [0, 1, 1], [0, 0, 0]):
            for chroms in (["chr1"] * 3, ["chr1", "chr1", "chr2"]):
                configs.append((chroms, list(lv), None, arms, True))
    # levels that differ by less than one: a merged run's cn is a weighted median, 5.5 for a tie of 5 and 6 (ampdel followed by cn)
    for lv in itertools.product([5, Fr(11, 2), 6], repeat=3):
        configs.append((["chr1"] * 3, list(lv), None, None, False))
    configs.append((["chr1"] * 4, [Fr(1, 4), Fr(1, 2), Fr(3, 4), 1], None, None, False))
    # a table left without rows (ampdel on a sample without amplifications or deep deletions, then cn): nothing to merge, an empty table comes back
    configs.append(([], [], None, None, False))
    configs.append(([], [], [], None, False))
    bad, undecided = [], []
    for chroms, lv, c1, arms, by_arm in configs:
        W.reset()
        g = literal_segments(chroms, lv, c1, arms)
        model = Model()

        def squash_region(it, sub):
            d = DF({"chromosome": Vec([sub.cols["chromosome"].v[0]]), "rows": Vec([tuple(sub.cols["rowid"].v)])}, 1)
            d.exact = True
            return d
        model.prims[f"{SF}.squash_region"] = squash_region

        def by_arm_prim(it, ga):
            a = ga.meta["_arms"]
            ch = ga.data.cols["chromosome"].v
            keys = []
            for k in zip(ch, a):
                if k not in keys:
                    keys.append(k)
            return [(k[0], GA(ga.cls, df_rows(ga.data, [i for i, kk in enumerate(zip(ch, a)) if kk == k]), 0, ga.meta)) for k in keys]
        model.method_prims["by_arm"] = by_arm_prim
        it = Interp(prog, model)
        levels = Vec(list(lv), aligned=True)
        levels.exact = True
        try:
            out = it.run(fi.qn, [g, levels, by_arm])
        except Undecided as u:
            undecided.append(f"{chroms} {lv} cn1={c1} arms={arms}: {u}")
            continue
        except Raised as r:
            bad.append(dict(chromosomes=chroms, levels=lv, cn1=c1, arms=arms, raised=str(r)[:100]))
            continue
        data = out.data if isinstance(out, GA) else out
        if not chroms:
            if not (isinstance(data, DF) and data.n == 0):
                bad.append(dict(chromosomes=chroms, levels=lv, cn1=c1, got=repr(out)[:80], want="an empty table"))
            continue
        got = [list(x) for x in data.cols["rows"].v] if isinstance(data, DF) and "rows" in data.cols else ([[i] for i in data.cols["rowid"].v] if isinstance(data, DF) and "rowid" in data.cols else repr(out))
        want = want_groups(chroms, lv, c1, arms)
        if got != want:
            bad.append(dict(chromosomes=chroms, levels=lv, cn1=c1, arms=arms, got=got, want=want))
    if undecided and not bad:
        raise AnalysisError(f"C14-D2: {len(undecided)} tables undecided, e.g. {undecided[0][:300]}")
    if undecided:
        chk.note(f"C14-D2: {len(undecided)} tables undecided beside {len(bad)} definite counterexamples, e.g. {undecided[0][:200]}")
    tb.cell(not bad, dict(tables=len(configs), counterexamples=bad[:4], n_counterexamples=len(bad)))
    tb.done("squash_by_groups does not merge exactly the runs of consecutive like rows within a chromosome (arm)")


def df_rows(d, idx):
    out = DF({c: Vec([v.v[i] for i in idx], aligned=True) for c, v in d.cols.items()}, len(idx), "subset")
    out.exact = True
    return out


def d3(chk, prog):
    chk.clause("D3", "conservation: squash_region closed forms on a symbolic group")
    fi = prog.fn(f"{SF}.squash_region")
    tb = Table(chk, "conservation", "squash_region on 3 symbolic rows (weights positive / all zero / one zero; with / without probes, cn1)", fi.loc(), fi.qn)
    for wkind, has_probes, has_cn1 in itertools.product(["positive", "zero", "mixed"], [True, False], [True, False]):
        W.reset()
        n = 3
        # the rows of a run are sorted and do not nest (they are segments of one chromosome): s0 < e0 <= s1 < e1 <= s2 < e2, stated as
        # separated intervals, so that "the last end" may equally be written as the largest end (and the first start as the smallest)
        s = [Term.sym(f"s{i}", 100 * i, 100 * i + 40) for i in range(n)]
        e = [Term.sym(f"e{i}", 100 * i + 50, 100 * i + 90) for i in range(n)]
        v = [Term.sym(f"v{i}") for i in range(n)]
        d = [Term.sym(f"d{i}") for i in range(n)]
        b = [Term.sym(f"b{i}") for i in range(n)]
        p = [Term.sym(f"p{i}", 0, INF, True) for i in range(n)]
        if wkind in ("positive", "mixed"):
            w = [Term.sym(f"w{i}", 0, INF, positive=True) for i in range(n)]
            for x in w:
                x.lo = 1e-9
            if wkind == "mixed":
                w[1] = 0                    # one member of the run carries no weight: the others still weight the averages
        else:
            w = [0, 0, 0]
        cols = {"chromosome": Vec(["chr1"] * n), "start": Vec(s), "end": Vec(e), "gene": Vec(["A", "B", "A"]), "log2": Vec(v), "weight": Vec(w), "depth": Vec(d), "baf": Vec(b),
                "cn": Vec([Term.sym(f"c{i}") for i in range(n)]), "p_bintest": Vec([Term.sym(f"q{i}") for i in range(n)])}
        if has_probes:
            cols["probes"] = Vec(p)
        if has_cn1:
            cols["cn1"] = Vec([Term.sym(f"m{i}") for i in range(n)])
            cols["cn2"] = Vec([Term.sym(f"k{i}") for i in range(n)])
        df = DF(cols, n, "any")
        df.exact = True
        model = Model()
        model.prims["cnvlib.descriptives.weighted_median"] = lambda it, a, wts: Term.sym("WMEDIAN[" + ",".join(repr(x) for x in a.v) + "|" + ",".join(repr(x) for x in wts.v) + "]")
        model.ext["np.median"] = lambda it, a, **k: Term.sym("MEDIAN[" + ",".join(repr(x) for x in a.v) + "]")
        captured = {}
        model.ext["pd.DataFrame"] = lambda it, data=None, **k: captured.setdefault("out", data)
        it = Interp(prog, model)
        old = CTX.atoms
        CTX.atoms = lambda dd, op: True
        try:
            out = tb.guard(lambda: it.run(fi.qn, [df]), f"weights {wkind}")
        finally:
            CTX.atoms = old
        if out is None:
            continue
        o = captured.get("out") or {}

        def tot(xs):
            r = Term.const(0)
            for x in xs:
                r = t_add(r, T(x))
            return r

        def avg(xs):
            if wkind != "zero":
                return t_div(tot([t_mul(T(x), T(ww)) for x, ww in zip(xs, w)]), tot(w))
            return t_div(tot(xs), Term.const(n))
        ok = same(o.get("start"), s[0]) and same(o.get("end"), e[2]) and o.get("chromosome") == ["chr1"] and o.get("gene") == "A,B"
        ok = ok and same(o.get("log2"), avg(v)) and same(o.get("depth"), avg(d)) and same(o.get("baf"), avg(b)) and same(o.get("weight"), tot(w))
        ok = ok and (same(o.get("probes"), tot(p)) if has_probes else o.get("probes") == 3)
        def med(prefix):
            vals = ",".join(f"{prefix}{i}" for i in range(n))
            return Term.sym(f"WMEDIAN[{vals}|" + ",".join(repr(x) for x in w) + "]") if wkind != "zero" else Term.sym(f"MEDIAN[{vals}]")
        ok = ok and same(o.get("cn"), med("c"))
        if has_cn1:
            ok = ok and same(o.get("cn1"), med("m")) and same(o.get("cn2"), t_sub(med("c"), med("m")))
        tb.cell(ok, dict(weights=wkind, probes_column=has_probes, cn1=has_cn1, got={k: repr(x)[:80] for k, x in o.items()}))
    tb.done("a merged segment does not conserve (first start, last end, summed probes / weight, weight-averaged log2 / depth / baf, median cn)")


def d4(chk, prog):
    chk.clause("D4", "CLI choices <-> implemented filters (filter ordering: D6)")
    # (the order in which do_call runs the filters is decided by interpretation in D6; an earlier version matched the shape of its two loops)
    # registry
    impl = set()
    for name, f in prog.module(SF).functions.items():
        if any(d.startswith("require_column") for d in f.decorators):
            rets = [norm(r.value) for r in own_nodes(f.node) if isinstance(r, ast.Return)]
            if rets != ["NotImplemented"]:
                impl.add(name)
    cmds = prog.module("cnvlib.commands")
    choices = [ast.literal_eval(k.value) for n in ast.walk(cmds.tree) if isinstance(n, ast.Call) and isinstance(n.func, ast.Attribute) and n.func.attr == "add_argument"
               and any(isinstance(a, ast.Constant) and a.value == "--filter" for a in n.args) for k in n.keywords if k.arg == "choices"]
    chk.floor("--filter options", len(choices), 1)
    for c in choices:
        chk.decide(set(c) == impl, "filter-order", f"CLI --filter choices {sorted(c)} == implemented filters", "cnvlib.commands::--filter choices", "cnvlib/commands.py",
                   f"CLI offers {sorted(c)}, implemented @require_column filters are {sorted(impl)}")


def _one_region(sub):
    cols = {"chromosome": Vec([sub.cols["chromosome"].v[0]]), "rows": Vec([tuple(sub.cols["rowid"].v)])}
    if "cn" in sub.cols:
        cols["cn"] = Vec([sub.cols["cn"].v[0]])
    d = DF(cols, 1)
    d.exact = True
    return d


def d5(chk, prog):
    chk.clause("D5", "filters end to end on literal tables whose index is not 0..n-1: each filter merges exactly the runs of its own level (levels stay attached to their rows)")
    tb = Table(chk, "level-index", "ci / sem / ampdel / cn -> squash_by_groups on literal 6-row tables with permuted index labels (squash_region summarised)", "cnvlib/segfilters.py", f"{SF}::filters")
    n = 6
    chroms = ["chr1"] * 4 + ["chr2"] * 2
    labels = [7, 3, 11, 2, 5, 13]
    cases = {
        # level per row: +1, +1, 0, -1 | -1, -1   (runs: [0,1] [2] [3] | [4,5])
        "ci": dict(cols=dict(ci_lo=[1, 2, -1, -3, -3, -4], ci_hi=[3, 4, 1, -1, -1, -2]), levels=[1, 1, 0, -1, -1, -1]),
        "sem": dict(cols=dict(log2=[5, 6, 1, -5, -6, -7], sem=[1, 1, 1, 1, 1, 1]), levels=[1, 1, 0, -1, -1, -1]),
        # cn: 0, 0, 3, 3 | 5, 7: ampdel levels -1 -1 0 0 | 1 1 ; cn levels: the value itself
        "ampdel": dict(cols=dict(cn=[0, 0, 3, 3, 5, 7]), levels=[-1, -1, 0, 0, 1, 1]),
        "cn": dict(cols=dict(cn=[0, 0, 3, 3, 5, 7]), levels=[0, 0, 3, 3, 5, 7]),
    }
    for name, case in cases.items():
        W.reset()
        fi = prog.fn(f"{SF}.{name}")
        rows = []
        for i in range(n):
            r = dict(chromosome=chroms[i], start=10 * i, end=10 * i + 10, gene=f"g{i}", log2=Fr(i, 4), probes=1, weight=1, rowid=i)
            r.update({k: v[i] for k, v in case["cols"].items()})
            rows.append(r)
        g = make_ga("CopyNumArray", rows, {"sample_id": "S"}, index="any", exact=True, labels=labels)
        model = Model()

        def squash_region(it, sub):
            cols = {"chromosome": Vec([sub.cols["chromosome"].v[0]]), "rows": Vec([tuple(sub.cols["rowid"].v)])}
            if "cn" in sub.cols:
                cols["cn"] = Vec([sub.cols["cn"].v[0]])
            d = DF(cols, 1)
            d.exact = True
            return d
        model.prims[f"{SF}.squash_region"] = squash_region
        it = Interp(prog, model)
        out = tb.guard(lambda: it.call(Closure(fi.node, {}, fi.mod, fi.qn), [g], {}), name)
        if out is None:
            continue
        lv = case["levels"]
        want = want_groups(chroms, lv)
        if name == "ampdel":
            want = [grp for grp in want if case["cols"]["cn"][grp[0]] == 0 or case["cols"]["cn"][grp[0]] >= 5]
        data = out.data if isinstance(out, GA) else out
        got = [list(x) for x in data.cols["rows"].v] if isinstance(data, DF) and "rows" in data.cols else repr(out)[:80]
        tb.cell(got == want, dict(filter=name, index_labels=labels, levels=lv, got=got, want=want))
    # one-row tables (a one-segment input, or a flat chromosome collapsed by an earlier filter): nothing to merge, but ampdel still keeps only cn = 0 or cn >= 5
    for name, cols, want in (("ampdel", dict(cn=[2]), []), ("ampdel", dict(cn=[0]), [[0]]), ("ampdel", dict(cn=[7]), [[0]]), ("cn", dict(cn=[2]), [[0]]), ("ci", dict(ci_lo=[-1], ci_hi=[1]), [[0]]),
                             ("sem", dict(log2=[1], sem=[1]), [[0]])):
        W.reset()
        fi = prog.fn(f"{SF}.{name}")
        r = dict(chromosome="chr1", start=0, end=10, gene="g0", log2=Fr(0), probes=1, weight=1, rowid=0)
        r.update({k: v[0] for k, v in cols.items()})
        g = make_ga("CopyNumArray", [r], {"sample_id": "S"}, index="any", exact=True, labels=[4])
        model = Model()
        model.prims[f"{SF}.squash_region"] = lambda it, sub: _one_region(sub)
        it = Interp(prog, model)
        out = tb.guard(lambda: it.call(Closure(fi.node, {}, fi.mod, fi.qn), [g], {}), f"{name} on one row {cols}")
        if out is None:
            continue
        data = out.data if isinstance(out, GA) else out
        if isinstance(data, DF) and "rows" in data.cols:
            got = [list(x) for x in data.cols["rows"].v]
        elif isinstance(data, DF) and "rowid" in data.cols:
            got = [[x] for x in data.cols["rowid"].v]
        else:
            got = repr(out)[:80]
        tb.cell(got == want, dict(filter=name, one_row=cols, got=got, want=want))
    # a table left without rows (ampdel kept nothing: no cn 0, no cn >= 5), filtered again: every filter hands the empty table back
    for name, colnames in (("cn", ["cn"]), ("ampdel", ["cn"]), ("ci", ["ci_lo", "ci_hi"]), ("sem", ["sem"])):
        W.reset()
        fi = prog.fn(f"{SF}.{name}")
        cols = ["chromosome", "start", "end", "gene", "log2", "probes", "weight", "rowid"] + colnames
        df = DF({c: Vec([], aligned=True) for c in cols}, 0)
        df.exact = True
        for v in df.cols.values():
            v.exact = True
        g = GA("CopyNumArray", df, 0, {"sample_id": "S"})
        model = Model()
        model.prims[f"{SF}.squash_region"] = lambda it, sub: _one_region(sub)
        it = Interp(prog, model)
        try:
            out = it.call(Closure(fi.node, {}, fi.mod, fi.qn), [g], {})
            got = out.data.n if isinstance(out, GA) else repr(out)[:60]
        except Raised as r:
            got = f"raised {r}"
        except Undecided as u:
            tb.undecided.append(f"{name} on an empty table: {u}")
            continue
        tb.cell(got == 0, dict(filter=name, table="no rows", rows_returned=got, want=0))
    tb.done("a filter merges rows that are not a run of its own level (e.g. levels re-attached by position while the table keeps other index labels), or ampdel keeps a lone neutral segment")


def d6(chk, prog):
    chk.clause("D6", "do_call applies the filters asked for: ci / sem first (before calling), the others after calling in the order given, each exactly once")
    fi = prog.fn("cnvlib.call.do_call")
    tb = Table(chk, "level-index", "do_call x every ordered list of distinct filters with at most one of ci / sem: the order in which the filter functions run", fi.loc(), fi.qn + "::filter order")
    names = ("ampdel", "cn", "ci", "sem")
    lists = [()]
    for k in (1, 2, 3):
        lists += [p for p in itertools.permutations(names, k) if not ("ci" in p and "sem" in p)]
    for filters, method in itertools.product(lists, ("threshold", "clonal", "none")):
        W.reset()
        model = Model()

        def stage(tag):
            def f(it, arr, tag=tag):
                return GA(arr.cls, arr.data.copy(), arr.data.n, dict(arr.meta, stages=arr.meta.get("stages", ()) + ((tag, "cn" in arr.data.cols),)))
            return f
        for nm in names:
            model.prims[f"{SF}.{nm}"] = stage(nm)
        for nm in ("absolute_threshold", "absolute_clonal", "absolute_pure"):
            model.prims[f"cnvlib.call.{nm}"] = lambda it, cn, *a, **k: Vec([Term.sym(f"c{i}", 0, INF, True) for i in range(cn.data.n)])
        rows = [dict(chromosome="chr1", start=Term.sym(f"s{i}"), end=Term.sym(f"e{i}"), gene="g", log2=Term.sym(f"v{i}"), probes=5, weight=1) for i in range(2)]
        if method == "none":
            # nothing is called: the table brings its own copy numbers (a .call.cns filtered again)
            for i, r_ in enumerate(rows):
                r_["cn"] = Term.sym(f"c{i}", 0, INF, True)
        g = make_ga("CopyNumArray", rows, {"sample_id": "S"}, index="any", labels=[7, 3])
        given = list(filters)
        it = Interp(prog, model)
        out = tb.guard(lambda: it.run(fi.qn, [g, None, method, 2, None, False, False, None, given]), f"filters={list(filters)} method={method}")
        if out is None:
            continue
        early = [f for f in filters if f in ("ci", "sem")]
        want = [(f, method == "none") for f in early] + [(f, True) for f in filters if f not in early]
        got = list(out.meta.get("stages", ()))
        tb.cell(got == want and given == list(filters), dict(filters=list(filters), method=method, ran=got, want=want, callers_list_after=given))
    tb.done("the filters do not run as asked: ci / sem before the copy numbers are called, the others afterwards in the order given (ampdel before cn drops the neutral pieces first)")


def run(chk):
    prog = chk.prog
    chk.trust("Python grammar via ast", "pandas aligns Series arithmetic and DataFrame.assign by index label; boolean-mask stores on ndarrays (absmodel.py)",
              "np.average = sum(x w)/sum(w)")
    d1(chk, prog)
    d2(chk, prog)
    d3(chk, prog)
    d4(chk, prog)
    d5(chk, prog)
    d6(chk, prog)
    chk.clause("CLI", "the `call` command line: every --filter, in the order given, reaches do_call")
    from .. import cliglue
    cliglue.check_call(chk, prog)


_F = "cnvlib/segfilters.py"
MUTANTS = [
    dict(name="twin: ci levels through nested np.where", expect="silent", file="cnvlib/segfilters.py", old="    levels[segarr[\"ci_lo\"].values > 0] = 1\n    levels[segarr[\"ci_hi\"].values < 0] = -1\n    return squash_by_groups(segarr, pd.Series(levels, index=segarr.data.index))", new="    levels = np.where(segarr[\"ci_lo\"].values > 0, 1.0, np.where(segarr[\"ci_hi\"].values < 0, -1.0, 0.0))\n    return squash_by_groups(segarr, pd.Series(levels, index=segarr.data.index))"),
    dict(name="regress: ci levels on a fresh index", file=_F, old='    levels[segarr["ci_hi"].values < 0] = -1\n    return squash_by_groups(segarr, pd.Series(levels, index=segarr.data.index))', new='    levels[segarr["ci_hi"].values < 0] = -1\n    return squash_by_groups(segarr, pd.Series(levels))'),
    dict(name="ci: >= 0", file=_F, old='    levels[segarr["ci_lo"].values > 0] = 1', new='    levels[segarr["ci_lo"].values >= 0] = 1'),
    dict(name="ci: hi tested for gain", file=_F, old='    levels[segarr["ci_lo"].values > 0] = 1', new='    levels[segarr["ci_hi"].values > 0] = 1'),
    dict(name="sem: z 1.5", file=_F, old="def sem(segarr, zscore=1.96):", new="def sem(segarr, zscore=1.5):"),
    dict(name="sem: loss uses minus margin", file=_F, old='    levels[segarr["log2"] + margin < 0] = -1', new='    levels[segarr["log2"] - margin < 0] = -1'),
    dict(name="ampdel: amplification from 4", file=_F, old='    levels[segarr["cn"] >= 5] = 1', new='    levels[segarr["cn"] >= 4] = 1'),
    dict(name="ampdel: keeps cn > 5", file=_F, old='    return cnarr[(cnarr["cn"] == 0) | (cnarr["cn"] >= 5)]', new='    return cnarr[(cnarr["cn"] == 0) | (cnarr["cn"] > 5)]'),
    dict(name="cn filter groups by log2", file=_F, old='    return squash_by_groups(segarr, segarr["cn"])', new='    return squash_by_groups(segarr, segarr["log2"].round())'),
    # (a breaker while the run index was a truncated sum of magnitudes; with the run index a count of changes the shortcut is exact)
    dict(name="twin since the enumerate_changes repair (was seeded C14c): nothing-to-merge shortcut by the last run index", expect="silent", file=_F, old="    assert change_levels.index.is_unique\n", new="    assert change_levels.index.is_unique\n    if len(levels) and change_levels.iat[-1] == len(levels) - 1:\n        return cnarr\n"),
    dict(name="twin: chromosome ordinal renamed and added out of place", expect="silent", file=_F, old="        change_levels += chrom_col\n", new="        chrom_ordinal = chrom_col\n        change_levels = change_levels + chrom_ordinal\n"),
    dict(name="seeded C14f: weighted summaries only when every member has weight", file=_F, old='    if region_weight > 0:\n        out["log2"] = np.average', new='    if (cnarr["weight"] > 0).all():\n        out["log2"] = np.average'),
    dict(name="seeded C14e: ci hands squash_by_groups a bare array, re-wrapped without the index", edits=[(_F, '    levels[segarr["ci_hi"].values < 0] = -1\n    return squash_by_groups(segarr, pd.Series(levels, index=segarr.data.index))', '    levels[segarr["ci_hi"].values < 0] = -1\n    return squash_by_groups(segarr, levels)'), (_F, "    # Enumerate runs of identical values\n", "    if not isinstance(levels, pd.Series):\n        levels = pd.Series(levels)\n")]),
    dict(name="twin: bare level arrays wrapped on the table's own index inside squash_by_groups", expect="silent", edits=[(_F, '    levels[segarr["ci_hi"].values < 0] = -1\n    return squash_by_groups(segarr, pd.Series(levels, index=segarr.data.index))', '    levels[segarr["ci_hi"].values < 0] = -1\n    return squash_by_groups(segarr, levels)'), (_F, "    # Enumerate runs of identical values\n", "    if not isinstance(levels, pd.Series):\n        levels = pd.Series(levels, index=cnarr.data.index)\n")]),
    # (once listed as a twin; it is not: NaN != NaN, so neighbours that both lack allelic copy numbers never form a run -- seeded C14i is this change)
    dict(name="run index by comparing with the shifted levels (missing levels never form a run)", file=_F, old="    return levels.diff().fillna(0).ne(0).cumsum().astype(int)", new="    changed = levels != levels.shift()\n    changed.iloc[0] = False\n    return changed.cumsum().astype(int)"),
    dict(name="chromosome ordinal dropped", file=_F, old="        change_levels += chrom_col\n", new=""),
    dict(name="allele-specific key dropped", file=_F, old='        groupkey.extend(["_g1", "_g2"])\n', new=""),
    dict(name="regress: run index from the truncated sum of the absolute level differences (steps below 1 are lost)", file=_F, old="    return levels.diff().fillna(0).ne(0).cumsum().astype(int)", new="    return levels.diff().fillna(0).abs().cumsum().astype(int)"),
    dict(name="twin: run index by comparing the differences with zero through != ", expect="silent", file=_F, old="    return levels.diff().fillna(0).ne(0).cumsum().astype(int)", new="    steps = levels.diff().fillna(0)\n    return (steps != 0).cumsum().astype(int)"),
    dict(name="squash end from first row", file=_F, old='        "end": cnarr["end"].iat[-1],', new='        "end": cnarr["end"].iat[0],'),
    dict(name="squash probes mean", file=_F, old='    out["probes"] = cnarr["probes"].sum() if "probes" in cnarr else len(cnarr)', new='    out["probes"] = cnarr["probes"].mean() if "probes" in cnarr else len(cnarr)'),
    dict(name="squash log2 unweighted", file=_F, old='        out["log2"] = np.average(cnarr["log2"], weights=cnarr["weight"])', new='        out["log2"] = np.mean(cnarr["log2"])'),
    dict(name="squash weight mean", file=_F, old='    out["weight"] = region_weight\n', new='    out["weight"] = region_weight / len(cnarr)\n'),
    dict(name="squash cn2 = cn1", file=_F, old='            out["cn2"] = out["cn"] - out["cn1"]', new='            out["cn2"] = out["cn1"]'),
    dict(name="ci applied after calling", file="cnvlib/call.py", old='        for filt in ("ci", "sem"):', new='        for filt in ():'),
    dict(name="CLI offers bic", file="cnvlib/commands.py", old='        "sem",  # \'bic\'\n', new='        "sem",\n        "bic",\n'),
    dict(name="missing-column check removed", file=_F, old="            if any(c not in segarr for c in colnames):\n                raise ValueError(msg.format(filtname, *colnames))\n", new=""),
    dict(name="twin: ci comparison operands swapped", file=_F, old='    levels[segarr["ci_lo"].values > 0] = 1', new='    levels[0 < segarr["ci_lo"].values] = 1', expect="silent"),
    dict(name="twin: sem margin inlined", file=_F, old='    levels[segarr["log2"] - margin > 0] = 1', new='    levels[segarr["log2"] > margin] = 1', expect="silent"),
]
