"""C02 -- threshold calls are a monotone step function of log2; cn1 + cn2 = cn."""
import ast
import itertools
from fractions import Fraction as Fr

from ..abstools import *
from ..core import AnalysisError, own_nodes, norm

LEVEL_TEXT = ('static analysis by abstract interpretation of absolute_threshold / do_call on the real ASTs: (D1) for symbolic strictly increasing'
              ' threshold vectors of length k the extracted function cn(order position of log2) over the 2k+1 positions and NaN, chromosome class'
              " x reference sex x naming x ploidy 1..6, equals 'number of thresholds strictly below log2, rescaled by r/ploidy and truncated when"
              " r != ploidy; ceil(r*2^v) above the last; r for NaN' -- exact for every real log2 because log2 is only compared -- on a table "
              'whose row labels are not positions; the default thresholds are increasing and give 2 at log2 0 on a diploid autosome; (D2) cn1 + '
              'cn2 == cn as a term identity, cn1 is clipped into [0, cn], both are missing exactly where BAF is missing and cn > 0; (D3) one '
              'output slot per input row, no row dropped (row labels may repeat: masked cell stores go through the interpreted '
              'GenomicArray.__setitem__); a table carrying its own baf column gets cn1 / cn2 also without a variants argument. (D1b) do_call '
              'interpreted for method {threshold, clonal, none} x purity {absent, 1, 1/2} with the calling routines stubbed: with the threshold '
              "method cn is what absolute_threshold returns for the caller's thresholds, ploidy and reference flag, on the purity-rescaled log2 "
              'when purity < 1. D2 treats a BAF of exactly 0 or 1 as a value (cn1 = cn, cn2 = 0), not as missing. A threshold comparison made on '
              'transformed values (2**log2 against 2**cut-off) is rejected: it is decided on the reals but recorded as a hazard, because 2**x '
              'collides for neighbouring doubles. absolute_threshold called six times in one interpreter with ploidy / reference sex changing: '
              'each call is the step function for its own arguments (a memo keyed without the ploidy shows). (CLI) the `call` command line(s), '
              'through a model of argparse built from the declarations in commands.py and the real _cmd_ body interpreted with readers, library '
              'step and writers stubbed: -t parsed by csvstring (the default string too), -m and --purity reach do_call as given. Does not decide'
              " where ceil(r*2^log2) crosses integers numerically; threshold vectors with ties are outside the property's quantifier.")
TECHNIQUE = "abstract interpretation with order-position domain (log2 only compared against thresholds) and exact term identities"

THR = "cnvlib.call.absolute_threshold"


def thr_oracle(j, k, r, P, nan):
    if nan:
        return r
    if j == 2 * k:
        return "ceil"
    below = j // 2 if j % 2 == 0 else (j - 1) // 2
    return int(below * r / P) if r != P else below


def d1(chk, prog, ks, ploidies):
    chk.clause("D1", "threshold step function over order positions")
    fi = prog.fn(THR)
    tb = Table(chk, "threshold-step", f"absolute_threshold, k in {list(ks)}", fi.loc(), fi.qn)
    for k in ks:
        for P, hap, style in itertools.product(ploidies, [False, True], ["", "chr"]):
            W.reset()
            it = Interp(prog)
            thr = [OrderVal(f"t{i}", 10 * i, None) for i in range(k)]
            reps = [10 * (j // 2) - 5 if j % 2 == 0 else 10 * (j // 2) for j in range(2 * k + 1)]
            classes = [(c, j, False) for c in ("auto", "x", "y") for j in range(2 * k + 1)] + [(c, 0, True) for c in ("auto", "x", "y")]
            rows = [{"chromosome": chrom(c, style), "log2": OrderVal(f"v{c}{j}{'n' if nan else ''}", reps[j], None, nan=nan)} for c, j, nan in classes]
            # the rows keep labels that are not their positions (a filtered / re-ordered segment table)
            g = make_ga("CopyNumArray", rows, {"_classes": [c for c, _, _ in classes]}, index="any", labels=[3 * i + 5 for i in range(len(rows))][::-1])
            out = tb.guard(lambda: it.run(THR, [g, P, thr, hap]), f"k={k} P={P} hap={hap}")
            if out is None:
                continue
            if not isinstance(out, Vec) or len(out.v) != len(classes):
                tb.cell(False, dict(k=k, ploidy=P, problem="result does not have one slot per input row", got=repr(out)))
                continue
            if W.hazards:
                # "the number of thresholds strictly below log2": the log2 value itself is what is compared; a transformed copy (2**x) collides with the
                # transformed cut-off for the float values next to it, so the call at a boundary changes
                tb.cell(False, dict(k=k, ploidy=P, problem="the threshold comparison is made on transformed values: " + W.hazards[0],
                                    example="log2 = nextafter(0.2, inf) with the default thresholds: 2**log2 == 2**0.2 in double precision, called one level too low"))
                continue
            for (c, j, nan), row, got in zip(classes, rows, out.v):
                r = ref_exp_oracle(c, P, hap, True, None)[0]
                want = thr_oracle(j, k, r, P, nan)
                if want == "ceil":
                    w = f_trunc(f_ceil(t_mul(T(r), f_exp2(row["log2"].sym))))
                    ok = same(got, w)
                    want = "ceil(r*2^v)"
                else:
                    ok = same(got, want)
                tb.cell(ok, dict(k=k, ploidy=P, hap=hap, naming=style or "bare", cls=c, position=j, nan=nan, got=repr(got), want=want))
    # a literal table whose chromosomes are interleaved (rows sorted by something else, concatenated batches): every row is called with its own chromosome's reference copies
    k = 2
    for P, hap in itertools.product([2, 3], [False, True]):
        W.reset()
        it = Interp(prog)
        thr = [OrderVal(f"t{i}", 10 * i, None) for i in range(k)]
        reps = [10 * (j // 2) - 5 if j % 2 == 0 else 10 * (j // 2) for j in range(2 * k + 1)]
        layout = [("auto", "chr1", 4), ("x", "chrX", 4), ("auto", "chr2", 1), ("y", "chrY", 4), ("x", "chrX", 2), ("auto", "chr1", 4), ("y", "chrY", 0), ("auto", "chr2", 3)]
        rows = [{"chromosome": name, "start": 10 * i, "end": 10 * i + 5, "gene": "g", "log2": OrderVal(f"w{i}", reps[j], None)} for i, (c, name, j) in enumerate(layout)]
        g = make_ga("CopyNumArray", rows, {"sample_id": "S"}, index="any", exact=True, labels=[3 * i + 5 for i in range(len(rows))][::-1])
        out = tb.guard(lambda: it.run(THR, [g, P, thr, hap]), f"interleaved chromosomes P={P} hap={hap}")
        if out is None:
            continue
        if not isinstance(out, Vec) or len(out.v) != len(layout):
            tb.cell(False, dict(layout="interleaved chromosomes", ploidy=P, problem="result does not have one slot per input row", got=repr(out)))
            continue
        for (c, name, j), row, got in zip(layout, rows, out.v):
            r = ref_exp_oracle(c, P, hap, True, None)[0]
            want = thr_oracle(j, k, r, P, False)
            ok = same(got, f_trunc(f_ceil(t_mul(T(r), f_exp2(row["log2"].sym))))) if want == "ceil" else same(got, want)
            tb.cell(ok, dict(layout="interleaved chromosomes", ploidy=P, hap=hap, chromosome=name, position=j, got=repr(got), want="ceil(r*2^v)" if want == "ceil" else want))
    tb.done("threshold calling is not the stated step function",
            sample=dict(clause="D1", k=2, positions="<t0, =t0, (t0,t1), =t1, >t1", cn="0,0,1,1,ceil(r*2^v)"))
    # within one process: the call of one table does not depend on the calls made before it (one interpreter, the ploidy / reference sex changing between calls)
    tbh = Table(chk, "threshold-step", "absolute_threshold called repeatedly in one process (ploidy 2, 4, 2 with a male reference, 3, 1, 2; two thresholds): each call is the step function for its own arguments", fi.loc(), fi.qn + "::repeated calls")
    W.reset()
    it = Interp(prog)
    k = 2
    for step, (P, hap) in enumerate([(2, False), (4, False), (2, True), (3, False), (1, False), (2, False)]):
        thr = [OrderVal(f"t{i}", 10 * i, None) for i in range(k)]
        reps = [10 * (j // 2) - 5 if j % 2 == 0 else 10 * (j // 2) for j in range(2 * k + 1)]
        classes = [(c, j, False) for c in ("auto", "x", "y") for j in range(2 * k + 1)] + [(c, 0, True) for c in ("auto", "x", "y")]
        rows = [{"chromosome": chrom(c, "chr"), "log2": OrderVal(f"v{c}{j}{'n' if nan else ''}", reps[j], None, nan=nan)} for c, j, nan in classes]
        g = make_ga("CopyNumArray", rows, {"_classes": [c for c, _, _ in classes]}, index="any")
        out = tbh.guard(lambda: it.run(THR, [g, P, thr, hap]), f"call {step + 1}: P={P} hap={hap}")
        if out is None or not isinstance(out, Vec) or len(out.v) != len(classes):
            continue
        for (c, j, nan), row, got in zip(classes, rows, out.v):
            r = ref_exp_oracle(c, P, hap, True, None)[0]
            want = thr_oracle(j, k, r, P, nan)
            ok = same(got, f_trunc(f_ceil(t_mul(T(r), f_exp2(row["log2"].sym))))) if want == "ceil" else same(got, want)
            tbh.cell(ok, dict(call=step + 1, ploidy=P, hap=hap, cls=c, position=j, nan=nan, got=repr(got), want=want))
    tbh.done("a threshold call depends on the calls made before it in the same process (state kept between calls)")
    # default thresholds
    dc = prog.fn("cnvlib.call.do_call")
    a = dc.node.args
    names = [x.arg for x in a.args]
    defaults = dict(zip(names[len(names) - len(a.defaults):], a.defaults))
    if "thresholds" not in defaults:
        raise AnalysisError("do_call has no default thresholds")
    thr = ast.literal_eval(defaults["thresholds"])
    inc = all(x < y for x, y in zip(thr, thr[1:]))
    chk.decide(inc, "threshold-step", f"default thresholds {thr} strictly increasing (=> cn non-decreasing below the last threshold)",
               "cnvlib.call.do_call::thresholds default", dc.loc(), "default thresholds are not strictly increasing")
    W.reset()
    it = Interp(prog)
    g = make_ga("CopyNumArray", [{"chromosome": "chr1", "log2": OrderVal("zero", Fr(0), None)}], {})
    try:
        out = it.run(THR, [g, 2, list(thr), False])
    except Undecided as e:
        raise AnalysisError(f"default-threshold cell undecided: {e}")
    chk.decide(same(out.v[0], 2), "threshold-step", "default thresholds: cn == 2 at log2 0 on a diploid autosome", "cnvlib.call.do_call::thresholds default",
               dc.loc(), f"cn at log2 0 is {out.v[0]!r}, not 2")
    # above the last threshold the call continues the staircase: ceil(P*2^t_last) >= k  (monotone across the last threshold) for the defaults
    import math
    k = len(thr)
    cont = math.ceil(2 * 2 ** thr[-1]) >= k
    chk.decide(cont, "threshold-step", "default thresholds: ceil(2*2^t_last) >= number of thresholds (no drop across the last threshold)",
               "cnvlib.call.do_call::thresholds default", dc.loc(), "cn would decrease just above the last default threshold")


def d1b(chk, prog):
    chk.clause("D1b", "do_call(method='threshold'): cn comes from absolute_threshold on the caller's thresholds -- on the purity-rescaled log2 when a purity is given")
    fi = prog.fn("cnvlib.call.do_call")
    tb = Table(chk, "threshold-step", "do_call: which routine decides cn (method x purity), its arguments, the log2 it sees", fi.loc(), fi.qn + "::method dispatch")
    n = 3
    for method, purity in itertools.product(["threshold", "clonal", "none"], [None, 1, Fr(1, 2)]):
        W.reset()
        model = par_model()
        seen = {}
        res = {k: [Term.sym(f"{k}{i}", 0, INF, True) for i in range(n)] for k in ("THR", "CLO", "PURE")}
        resc = [Term.sym(f"RESC{i}") for i in range(n)]

        def thr_stub(it, cn, ploidy, thresholds, hap, seen=seen, res=res):
            seen["thr"] = dict(log2=list(cn.data.cols["log2"].v), ploidy=ploidy, thresholds=thresholds, hap=hap)
            return Vec(res["THR"])
        model.prims["cnvlib.call.absolute_threshold"] = thr_stub
        model.prims["cnvlib.call.absolute_clonal"] = lambda it, cn, *a, res=res, **k: Vec(res["CLO"])
        model.prims["cnvlib.call.absolute_pure"] = lambda it, cn, *a, res=res, **k: Vec(res["PURE"])
        model.prims["cnvlib.call.log2_ratios"] = lambda it, cn, *a, resc=resc, **k: Vec(resc)
        it = Interp(prog, model)
        v = [Term.sym(f"v{i}") for i in range(n)]
        rows = [{"chromosome": "chr1", "start": i, "end": i + 1, "gene": "g", "log2": v[i]} for i in range(n)]
        g = make_ga("CopyNumArray", rows, {"_classes": ["auto"] * n, "sample_id": "S"}, index="any")
        thr = ("T0", "T1")
        out = tb.guard(lambda: it.run(fi.qn, [g, None, method, 2, purity, True, False, None, None, thr]), f"method={method} purity={purity}")
        if out is None:
            continue
        rescaled = purity is not None and purity < 1
        c = out.data.cols
        if method == "none":
            ok = "cn" not in c and "thr" not in seen
        elif method == "threshold":
            t = seen.get("thr")
            ok = t is not None and t["thresholds"] is thr and t["ploidy"] == 2 and t["hap"] is True and all(same(a, b) for a, b in zip(t["log2"], resc if rescaled else v)) \
                and "cn" in c and all(same(a, b) for a, b in zip(c["cn"].v, res["THR"]))
        else:
            ok = "thr" not in seen and "cn" in c and all(same(a, b) for a, b in zip(c["cn"].v, res["CLO"] if rescaled else res["PURE"]))
        ok = ok and all(same(a, b) for a, b in zip(c["log2"].v, resc if rescaled else v))
        tb.cell(ok, dict(method=method, purity=str(purity), threshold_call=({k: repr(x) for k, x in seen["thr"].items()} if "thr" in seen else None), cn=repr(c["cn"].v) if "cn" in c else None, log2=repr(c["log2"].v)))
    tb.done("with the threshold method cn is not the threshold step of the (purity-rescaled) log2 under the caller's thresholds")


def _pos_frac(name):
    """a BAF strictly inside (0, 1)"""
    t = Term.sym(name, 0.0, 1.0, positive=True)
    t.lo = 1e-9
    return t


def d2(chk, prog):
    chk.clause("D2", "allelic split: cn1 + cn2 == cn, 0 <= cn1 <= cn, NaN exactly where BAF missing and cn > 0")
    fi = prog.fn("cnvlib.call.do_call")
    tb = Table(chk, "allelic-split", "do_call: cn1/cn2 from baf", fi.loc(), fi.qn + "::cn1/cn2")
    for method, P in itertools.product(["threshold", "clonal"], [2, 3]):
        W.reset()
        it = Interp(prog)
        thr = [OrderVal(f"t{i}", 10 * i, None) for i in range(3)]
        # rows: log2 at position <t0 (cn 0), (t0,t1) (cn 1), (t1,t2) (cn 2)  x  baf in {nan, symbolic}
        # (a BAF of exactly 0 -- or 1 -- is a value, not a missing one: cn1 = cn, cn2 = 0)
        classes = [(j, b) for j in (0, 2, 4) for b in ("nan", "val", "zero", "one")]
        rows = []
        if method == "clonal":
            # cn = round(P*2^v) is >= 0 with unknown sign: the sign of cn is an atom valued per class (j == 0: cn == 0)
            import re

            def atoms(d, op, classes=classes):
                m = re.search(r"exp2\[v(\d+)\]", " ".join(sorted(d.symbols())))
                if not m or not d.d.is_const() or len(d.n.t) != 1:
                    raise Undecided(f"unexpected comparison {d} {type(op).__name__} 0")
                sg = 0 if classes[int(m.group(1))][0] == 0 else 1
                if list(d.n.t.values())[0] < 0:
                    sg = -sg
                return {"Lt": sg < 0, "LtE": sg <= 0, "Gt": sg > 0, "GtE": sg >= 0, "Eq": sg == 0, "NotEq": sg != 0}[type(op).__name__]
            CTX.atoms = atoms
        for i, (j, b) in enumerate(classes):
            if method == "threshold":
                lg = OrderVal(f"v{i}", 10 * (j // 2) - 5, None)
            else:
                lg = Term.sym(f"v{i}")
            rows.append({"chromosome": "chr1", "start": Term.sym("s"), "end": Term.sym("e"), "gene": "g", "log2": lg,
                         "baf": OrderVal(f"b{i}", None, None, nan=True) if b == "nan" else Fr(0) if b == "zero" else Fr(1) if b == "one" else _pos_frac(f"b{i}")})
        # row labels repeat, as in per-chromosome pieces glued together without renumbering
        g = make_ga("CopyNumArray", rows, {"sample_id": "S"}, index="any", labels=[0, 1, 2, 3] * 3)
        try:
            out = tb.guard(lambda: it.run(fi.qn, [g, None, method, P, None, False, False, None, None, thr]), f"method={method}")
        finally:
            CTX.atoms = None
        if out is None:
            continue
        cols = out.data.cols
        if out.data.n != len(rows) or "__keep__" in cols:
            tb.cell(False, dict(method=method, problem="row count changed"))
            continue
        if "cn1" not in cols or "cn2" not in cols:
            tb.cell(False, dict(method=method, problem="a table carrying a baf column gets no cn1 / cn2 columns", columns=[c for c in cols if not c.startswith("__")]))
            continue
        for i, (j, b) in enumerate(classes):
            cn, cn1, cn2 = cols["cn"].v[i], cols["cn1"].v[i], cols["cn2"].v[i]
            cn_pos = None
            if method == "threshold":
                cn_pos = not same(cn, 0)
                tb.cell(same(cn, j // 2), dict(method=method, cls=(j, b), cn=repr(cn), want=j // 2))
            if method == "clonal":
                cn_pos = j != 0
            want_nan = (b == "nan") and cn_pos
            got_nan = cn1 is None and cn2 is None
            tb.cell(got_nan == want_nan and ((cn1 is None) == (cn2 is None)), dict(method=method, cls=(j, b), cn=repr(cn), cn1=repr(cn1), cn2=repr(cn2), want_missing=want_nan))
            if not got_nan and cn1 is not None and cn2 is not None:
                tb.cell(same(t_add(T(cn1), T(cn2)), T(cn)), dict(method=method, cls=(j, b), identity="cn1 + cn2 == cn", cn1=repr(cn1), cn2=repr(cn2), cn=repr(cn)))
                t1 = T(cn1)
                tb.cell(t1.lo >= 0 and provably_le(cn1, cn) and t1.integer,
                        dict(method=method, cls=(j, b), bound="0 <= cn1 <= cn not established: cn1 is not clipped into [0, cn] "
                             "(a purity-rescaled BAF can leave [0, 1], giving cn1 > cn and cn2 < 0)", cn1=repr(cn1), cn=repr(cn)))
    tb.done("allelic copy numbers do not partition cn / are not missing exactly where BAF is missing and cn > 0")


def d3(chk, prog):
    chk.clause("D3", "rescale_baf inverts obs = t*p + n*(1-p)")
    W.reset()
    it = Interp(prog)
    fi = prog.fn("cnvlib.call.rescale_baf")
    p = Term.sym("p", 0.0, 1.0, positive=True)
    t_, n_ = Term.sym("t"), Term.sym("nb")
    obs = t_add(t_mul(t_, p), t_mul(n_, t_sub(Term.const(1), p)))
    try:
        got = it.run(fi.qn, [p, obs, n_])
    except Undecided as e:
        raise AnalysisError(f"rescale_baf undecided: {e}")
    chk.decide(same(got, t_), "allelic-split", "rescale_baf(p, t*p + n*(1-p), n) == t", fi.qn, fi.loc(), f"got {got!r}")
    got = it.run(fi.qn, [p, t_add(t_mul(t_, p), t_mul(Term.const(Fr(1, 2)), t_sub(Term.const(1), p)))])
    chk.decide(same(got, t_), "allelic-split", "rescale_baf default normal BAF is 0.5", fi.qn + "::normal_baf", fi.loc(), f"got {got!r}")


def run(chk):
    prog = chk.prog
    chk.trust("Python grammar via ast", "numpy/pandas element-wise semantics of isnan/ceil/round/clip/fillna/abs and masked stores (absmodel.py)",
              "oracle: Appendix A C02-D1 table")
    chk.assume("log2 enters absolute_threshold only through comparisons with thresholds and the 2**log2 of the overflow branch (enforced by the order-position domain)")
    chk.rule("threshold-step", "interpret absolute_threshold on one representative row per order position of log2 relative to k symbolic increasing thresholds")
    quick = chk.tier == "quick"
    d1(chk, prog, (1, 2, 3, 4) if quick else tuple(range(1, 13)), [1, 2, 3, 4, 5, 6])
    d1b(chk, prog)
    d2(chk, prog)
    d3(chk, prog)
    chk.clause("CLI", "the `call` command line: -t / --thresholds (parsed by csvstring, the default string included), -m and --purity reach do_call as given")
    from .. import cliglue
    cliglue.check_call(chk, prog)


_C = "cnvlib/call.py"
MUTANTS = [
    dict(name="cli: default thresholds no longer a string run through csvstring", file="cnvlib/commands.py", old='    default="-1.1,-0.25,0.2,0.7",', new='    default=(-1.1, -0.25, 0.2),'),
    dict(name="twin: threshold rank by np.searchsorted", expect="silent", file=_C, old="""        cnum = 0
        for cnum, thresh in enumerate(thresholds):
            if row.log2 <= thresh:
                if ref_copies != ploidy:
                    cnum = int(cnum * ref_copies / ploidy)
                break
""", new="""        cnum = int(np.searchsorted(thresholds, row.log2, side="left"))
        if cnum < len(thresholds):
            if ref_copies != ploidy:
                cnum = int(cnum * ref_copies / ploidy)
"""),
    dict(name="seeded C02e: threshold rank by bisect_right", edits=[(_C, '        cnum = 0\n        for cnum, thresh in enumerate(thresholds):\n            if row.log2 <= thresh:\n                if ref_copies != ploidy:\n                    cnum = int(cnum * ref_copies / ploidy)\n                break\n', '        cnum = bisect.bisect(thresholds, row.log2)\n        if cnum < len(thresholds):\n            if ref_copies != ploidy:\n                cnum = int(cnum * ref_copies / ploidy)\n'), (_C, 'import logging\n', 'import bisect\nimport logging\n')]),
    dict(name="twin: threshold rank by bisect_left", expect="silent", edits=[(_C, '        cnum = 0\n        for cnum, thresh in enumerate(thresholds):\n            if row.log2 <= thresh:\n                if ref_copies != ploidy:\n                    cnum = int(cnum * ref_copies / ploidy)\n                break\n', '        cnum = bisect.bisect_left(thresholds, row.log2)\n        if cnum < len(thresholds):\n            if ref_copies != ploidy:\n                cnum = int(cnum * ref_copies / ploidy)\n'), (_C, 'import logging\n', 'import bisect\nimport logging\n')]),
    dict(name="seeded C02f: allelic split gated on the variants argument", file=_C, old='        if "baf" in outarr:\n            # Calculate major', new='        if variants:\n            # Calculate major'),
    dict(name="<= -> < in threshold scan", file=_C, old="            if row.log2 <= thresh:", new="            if row.log2 < thresh:"),
    dict(name="drop haploid rescale", file=_C, old="                    cnum = int(cnum * ref_copies / ploidy)\n", new="                    pass\n"),
    dict(name="ceil -> round above last threshold", file=_C, old="cnum = int(np.ceil(_log2_ratio_to_absolute_pure(row.log2, ref_copies)))", new="cnum = int(np.round(_log2_ratio_to_absolute_pure(row.log2, ref_copies)))"),
    dict(name="NaN fallback uses ploidy", file=_C, old="            absolutes[idx] = ref_copies\n", new="            absolutes[idx] = ploidy\n"),
    dict(name="cn2 = cn1", file=_C, old='outarr["cn2"] = outarr["cn"] - outarr["cn1"]', new='outarr["cn2"] = outarr["cn1"]'),
    dict(name="nan mask without cn > 0", file=_C, old='is_null = outarr["baf"].isnull() & (outarr["cn"] > 0)', new='is_null = outarr["baf"].isnull()'),
    dict(name="only cn1 blanked", file=_C, old='            outarr[is_null, "cn2"] = np.nan\n', new=""),
    dict(name="default thresholds reordered", file=_C, old="thresholds=(-1.1, -0.25, 0.2, 0.7)", new="thresholds=(-1.1, 0.2, -0.25, 0.7)"),
    dict(name="default neutral threshold moved below 0", file=_C, old="thresholds=(-1.1, -0.25, 0.2, 0.7)", new="thresholds=(-1.1, -0.25, -0.05, 0.7)"),
    dict(name="rescale_baf divides by (1-purity)", file=_C, old="tumor_baf = (observed_baf - normal_baf * (1 - purity)) / purity", new="tumor_baf = (observed_baf - normal_baf * (1 - purity)) / (1 - purity)"),
    dict(name="twin: thresh >= row.log2", file=_C, old="            if row.log2 <= thresh:", new="            if thresh >= row.log2:", expect="silent"),
    dict(name="twin: not >", file=_C, old="            if row.log2 <= thresh:", new="            if not row.log2 > thresh:", expect="silent"),
]
