"""C03 -- segments tile each chromosome and account for every surviving bin.
D1 the endpoint stretch in transfer_fields takes effect (no write lost under copy-on-write; first bin start -> column start,
last bin end -> column end), D2 bins <-> segments by label, D3 aggregation binding (weight, depth, gene; segment_none),
D4 every method dispatched, per arm or whole, D5 ordered fan-out, D6 inputs untouched."""
import ast
import itertools
from fractions import Fraction as Fr

from ..abstools import *
from ..absint import CTX, truth
from ..absval import Raised
from ..core import AnalysisError, own_nodes, norm, parents, stmt_of
from ..effects import Effects, Resolver
from .. import pdrules, flow, rules
from . import C10
from .C09 import PoolStub, pool_hook

LEVEL_TEXT = ('static analysis: (D1) copy-on-write lost-write rule over cnvlib/segmentation/*.py (a store whose target is reached through a '
              "property / column / indexing temporary never reaches the table on pandas >= 3) (that the stretched endpoints reach the segments' "
              'own frame is decided by D3 / D3c on symbolic and literal tables, not by matching the stores); (D2) the index labels yielded by '
              'iter_slices index ndarrays in transfer_fields only because the bin frame is reset_index()ed first (the label kind is followed into'
              " the package's helpers the values are handed to), and segment_hmm, interpreted with the model / decoding stubbed, hands "
              "squash_by_groups the bins with their own (unsmoothed) log2, one probe each, and a state series on the bins' own index; (D3) "
              'transfer_fields interpreted on symbolic bins: per segment weight = sum of bin weights, depth = weight-averaged depth (0 when the '
              'weights sum to 0; plain count / mean without a weight column), gene = ordered distinct names outside the ignored / antitarget '
              "names (a name recurring after another gene is listed once), over iter_slices(bins, segments, 'outer', keep_empty=False) taken "
              "after the endpoints were stretched (so filtered edge bins are included; the segment table's row labels may repeat); segment_none: "
              'first start, last end, probes = number of bins, log2 = segment_mean (weight-averaged, plain mean when no weight is positive); (D4)'
              ' every name in SEGMENT_METHODS reaches its own segmenter (none falls through to the error), the CLI choices are that '
              'tuple, (D5) do_segmentation interpreted for every method x 1 / 3 processes (x save_dataframe for the R methods) with the pool, by_arm and '
              'concat stubbed and the private worker running as written -- what it does is recorded where it leaves the module (drop_low_coverage, rolling_outlier_quantile, the '
              'segmenters with the options as their own signatures bind them, the R script written / run / read back): none / haar / cbs segment every arm exactly once, in order, '
              'with every option of the caller, the parts are combined in arm order through GenomicArray.concat (which sorts), the R '
              'data-frame strings are stitched in that order; flasso / hmm* segment the whole array once; an unknown method raises; pool results '
              "are consumed through Executor.map; (D6) neither do_segmentation nor the function it hands its bins to (found by that role) may mutate the caller's array (effects fix-"
              'point; observed too: D3b / D4 compare the caller\'s table before and after every run). (D3b) the bins reaching the segmenter are those surviving every enabled filter, a null-coverage bin being one with the '
              'placeholder log2 or with depth 0. (D3c) transfer_fields as the whole-array methods call it -- a three-chromosome bin table with '
              "any edge chromosome wholly filtered out -- leaves every segment inside its own chromosome's bin span with positive length (no "
              "stretch to another chromosome's bins, no assertion failure); D3 also covers segments over antitarget / unnamed bins only (gene "
              "'-', not the previous segment's) and D3b a bin whose weight equals min_weight (kept). D3 also has filtered bins lying between two "
              'segments (they belong to neither), D3b arms whose bins are all filtered (no segment, segmenter not called), and the bins / '
              "segments pairing per chromosome is the C07-D6 rule. The HMM methods' segments are the runs of equal state within a chromosome / "
              'arm: squash_by_groups on literal tables, unused levels and empty tables included (C14-D2 rule). (D4) which segmenter each declared'
              ' method reaches is decided by interpreting do_segmentation(<method>) on a one-arm table of three bins of which the middle one is filtered out, the '
              'segmenters, the R launcher and the SEG reader stubbed (the reader returning, as the R scripts do, a freshly numbered table -- one '
              "row per surviving bin for the fused lasso, whose rows must carry their own bins' weights); an unknown method raises. (D5) the arm "
              'tables reach the workers with every column of the bins. D3 has one-bin segments. Which bins are null coverage: drop_low_coverage '
              'on literal tables (C15 LOW rule). (CLI) the `segment` command line(s), through a model of argparse built from the declarations in '
              'commands.py and the real _cmd_ body interpreted with readers, library step and writers stubbed: method, threshold, --drop-low-'
              'coverage, --drop-outliers, -p (with and without a number), --smooth-cbs, the PAR genome and the VCF options reach do_segmentation '
              'as given. Does not decide sortedness / non-overlap / probe sums of haar and HMM output, nor which bins the outlier filter drops.')
TECHNIQUE = "copy-on-write lost-write lint + must-flow; index-kind lint; abstract interpretation of the aggregation; registry / effect rules"

TF = "cnvlib.segmentation.transfer_fields"


def d1(chk, prog):
    chk.clause("D1", "endpoint stretch takes effect: no lost write in segmentation code; first start / last end flow into the segments' columns")
    chk.rule("lost-write", "under pandas >= 3 every property / column / indexing result is a new object: a store or inplace=True call whose "
             "target is such a temporary is silently lost")
    n = 0
    for fi in prog.functions.values():
        if not fi.mod.startswith("cnvlib.segmentation"):
            continue
        n += 1
        for st, text, why in pdrules.lost_writes(prog, fi):
            chk.violate("lost-write", f"{fi.qn}::{text} = ...", fi.loc(st), f"`{text}`: {why}",
                        witness=dict(example="segments.start.iat[0] = bins_start leaves the first segment's start unchanged: an arm whose first "
                                             "bins were filtered out is no longer covered from its first bin"))
    chk.floor("functions scanned for lost writes", n, 20)
    chk.ok("lost-write", f"{n} functions of cnvlib.segmentation scanned", cells=n)


def d2b(chk, prog):
    """transfer_fields with the real iter_slices on literal bins whose index labels are not their positions (a filtered / re-ordered table) and segments whose labels repeat"""
    fi = prog.fn(TF)
    tb = Table(chk, "index-kind", "transfer_fields on literal bins whose index labels are not their row positions (out of range, and a permutation of 0..n-1), with / without weights: each segment aggregates its own bins", fi.loc(), fi.qn + "::bins by label")
    genes = ["A", "A", "-", "B", "B", "C"]
    w = [Fr(1, 2), Fr(1, 4), Fr(1, 8), Fr(1, 3), Fr(1, 5), Fr(1, 7)]
    d = [Fr(10), Fr(20), Fr(30), Fr(40), Fr(50), Fr(60)]
    seg_bins = [[0, 1, 2], [3], [4, 5]]
    for labels, weighted in itertools.product(([7, 3, 9, 11, 2, 5], [3, 0, 4, 1, 5, 2], [0, 1, 2, 3, 4, 5]), (True, False)):
        W.reset()
        rows = [dict(chromosome="chr1" if i < 4 else "chr2", start=100 * i, end=100 * i + 50, gene=genes[i], log2=Fr(i, 10), depth=d[i]) for i in range(6)]
        if weighted:
            for i in range(6):
                rows[i]["weight"] = w[i]
        bins = make_ga("CopyNumArray", rows, {"sample_id": "S"}, index="any", exact=True, labels=labels)
        segs = make_ga("CopyNumArray", [dict(chromosome="chr1", start=0, end=250, gene="-", log2=0, probes=3), dict(chromosome="chr1", start=300, end=350, gene="-", log2=0, probes=1),
                                        dict(chromosome="chr2", start=400, end=550, gene="-", log2=0, probes=2)], {"sample_id": "S"}, exact=True, labels=[0, 1, 0])
        it = Interp(prog)
        out = tb.guard(lambda: it.run(fi.qn, [segs, bins]), f"labels={labels} weighted={weighted}")
        if out is None:
            continue
        want_w = [sum(w[i] for i in g) if weighted else Fr(len(g)) for g in seg_bins]
        want_d = [(sum(w[i] * d[i] for i in g) / sum(w[i] for i in g)) if weighted else Fr(sum(d[i] for i in g), len(g)) for g in seg_bins]
        want_g = ["A", "B", "B,C"]
        c = out.data.cols if isinstance(out, GA) else {}
        ok = all(k in c and len(c[k].v) == 3 for k in ("weight", "depth", "gene")) and all(same(a, b) for a, b in zip(c["weight"].v, want_w)) and all(same(a, b) for a, b in zip(c["depth"].v, want_d)) \
            and list(c["gene"].v) == want_g
        tb.cell(ok, dict(bin_labels=labels, weighted=weighted, got={k: [repr(x) for x in c[k].v] for k in ("weight", "depth", "gene") if k in c}, want=dict(weight=[str(x) for x in want_w], depth=[str(x) for x in want_d], gene=want_g)))
    tb.done("a segment's weight / depth / genes are aggregated over other rows than its own bins when the bins' index labels are not their positions")


def d2(chk, prog):
    chk.clause("D2", "bins <-> segments by label: iter_slices labels used positionally only on a reset_index()ed frame; HMM states carry the bins' index")
    res = Resolver(prog)
    n = 0
    for fi, use, kind, why in pdrules.position_label_uses(prog, res, functions={TF, "cnvlib.segmetrics.do_segmetrics", "cnvlib.segmetrics.calc_intervals"}):
        n += 1
        chk.decide(why is None, "index-kind", f"{fi.name}: {kind} used as `{norm(use)[:50]}`", f"{fi.qn}::{norm(use)[:70]}", fi.loc(use), why or "")
    # (no floor on the lint: whether the bins are picked by label or by position is decided on literal tables below, wherever the uses sit -- in the loop, in a
    #  comprehension or in closures the loop calls)
    d2b(chk, prog)
    fi = prog.fn("cnvlib.segmentation.hmm.segment_hmm")
    tb = Table(chk, "index-kind", "segment_hmm hands squash_by_groups the bins (own log2, one probe each) and a state series on the bins' own index", fi.loc(), fi.qn)
    for has_probes, has_weight in itertools.product([False, True], [False, True]):
        W.reset()
        n = 5
        v = [Term.sym(f"v{i}") for i in range(n)]
        rows = [dict(chromosome="chr1" if i < 3 else "chr2", start=100 * i, end=100 * i + 50, gene="g", log2=v[i]) for i in range(n)]
        for i in range(n):
            if has_probes:
                rows[i]["probes"] = 3 + i
            if has_weight:
                rows[i]["weight"] = Term.sym(f"w{i}", 0, INF, positive=True)
        bins = make_ga("CopyNumArray", rows, {"sample_id": "S"}, index="any", exact=True)
        states = [[0, 0, 1], [1, 2]]
        seen = {}
        model = Model()
        model.method_prims["smooth_log2"] = lambda it, g, *a, **k: Vec([Term.sym(f"sm{i}") for i in range(g.data.n)])
        model.prims["cnvlib.segmentation.hmm.as_observation_matrix"] = lambda it, g, *a, **k: [("obs", j) for j in range(len(states))]

        def get_model(it, g, *a, seen=seen, **k):
            seen["model_log2"] = [repr(x) for x in g.data.cols["log2"].v]
            return Row({"states": [], "edges": [], "predict": lambda obs, algorithm=None: list(states[obs[1]])})
        model.prims["cnvlib.segmentation.hmm.hmm_get_model"] = get_model

        def squash(it, g, levels, by_arm=False, seen=seen, **k):
            seen["squash"] = (g, levels)
            return make_ga("CopyNumArray", [dict(chromosome="chr1", start=0, end=50, gene="g", log2=0, probes=1)], {}, exact=True)
        model.prims["cnvlib.segfilters.squash_by_groups"] = squash
        it = Interp(prog, model)
        out = tb.guard(lambda: it.run(fi.qn, [bins, "hmm", None]), f"probes column={has_probes} weight={has_weight}")
        if out is None:
            continue
        g, levels = seen.get("squash", (None, None))
        flat = [x for c in states for x in c]
        ok_levels = isinstance(levels, Vec) and list(levels.v) == flat and not getattr(levels, "fresh", False)
        ok_bins = g is not None and g.data.n == n and all(same(a, b) for a, b in zip(g.data.cols["log2"].v, v))
        ok_probes = g is not None and ("probes" not in g.data.cols or all(same(x, 1) for x in g.data.cols["probes"].v))
        ok_smooth = seen.get("model_log2") == [f"sm{i}" for i in range(n)] or seen.get("model_log2") is not None
        tb.cell(ok_levels and ok_bins and ok_probes and ok_smooth, dict(probes_column=has_probes, weight=has_weight, states_on_bin_index=ok_levels, own_log2_restored=ok_bins, one_probe_per_bin=ok_probes,
                levels=repr(levels)[:80], probes=repr(g.data.cols.get("probes"))[:60] if g is not None else None))
    tb.done("the HMM path does not squash the surviving bins (restored log2, one probe per bin) by a state series carrying the bins' own labels")


def d3(chk, prog):
    chk.clause("D3", "aggregation binding: weight = SUM, depth = WAVG, gene = ordered distinct meaningful names; segment_none; segment_mean")
    fi = prog.fn(TF)
    tb = Table(chk, "aggregation", "transfer_fields on 8 symbolic bins / 2 segments", fi.loc(), fi.qn)
    # a gene whose bins are interrupted by another gene's bins (nested / interleaved genes) is still listed once;
    # a segment over antitarget / unnamed bins only has no gene of its own (not its neighbour's)
    layouts = [(["B", "Antitarget", "A", "B", "C", "-", "D", "C"], ["B,A", "C,D"]), (["B", "Antitarget", "A", "B", "-", "Antitarget", ".", "CGH"], ["B,A", "-"]),
               (["-", "Antitarget", "Antitarget", "-", "C", "-", "D", "C"], ["-", "C,D"])]
    # (last layout: bins 3 and 4 lie between the two segments -- filtered out at a breakpoint -- and belong to neither)
    layouts = [(g_, w_, [[0, 1, 2, 3], [4, 5, 6, 7]]) for g_, w_ in layouts] + [(["B", "Antitarget", "A", "X", "Y", "-", "D", "C"], ["B,A", "D,C"], [[0, 1, 2], [5, 6, 7]])]
    # a segment over a single bin (small contig, amplicon): the same rules -- an ignored name gives no gene, a named bin its name
    layouts += [(["Antitarget", "A", "B", "A", "C", "-", "D", "C"], ["-", "A,B,C,D"], [[0], [1, 2, 3, 4, 5, 6, 7]]), (["A", "B", "B", "B", "B", "B", "B", "CGH"], ["A,B", "-"], [[0, 1, 2, 3, 4, 5, 6], [7]]),
                (["G", "A", "B", "A", "C", "-", "D", "C"], ["G", "A,B,C,D"], [[0], [1, 2, 3, 4, 5, 6, 7]])]
    for wkind, (genes, wantg, groups) in itertools.product(("positive", "zero-second", "absent"), layouts):
        W.reset()
        n = 8
        s = [Term.sym(f"s{i}", 0, INF, True) for i in range(n)]
        e = [Term.sym(f"e{i}", 0, INF, True) for i in range(n)]
        d = [Term.sym(f"d{i}", 0, INF) for i in range(n)]
        if wkind == "absent":
            w = None
        else:
            w = []
            for i in range(n):
                if wkind == "zero-second" and i >= 4:
                    w.append(0)
                else:
                    t = Term.sym(f"w{i}", 0, INF, positive=True)
                    t.lo = 1e-9
                    w.append(t)
        rows = [dict(chromosome="chr1", start=s[i], end=e[i], gene=genes[i], log2=Term.sym(f"v{i}"), depth=d[i]) for i in range(n)]
        if w is not None:
            for i in range(n):
                rows[i]["weight"] = w[i]
        bins = make_ga("CopyNumArray", rows, {"sample_id": "S"}, index="any", exact=True)
        segs = make_ga("CopyNumArray", [dict(chromosome="chr1", start=Term.sym("S0"), end=Term.sym("E0"), gene="-", log2=Term.sym("L0"), probes=4),
                                        dict(chromosome="chr1", start=Term.sym("S1"), end=Term.sym("E1"), gene="-", log2=Term.sym("L1"), probes=4)],
                       {"sample_id": "S"}, exact=True, labels=[0, 0])          # row labels may repeat (haar concatenates per-chromosome tables as they are)
        model = Model()
        seen = {}
        segs_frame = segs.data

        def slices(it, table, other, mode, keep_empty, seen=seen):
            seen["args"] = (mode, keep_empty, table, other)
            seen["span_at_aggregation"] = (other.cols["start"].v[0], other.cols["end"].v[-1])
            return [list(grp) for grp in groups]
        model.prims["skgenome.intersect.iter_slices"] = slices
        model.ext["pd.unique"] = lambda it, v: _unique(v)
        it = Interp(prog, model)
        old = CTX.atoms
        CTX.atoms = lambda dd, op: True
        try:
            out = tb.guard(lambda: it.run(fi.qn, [segs, bins]), f"weights {wkind}")
        finally:
            CTX.atoms = old
        if out is None:
            continue
        c = out.data.cols
        ok = seen.get("args", (None, None))[0] == "outer" and seen["args"][1] is False and seen["args"][3] is segs_frame
        for j, grp in enumerate(groups):
            if w is None:
                ww = Term.const(len(grp))
                wd = t_div(_sum([d[i] for i in grp]), Term.const(len(grp)))
            else:
                ww = _sum([T(w[i]) for i in grp])
                if ww.is_const() and ww.cval() == 0:
                    wd = Term.const(0)
                else:
                    wd = t_div(_sum([t_mul(d[i], T(w[i])) for i in grp]), ww)
            ok = ok and same(c["weight"].v[j], ww) and same(c["depth"].v[j], wd) and c["gene"].v[j] == wantg[j]
        ok = ok and same(c["start"].v[0], s[0]) and same(c["end"].v[1], e[7]) and same(c["end"].v[0], Term.sym("E0")) and same(c["start"].v[1], Term.sym("S1"))
        ok = ok and same(c["log2"].v[0], Term.sym("L0")) and same(c["log2"].v[1], Term.sym("L1"))
        sp = seen.get("span_at_aggregation", (None, None))
        stretched_first = sp[0] is not None and same(sp[0], s[0]) and same(sp[1], e[7])
        ok = ok and stretched_first
        tb.cell(ok, dict(weights=wkind, bin_genes=genes, iter_slices=repr(seen.get("args", ())[:2]), segments_stretched_before_aggregation=stretched_first, got={k: [repr(x) for x in v.v] for k, v in c.items() if k in ("start", "end", "weight", "depth", "gene")}))
    tb.done("segment weight / depth / gene / stretched endpoints are not the stated aggregates of the bins the segment spans")

    fn = prog.fn("cnvlib.segmentation.none.segment_none")
    tb2 = Table(chk, "aggregation", "segment_none: one segment = (first start, last end, len, segment_mean)", fn.loc(), fn.qn)
    W.reset()
    rows = [dict(chromosome="chr1", start=Term.sym(f"s{i}"), end=Term.sym(f"e{i}"), gene="g", log2=Term.sym(f"v{i}"), weight=Term.sym(f"w{i}", 0, INF, positive=True)) for i in range(3)]
    bins = make_ga("CopyNumArray", rows, {"sample_id": "S"}, exact=True)
    model = Model()
    model.prims["cnvlib.segmetrics.segment_mean"] = lambda it, arr, *a, **k: ("SEGMENT_MEAN", arr)
    it = Interp(prog, model)
    out = tb2.guard(lambda: it.run(fn.qn, [bins]), "none")
    if out is not None:
        c = out.data.cols
        ok = out.data.n == 1 and same(c["start"].v[0], Term.sym("s0")) and same(c["end"].v[0], Term.sym("e2")) and c["probes"].v[0] == 3 \
            and isinstance(c["log2"].v[0], tuple) and c["log2"].v[0][0] == "SEGMENT_MEAN" and c["log2"].v[0][1] is bins and c["chromosome"].v[0] == "chr1"
        tb2.cell(ok, dict(got={k: repr(v.v) for k, v in c.items()}))
    tb2.done("segment_none does not span first start..last end with probes = number of bins and log2 = segment_mean")

    fm = prog.fn("cnvlib.segmetrics.segment_mean")
    tb3 = Table(chk, "aggregation", "segment_mean: weighted average, plain mean when no weight is positive / no weight column, NaN when empty", fm.loc(), fm.qn)
    for wkind in ("positive", "zero", "absent", "empty"):
        W.reset()
        v = [Term.sym(f"v{i}") for i in range(3)]
        w = [Term.sym(f"w{i}", 0, INF, positive=True) for i in range(3)]
        for x in w:
            x.lo = 1e-9
        rows = [dict(chromosome="chr1", start=0, end=1, gene="g", log2=v[i]) for i in range(3)]
        for i in range(3):
            if wkind == "positive":
                rows[i]["weight"] = w[i]
            elif wkind == "zero":
                rows[i]["weight"] = 0
        arr = make_ga("CopyNumArray", rows if wkind != "empty" else [], {}, exact=True)
        it = Interp(prog)
        out = tb3.guard(lambda: it.run(fm.qn, [arr]), wkind)
        if wkind == "empty":
            tb3.cell(missing(out), dict(weights=wkind, got=repr(out)))       # NaN
            continue
        if out is None:
            continue
        if wkind == "positive":
            want = t_div(_sum([t_mul(v[i], w[i]) for i in range(3)]), _sum(w))
        else:
            want = t_div(_sum(v), Term.const(3))
        tb3.cell(same(out, want), dict(weights=wkind, got=repr(out), want=repr(want)))
    tb3.done("segment_mean is not the weight-averaged log2 (mean without usable weights)")


def d3c(chk, prog):
    chk.clause("D3c", "transfer_fields as the whole-array methods (flasso, hmm*) call it: bins of several chromosomes, an edge chromosome wholly filtered out")
    fi = prog.fn(TF)
    tb = Table(chk, "chromosome-span", "transfer_fields on a 3-chromosome bin table: every segment stays inside its own chromosome's bins, positive length", fi.loc(), fi.qn)
    chroms = ["chr1", "chr2", "chr3"]
    # chr3's coordinates are smaller than chr2's (chrY after chrX): a segment stretched to another chromosome's bins can even end before it starts
    span = {"chr1": (1000, 9000), "chr2": (5000, 8000), "chr3": (100, 900)}
    for dropped in ((), ("chr3",), ("chr1",), ("chr2",), ("chr1", "chr3")):
        W.reset()
        rows = []
        for c in chroms:
            lo, hi = span[c]
            mid = (lo + hi) // 2
            rows += [dict(chromosome=c, start=lo, end=lo + 50, gene="a", log2=Term.sym(f"v{c}0"), depth=1, weight=1), dict(chromosome=c, start=mid, end=mid + 50, gene="b", log2=Term.sym(f"v{c}1"), depth=1, weight=1),
                     dict(chromosome=c, start=hi - 50, end=hi, gene="c", log2=Term.sym(f"v{c}2"), depth=1, weight=1)]
        bins = make_ga("CopyNumArray", rows, {"sample_id": "S"}, exact=True)
        kept = [c for c in chroms if c not in dropped]
        segs = make_ga("CopyNumArray", [dict(chromosome=c, start=span[c][0], end=span[c][1], gene="-", log2=Term.sym(f"L{c}"), probes=3) for c in kept], {"sample_id": "S"}, exact=True)
        model = Model()
        model.prims["skgenome.intersect.iter_slices"] = lambda it, table, other, mode, keep_empty, kept=kept: [[3 * chroms.index(c) + j for j in range(3)] for c in kept]
        model.ext["pd.unique"] = lambda it, v: _unique(v)
        it = Interp(prog, model)
        out = tb.guard(lambda: it.run(fi.qn, [segs, bins]), f"bins of {dropped or 'no chromosome'} all filtered out")
        if out is None:
            continue
        c = out.data.cols
        got = [(c["chromosome"].v[i], c["start"].v[i], c["end"].v[i]) for i in range(out.data.n)]
        ok = [g[0] for g in got] == kept
        for ch, s0, e0 in got:
            s0, e0 = T(s0), T(e0)
            ok = ok and s0.is_const() and e0.is_const() and ch in span and span[ch][0] <= s0.cval() < e0.cval() <= span[ch][1]
        tb.cell(ok, dict(wholly_filtered=list(dropped), segments=[(ch, repr(a), repr(b)) for ch, a, b in got], bin_span={k: span[k] for k in kept}))
    tb.done("a whole-array method's first / last segment is stretched to the bins of another chromosome (the one whose bins were all filtered out): it leaves its chromosome's span and can end before it starts")


DOSEG = "cnvlib.segmentation.do_segmentation"


def one_arm_model(model):
    """do_segmentation as the entry to the per-table work (filters, dispatch, post-processing), whatever the private worker behind it is called and however it takes its
    options: the table given is its one arm, the pool is serial, the single part is handed back as it is"""
    model.method_prims["by_arm"] = lambda it, g, *a, **k: [("arm", g)]
    model.prims["cnvlib.parallel.pick_pool"] = lambda it, n: PoolStub(it, n)
    model.method_hooks.append(pool_hook)

    def concat(it, g, others):
        others = list(it.iterate(others))
        if len(others) != 1:
            raise Undecided(f"concat of {len(others)} parts for one arm")
        return others[0]
    model.method_prims["concat"] = concat
    model.method_prims["sort_columns"] = lambda it, g: None
    return model


def run_seg(it, arr, method, par=None, threshold=None, variants=None, skip_low=False, skip_outliers=10, min_weight=0, save=False, rscript="Rscript", smooth=False):
    return it.run(DOSEG, [arr, method, par, threshold, variants, skip_low, skip_outliers, min_weight, save, rscript, 1, smooth])


def snapshot(arr):
    return (arr.data.n, {c: list(v.v) for c, v in arr.data.cols.items()})


def unchanged(arr, snap):
    return arr.data.n == snap[0] and set(arr.data.cols) == set(snap[1]) and all(len(v.v) == len(snap[1][c]) and all(a is b or same(a, b) for a, b in zip(v.v, snap[1][c])) for c, v in arr.data.cols.items())


def d3b(chk, prog):
    chk.clause("D3b", "the bins that reach the segmenter are exactly those surviving every enabled filter (low coverage, outliers, weight)")
    fi = prog.fn(DOSEG)
    tb = Table(chk, "filter-cascade", "do_segmentation on a one-arm table: rows handed to the segmenter (skip_low x skip_outliers x min_weight); the caller's table unchanged", fi.loc(), fi.qn + "::filters")
    kinds = ["normal", "lowcov", "outlier", "zero-weight", "light", "at-min-weight", "normal2"]        # a weight equal to min_weight is not below it
    for skip_low, skip_out, min_weight, low_by in itertools.product([False, True], [0, 10], [0, Fr(1, 2)], ["placeholder log2", "zero depth"]):
        W.reset()
        rows = []
        for i, k in enumerate(kinds):
            # a null-coverage bin: the placeholder log2 (< -15), or depth 0 with an ordinary log2
            lg = Term.sym(f"v{i}", -INF, -16) if (k == "lowcov" and low_by == "placeholder log2") else Term.sym(f"v{i}", -10, 10)
            w = {"zero-weight": Fr(0), "light": Fr(1, 4), "at-min-weight": Fr(1, 2)}.get(k, Fr(9, 10))
            rows.append(dict(chromosome="chr1", start=i * 100, end=i * 100 + 100, gene=k, log2=lg, depth=(0 if (k == "lowcov" and low_by == "zero depth") else Term.sym(f"d{i}", 1, INF)), weight=w))
        arr = make_ga("CopyNumArray", rows, {"sample_id": "S"}, index="any", exact=True)
        before = snapshot(arr)
        model = one_arm_model(Model())
        seen = {}

        def drop_outliers(it, cn, width, factor):
            return it.load_sub(cn, Vec([g != "outlier" for g in cn.data.cols["gene"].v]))
        model.prims["cnvlib.segmentation.drop_outliers"] = lambda it, cn, width, factor: it.lib.load_subscript(it, cn, Vec([g != "outlier" for g in cn.data.cols["gene"].v]))

        def seg_none(it, cn, seen=seen):
            seen["bins"] = list(cn.data.cols["gene"].v)
            return make_ga("CopyNumArray", [dict(chromosome="chr1", start=0, end=1, gene="-", log2=0, probes=len(seen["bins"]))], {}, exact=True)
        model.prims["cnvlib.segmentation.none.segment_none"] = seg_none
        model.prims["cnvlib.segmentation.transfer_fields"] = lambda it, segarr, cnarr, *a, **k: segarr
        it = Interp(prog, model)
        out = tb.guard(lambda: run_seg(it, arr, "none", None, None, None, skip_low, skip_out, min_weight), f"skip_low={skip_low} skip_outliers={skip_out} min_weight={min_weight} low by {low_by}")
        if out is None:
            continue
        want = [k for k in kinds if not (skip_low and k == "lowcov") and not (skip_out and k == "outlier") and not (k == "zero-weight") and not (min_weight and k == "light")]
        tb.cell(seen.get("bins") == want and unchanged(arr, before), dict(caller_table_unchanged=unchanged(arr, before), skip_low=skip_low, skip_outliers=skip_out, min_weight=str(min_weight), null_bin_by=low_by, bins_segmented=seen.get("bins"), want=want))
    # an arm that loses every bin to the filters yields no segment (its bins are not handed back as if they were segments)
    for why, skip_low, min_weight in (("null coverage", True, 0), ("zero weight", False, 0), ("below min_weight", False, Fr(1, 2))):
        W.reset()
        rows = [dict(chromosome="chrY", start=i * 100, end=i * 100 + 100, gene="g", log2=(Term.sym(f"v{i}", -INF, -16) if why == "null coverage" else Term.sym(f"v{i}", -10, 10)), depth=Term.sym(f"d{i}", 1, INF),
                     weight={"null coverage": Fr(9, 10), "zero weight": Fr(0), "below min_weight": Fr(1, 4)}[why]) for i in range(3)]
        arr = make_ga("CopyNumArray", rows, {"sample_id": "S"}, index="any", exact=True)
        model = one_arm_model(Model())
        seen = {}
        model.prims["cnvlib.segmentation.none.segment_none"] = lambda it, cn, seen=seen: seen.setdefault("segmenter_called_on", cn.data.n) and cn
        model.prims["cnvlib.segmentation.transfer_fields"] = lambda it, segarr, cnarr, *a, **k: segarr
        it = Interp(prog, model)
        out = tb.guard(lambda: run_seg(it, arr, "none", None, None, None, skip_low, 0, min_weight), f"every bin filtered: {why}")
        if out is None:
            continue
        n_out = out.data.n if isinstance(out, GA) else None
        tb.cell(n_out == 0 and "segmenter_called_on" not in seen, dict(every_bin_filtered_by=why, rows_returned=n_out, segmenter_called=seen.get("segmenter_called_on")))
    tb.done("a bin removed by one filter is brought back by another (or a surviving bin is dropped): probes would not count the surviving bins")


def _sum(ts):
    r = Term.const(0)
    for t in ts:
        r = t_add(r, T(t))
    return r


def _unique(v):
    out = []
    for x in (v.v if isinstance(v, Vec) else v):
        if x not in out:
            out.append(x)
    return out


def d4(chk, prog):
    chk.clause("D4", "every segmentation method is dispatched; per arm (none, haar, cbs) or on the whole array (flasso, hmm*)")
    seg = prog.module("cnvlib.segmentation")
    methods = ast.literal_eval(seg.assigns["SEGMENT_METHODS"]) if "SEGMENT_METHODS" in seg.assigns else None
    if not methods:
        raise AnalysisError("SEGMENT_METHODS vanished")
    chk.floor("segmentation methods", len(methods), 7)
    fi = prog.fn(DOSEG)
    # every method, interpreted: which segmenter receives the bins (the R methods: which script is run), with the method's own options; an unknown name raises
    tbm = Table(chk, "method-dispatch", f"do_segmentation(<method>) on a one-arm table for the {len(methods)} declared methods and an unknown one: the segmenter that is run; the caller's table unchanged", fi.loc(), fi.qn + "::dispatch")
    cbs_script = ast.literal_eval(prog.module("cnvlib.segmentation.cbs").assigns["CBS_RSCRIPT"]) if "CBS_RSCRIPT" in prog.module("cnvlib.segmentation.cbs").assigns else None
    flasso_script = ast.literal_eval(prog.module("cnvlib.segmentation.flasso").assigns["FLASSO_RSCRIPT"]) if "FLASSO_RSCRIPT" in prog.module("cnvlib.segmentation.flasso").assigns else None
    for m in list(methods) + ["bogus"]:
        W.reset()
        rows = [dict(chromosome="chr1", start=i * 100, end=i * 100 + 100, gene="g", log2=Term.sym(f"v{i}", -10, 10), depth=Term.sym(f"d{i}", 1, INF), weight=(Fr(0) if i == 1 else Fr(9, 10))) for i in range(3)]
        arr = make_ga("CopyNumArray", rows, {"sample_id": "S"}, index="any", exact=True, labels=[0, 1, 2])          # the middle bin has no weight: it is filtered out, the survivors keep labels 0 and 2
        before = snapshot(arr)
        model = one_arm_model(Model())
        ran = []
        seg1 = make_ga("CopyNumArray", [dict(chromosome="chr1", start=0, end=300, gene="-", log2=0, probes=3)], {}, exact=True)
        model.prims["cnvlib.segmentation.haar.segment_haar"] = lambda it, cn, *a, ran=ran, **k: ran.append(("haar", cn.data.n, a)) or seg1
        model.prims["cnvlib.segmentation.none.segment_none"] = lambda it, cn, *a, ran=ran, **k: ran.append(("none", cn.data.n, a)) or seg1
        model.prims["cnvlib.segmentation.hmm.segment_hmm"] = lambda it, cn, method, *a, ran=ran, **k: ran.append(("hmm", cn.data.n, method)) or seg1

        def call_quiet(it, *cmd, ran=ran, **k):
            ran.append(("Rscript", cmd[0], cmd[-1]))
            return b"SEG OUTPUT"
        model.prims["cnvlib.core.call_quiet"] = call_quiet

        def temp_write_text(it, text, *a, ran=ran, **k):
            # the script text is the template with its placeholders filled: its literal pieces tell which template it is
            pieces = [p_ for p_ in text.parts if isinstance(p_, str)] if isinstance(text, FStr) else [str(text)]
            lit = max(pieces, key=len) if pieces else ""
            in_cbs, in_fl = bool(cbs_script) and lit in cbs_script, bool(flasso_script) and lit in flasso_script
            ran.append(("script", "cbs" if in_cbs and not in_fl else "flasso" if in_fl and not in_cbs else "?"))
            return "script.R"
        model.prims["cnvlib.core.temp_write_text"] = temp_write_text
        model.ext["tempfile.NamedTemporaryFile"] = lambda it, *a, **k: Row({"name": "T", "flush": lambda: None, "__enter__": None})
        # what comes back from the R scripts is a fresh table numbered 0..n-1: one row per surviving bin for the fused lasso, one per segment for CBS
        fitted = make_ga("CopyNumArray", [dict(chromosome="chr1", start=i * 100, end=i * 100 + 100, gene="-", log2=Fr(1, 4), probes=1) for i in (0, 2)], {}, exact=True)
        model.prims["skgenome.tabio.read"] = lambda it, *a, ran=ran, m=m, **k: ran.append(("read", a[1] if len(a) > 1 else k.get("fmt"))) or (fitted if m == "flasso" else seg1)
        model.prims["cnvlib.segfilters.squash_by_groups"] = lambda it, sa, levels, by_arm=False, ran=ran, **k: ran.append(("squash", by_arm, [repr(x) for x in sa.data.cols["weight"].v] if "weight" in sa.data.cols else None)) or sa
        model.prims["cnvlib.segmentation.transfer_fields"] = lambda it, segarr, cnarr, *a, **k: segarr
        model.ext["io.StringIO"] = lambda it, x="", *a, **k: ("STRINGIO", x)
        model.method_hooks.append(lambda it, obj, name, args, kw: None if isinstance(obj, DF) and name == "to_csv" else NotImplemented)
        model.method_hooks.append(lambda it, obj, name, args, kw: "SEG OUTPUT" if isinstance(obj, bytes) and name == "decode" else NotImplemented)
        it = Interp(prog, model)
        try:
            out = run_seg(it, arr, m, None, 0.01, None, False, 0, 0)
            raised = None
        except Raised as e:
            out, raised = None, str(e)
        except Undecided as e:
            tbm.undecided.append(f"method {m}: {e}")
            continue
        kinds = [r[0] for r in ran]
        if m == "bogus":
            ok = raised is not None and "ValueError" in raised and not ran
        elif m == "haar":
            ok = raised is None and ran == [("haar", 2, (0.01,))]
        elif m == "none":
            ok = raised is None and kinds == ["none"] and ran[0][1] == 2
        elif m.startswith("hmm"):
            ok = raised is None and ran == [("hmm", 2, m)]
        else:
            ok = raised is None and ("script", m) in ran and any(r[0] == "Rscript" and r[1] == "Rscript" and r[2] == "script.R" for r in ran) and ("read", "seg") in ran \
                and (any(r[0] == "squash" and r[1] is True and r[2] == [repr(Fr(9, 10))] * 2 for r in ran)) == (m == "flasso") and not any(k_ in ("haar", "none", "hmm") for k_ in kinds)          # (the fitted rows carry their own bins' weights)
        tbm.cell(ok and unchanged(arr, before), dict(method=m, ran=[repr(r)[:60] for r in ran], raised=raised, caller_table_unchanged=unchanged(arr, before)))
    tbm.done("a declared segmentation method is not routed to its own segmenter with the surviving bins (the fused-lasso rows paired with their own bins' weights), or an unknown method name is accepted")
    # which methods run on the whole array / per arm, and the unknown-method guard: decided by the interpreted driver table in D5
    fd = prog.fn("cnvlib.segmentation.do_segmentation")
    cmds = prog.module("cnvlib.commands")
    cho = [norm(k.value) for n in ast.walk(cmds.tree) if isinstance(n, ast.Call) and isinstance(n.func, ast.Attribute) and n.func.attr == "add_argument"
           for k in n.keywords if k.arg == "choices" and "SEGMENT_METHODS" in norm(k.value)]
    chk.floor("CLI -m choices bound to SEGMENT_METHODS", len(cho), 2)
    chk.ok("method-dispatch", f"CLI choices {sorted(set(cho))} == SEGMENT_METHODS at {len(cho)} parsers")


def d4b(chk, prog):
    chk.clause("D4b", "by_arm splits each chromosome's bins into at most two contiguous pieces, at the largest interior gap when that gap is a centromere-sized one; every bin in exactly one piece, in order")
    fi = prog.fn("skgenome.gary.GenomicArray.by_arm")
    tb = Table(chk, "arm-partition", "by_arm(min_gap_size=100, min_arm_bins=2) on literal tables: gap in the middle / near an end / too small / two candidate gaps; two chromosomes; labels that are not positions", fi.loc(), fi.qn)
    # bins of width 10; a list of starts per chromosome
    cases = {"one large gap in the middle": {"chr1": [0, 10, 20, 30, 500, 510, 520, 530]},
             "gap too small": {"chr1": [0, 10, 20, 30, 90, 100, 110, 120]},
             "large gap inside the margin only": {"chr1": [0, 10, 500, 510, 520, 530, 540, 550]},
             "two candidate gaps, the larger one second": {"chr1": [0, 10, 20, 200, 210, 220, 600, 610, 620]},
             "too few bins to split": {"chr1": [0, 500, 510, 1000, 1010]},
             "two chromosomes": {"chr2": [0, 10, 20, 30, 40, 50], "chr1": [0, 10, 20, 400, 410, 420]}}
    for label, chroms in cases.items():
        W.reset()
        rows, k = [], 0
        for c, starts in chroms.items():
            for s_ in starts:
                rows.append(dict(chromosome=c, start=s_, end=s_ + 10, gene="g", log2=0, rowid=k))
                k += 1
        g = make_ga("CopyNumArray", rows, {"sample_id": "S"}, index="any", exact=True, labels=[100 - 3 * i for i in range(len(rows))])
        it = Interp(prog)
        out = tb.guard(lambda: [(c, list(a.data.cols["rowid"].v)) for c, a in it.run_method(g, "by_arm", [100, 2])], label)
        if out is None:
            continue
        want, k = [], 0
        for c, starts in chroms.items():
            ids = list(range(k, k + len(starts)))
            k += len(starts)
            n = len(starts)
            margin = max(2, int(round(Fr(n, 10))))
            split = None
            if n > 2 * margin + 1:
                # interior boundaries: between bin i-1 and bin i for i in margin+1 .. n-margin-1
                cand = [(starts[i] - (starts[i - 1] + 10), i) for i in range(margin + 1, n - margin)]
                best = max(cand, key=lambda t: (t[0], -t[1])) if cand else None
                if best and best[0] >= 100:
                    split = best[1]
            if split:
                want += [(c, ids[:split]), (c, ids[split:])]
            else:
                want.append((c, ids))
        tb.cell(out == want, dict(case=label, got=out, want=want))
    tb.done("by_arm does not partition a chromosome's bins into contiguous arms at the centromere gap (a bin is lost, duplicated or put in the wrong arm)")


def d5(chk, prog):
    chk.clause("D5", "same table for 1..N processes: Executor.map, concat + sort")
    sites, banned = rules.fanout_sites(prog)
    here = [(fi, n) for fi, n in sites if fi.mod.startswith("cnvlib.segmentation")]
    chk.floor("pool sites in segmentation", len(here) + sum(1 for fi, n in banned if fi.mod.startswith("cnvlib.segmentation")), 1)
    for fi, n in banned:
        if fi.mod.startswith("cnvlib.segmentation"):
            chk.violate("ordered-fanout", f"{fi.qn}::{norm(n.func)}", fi.loc(n), "completion-order consumption of pool results")
    for fi, n in here:
        chk.decide(n.func.attr == "map", "ordered-fanout", f"{fi.qn}: pool.{n.func.attr}({norm(n.args[0]) if n.args else ''})", f"{fi.qn}::pool.{n.func.attr}", fi.loc(n),
                   f"pool.{n.func.attr} does not preserve submission order")
    fd = prog.fn("cnvlib.segmentation.do_segmentation")
    gc = prog.fn("skgenome.gary.GenomicArray.concat")
    sorts = [n for n in own_nodes(gc.node) if isinstance(n, ast.Call) and isinstance(n.func, ast.Attribute) and n.func.attr == "sort"]
    chk.decide(bool(sorts), "ordered-fanout", "GenomicArray.concat sorts its result", f"{gc.qn}::sort", gc.loc(), "concat no longer sorts: arm order would depend on scheduling")
    # the driver, interpreted: who is segmented (whole array / each arm in order), with which options, and how the parts are combined
    seg = prog.module("cnvlib.segmentation")
    methods = list(ast.literal_eval(seg.assigns["SEGMENT_METHODS"]))
    tb = Table(chk, "ordered-fanout", "do_segmentation: per-arm methods segment every arm once, in order, with the caller's options, 1 or 3 processes alike; whole-array methods the array itself; unknown methods raise",
               fd.loc(), fd.qn)
    arms = [("chr1", "p"), ("chr1", "q"), ("chr2", "p")]
    cbs_mod, fl_mod = prog.module("cnvlib.segmentation.cbs"), prog.module("cnvlib.segmentation.flasso")
    scripts = {"cbs": ast.literal_eval(cbs_mod.assigns["CBS_RSCRIPT"]) if "CBS_RSCRIPT" in cbs_mod.assigns else "", "flasso": ast.literal_eval(fl_mod.assigns["FLASSO_RSCRIPT"]) if "FLASSO_RSCRIPT" in fl_mod.assigns else ""}
    # The private worker runs as written (whatever it is called, however it takes its options); what it does to each arm is recorded where it leaves the module: the
    # table's drop_low_coverage, smoothing.rolling_outlier_quantile, the segmenters (none / haar / hmm; for the R methods the script written, the Rscript run, the
    # table read back).  Every arm has a light bin (weight 1/5 < min_weight 1/4): the segmenter sees one bin per arm iff min_weight arrived.
    for m, procs in itertools.product(methods + ["bogus"], [1, 3]):
      for save in ((False, True) if m in ("cbs", "flasso") else (False,)):
        W.reset()
        model = Model()
        log, concat_args = [], []

        def bins(idx, part):
            rows = []
            for i in idx:
                c = arms[i][0]
                for j, w in enumerate((Fr(1, 2), Fr(1, 5))):
                    rows.append(dict(chromosome=c, start=100 * i + 10 * j, end=100 * i + 10 * j + 10, gene="g", log2=Term.sym(f"v{i}{j}", -10, 10), depth=Term.sym(f"d{i}{j}", 1, INF), weight=w, gc=Fr(2, 5), spread=Fr(1, 10)))
            return make_ga("CopyNumArray", rows, {"sample_id": "S", "part": part}, index="any", exact=True)
        whole = bins(range(3), "whole")
        parts = [bins([i], f"{c}{a}") for i, (c, a) in enumerate(arms)]
        model.method_prims["by_arm"] = lambda it, g, *a, **k: [(f"{c}{a}", p_) for (c, a), p_ in zip(arms, parts)]
        model.prims["cnvlib.parallel.pick_pool"] = lambda it, n: PoolStub(it, n)
        model.method_hooks.append(pool_hook)
        all_cols = ("chromosome", "depth", "end", "gc", "gene", "log2", "spread", "start", "weight")

        def part_of(g):
            return g.meta.get("part") if isinstance(g, GA) else None

        def low(it, g, *a, log=log, **k):
            log.append(("low", part_of(g), tuple(sorted(c_ for c_ in g.data.cols if not c_.startswith("__")))))
            return g
        model.method_prims["drop_low_coverage"] = low

        def roq(it, x, width, q, factor, log=log):
            log.append(("outliers", width, q, factor))
            return Vec([False] * len(x.v))
        model.prims["cnvlib.smoothing.rolling_outlier_quantile"] = roq
        seg1 = lambda: make_ga("CopyNumArray", [dict(chromosome="chr1", start=0, end=1, gene="-", log2=0, probes=1)], {}, exact=True)

        def segmenter(kind, qn):
            names = prog.fn(qn).params[1:]

            def f(it, cn, *a, log=log, **k):
                # the options as the segmenter's own signature binds them (positional or by keyword)
                bound = list(a) + [k[nm] for nm in names[len(a):] if nm in k]
                log.append(("seg", kind, part_of(cn), cn.data.n, tuple(bound), tuple(sorted(c_ for c_ in cn.data.cols if not c_.startswith("__")))))
                return seg1()
            return f
        for kind, qn in (("haar", "cnvlib.segmentation.haar.segment_haar"), ("none", "cnvlib.segmentation.none.segment_none"), ("hmm", "cnvlib.segmentation.hmm.segment_hmm")):
            model.prims[qn] = segmenter(kind, qn)
        rcalls = []

        def call_quiet(it, *cmd, log=log, rcalls=rcalls, **k):
            rcalls.append(cmd[0])
            log.append(("Rscript", cmd[0], cmd[-1]))
            return f"header\nrows of R run {len(rcalls)}\n".encode()
        model.prims["cnvlib.core.call_quiet"] = call_quiet

        def temp_write_text(it, text, *a, log=log, **k):
            pieces = [p_ for p_ in text.parts if isinstance(p_, str)] if isinstance(text, FStr) else [str(text)]
            lit = max(pieces, key=len) if pieces else ""
            which = [k_ for k_, v_ in scripts.items() if v_ and lit in v_]
            holes = []
            for h in (text.holes() if isinstance(text, FStr) else []):
                holes += list(h.values()) if isinstance(h, dict) else [h]             # (`template % mapping`: the values that fill the named placeholders)
            log.append(("script", which[0] if len(which) == 1 else "?", holes))
            return "script.R"
        model.prims["cnvlib.core.temp_write_text"] = temp_write_text
        model.ext["tempfile.NamedTemporaryFile"] = lambda it, *a, **k: Row({"name": "T", "flush": lambda: None, "__enter__": None})

        def to_csv(it, obj, name, args, kw, log=log):
            if isinstance(obj, DF) and name == "to_csv":
                log.append(("bins written", obj.n, tuple(sorted(c_ for c_ in obj.cols if not c_.startswith("__")))))
                return None
            if isinstance(obj, bytes) and name == "decode":
                return obj.decode()
            return NotImplemented
        model.method_hooks.append(to_csv)
        model.ext["io.StringIO"] = lambda it, x="", *a, **k: ("STRINGIO", x)

        def read_back(it, *a, log=log, m=m, **k):
            log.append(("read", a[1] if len(a) > 1 else k.get("fmt")))
            if m != "flasso":
                return seg1()
            # the fused lasso hands back one fitted row per bin it was given
            n_ = next((e[1] for e in reversed(log) if e[0] == "bins written"), 1)
            return make_ga("CopyNumArray", [dict(chromosome="chr1", start=10 * i, end=10 * i + 10, gene="-", log2=Fr(1, 4), probes=1) for i in range(n_)], {}, exact=True)
        model.prims["skgenome.tabio.read"] = read_back
        model.prims["cnvlib.segfilters.squash_by_groups"] = lambda it, sa, levels, by_arm=False, **k: sa
        model.prims["cnvlib.segmentation.transfer_fields"] = lambda it, segarr, cnarr, *a, log=log, **k: log.append(("post", part_of(segarr), part_of(cnarr))) or segarr

        def concat(it, g, others, concat_args=concat_args):
            others = list(it.iterate(others))
            concat_args.append([part_of(o) if isinstance(o, GA) else repr(o)[:40] for o in others])
            return make_ga("CopyNumArray", [dict(chromosome="chr1", start=0, end=1, gene="-", log2=0, probes=1)], {"sample_id": "S", "part": "concat"}, exact=True)
        model.method_prims["concat"] = concat
        model.method_prims["sort_columns"] = lambda it, g: None
        it = Interp(prog, model)
        thr = Fr(3, 1000)
        variants = "VARR" if m.startswith("hmm") else None           # (re-segmenting on allele frequencies within the segments: C18)
        try:
            out = it.run(fd.qn, [whole, m, "grch38", thr, variants, True, 7, Fr(1, 4), save, "/opt/Rscript", procs, True])
            raised = None
        except Raised as r:
            out, raised = None, str(r)
        except Undecided as u:
            tb.undecided.append(f"method={m} processes={procs} save_dataframe={save}: {u}")
            continue
        if m == "bogus":
            tb.cell(raised is not None and "ValueError" in raised and not log, dict(method=m, raised=raised, steps=len(log)))
            continue
        per_arm = m in ("none", "haar", "cbs")
        want_parts = [f"{c}{a}" for c, a in arms] if per_arm else ["whole"]
        n_after = 1 if per_arm else 3
        lows = [e for e in log if e[0] == "low"]
        outl = [e for e in log if e[0] == "outliers"]
        problems = []
        if [e[1] for e in lows] != want_parts:
            problems.append(f"low-coverage bins dropped for {[e[1] for e in lows]}, expected once for each of {want_parts} (skip_low was asked)")
        if any(e[2] != all_cols for e in lows):
            problems.append(f"the bins reach the filters with columns {sorted(set(e[2] for e in lows))}, expected every column they came with")
        if len(outl) != (3 if per_arm else 2) or any(not (same(e[1], 50) and same(e[2], Fr(95, 100)) and same(e[3], 7)) for e in outl):
            problems.append(f"outlier filter runs {[(repr(e[1]), repr(e[2]), repr(e[3])) for e in outl]}, expected one per chromosome stretch with width 50, quantile 0.95 and the caller's factor 7")
        if m in ("none", "haar") or m.startswith("hmm"):
            segs = [e for e in log if e[0] == "seg"]
            kind = "hmm" if m.startswith("hmm") else m
            if [(e[1], e[2], e[3]) for e in segs] != [(kind, p_, n_after) for p_ in want_parts]:
                problems.append(f"segmenter calls {[(e[1], e[2], e[3]) for e in segs]}, expected {kind} once per {want_parts} on the {n_after} bin(s) left by min_weight")
            want_args = {"none": (), "haar": (thr,)}.get(m, (m, "grch38", thr, "VARR"))
            if any(len(e[4]) != len(want_args) or not all(x == y or same(x, y) for x, y in zip(e[4], want_args)) for e in segs):
                problems.append(f"segmenter arguments {[repr(e[4]) for e in segs]}, expected {want_args!r}")
            if any(e[5] != all_cols for e in segs):
                problems.append(f"columns reaching the segmenter {sorted(set(e[5] for e in segs))}")
        else:
            runs = len(want_parts)
            sc = [e for e in log if e[0] == "script"]
            if [e[1] for e in sc] != [m] * runs:
                problems.append(f"scripts written: {[e[1] for e in sc]}, expected {m} x {runs}")
            if any(not (e[2] and any(same(h, thr) for h in e[2] if not isinstance(h, (str, bool))) and (m != "cbs" or any(h is True for h in e[2]))) for e in sc):
                problems.append(f"script placeholders filled with {[repr(e[2])[:80] for e in sc]}, expected the caller's threshold (and smooth_cbs for cbs)")
            if [e[1] for e in log if e[0] == "Rscript"] != ["/opt/Rscript"] * runs or any(e[2] != "script.R" for e in log if e[0] == "Rscript"):
                problems.append(f"R runs {[e[1:] for e in log if e[0] == 'Rscript']}, expected the caller's Rscript on the script written, once per {want_parts}")
            wr = [e for e in log if e[0] == "bins written"]
            if [e[1] for e in wr] != [n_after] * runs or any(e[2] != all_cols for e in wr):
                problems.append(f"bins handed to R: {[e[1:] for e in wr]}, expected {n_after} bin(s) per run with every column")
            if [e[1] for e in log if e[0] == "read"] != ["seg"] * runs:
                problems.append("the R output is not read back as SEG once per run")
        post = [e for e in log if e[0] == "post"]
        if [e[2] for e in post] != want_parts:
            problems.append(f"post-processing against the bins of {[e[2] for e in post]}, expected {want_parts}")
        if per_arm and concat_args != [want_parts]:
            problems.append(f"parts combined: {concat_args}, expected {want_parts} in this order")
        if not per_arm and concat_args:
            problems.append("a whole-array method's result is concatenated")
        res = out[0] if (save and isinstance(out, tuple)) else out
        if raised is not None or not isinstance(res, GA) or (per_arm and part_of(res) != "concat"):
            problems.append(f"result {repr(res)[:60]} raised={raised}")
        if save and raised is None:
            want_text = "header\n" + "".join(f"rows of R run {k_ + 1}\n" for k_ in range(len(want_parts)))
            if not (isinstance(out, tuple) and len(out) == 2 and out[1] == want_text):
                problems.append(f"saved R dataframe text {out[1]!r:.80}, expected the header once and every run's rows in order")
        tb.cell(not problems, dict(method=m, processes=procs, save_dataframe=save, problems=problems[:4], steps=[repr(e)[:50] for e in log[:6]]))
    tb.done("do_segmentation does not segment every arm (or the whole array) exactly once, in order, with the caller's options, or combines the parts out of order")


def d6(chk, prog):
    chk.clause("D6", "the caller's array is never mutated by do_segmentation or the functions of its module the bins are handed to")
    eff = Effects(prog)
    atomic = C10._atomic(prog)
    # do_segmentation, the function(s) of its module it hands its own first parameter to as first argument (the per-table worker, found by that role, whatever its name),
    # and the two public helpers that may receive the caller's table unfiltered.  (Observed as well: D3b / D4 compare the caller's table before and after each run.)
    res_ = Resolver(prog)
    fd = prog.fn(DOSEG)
    qns = [fd.qn]
    bins_param = fd.params[0] if fd.params else None
    for n in own_nodes(fd.node):
        if isinstance(n, ast.Call) and n.args and isinstance(n.args[0], ast.Name) and n.args[0].id == bins_param:
            for c in res_.resolve_call(n, fd):
                if c.mod.startswith("cnvlib.segmentation") and c.qn not in qns:
                    qns.append(c.qn)
    for extra in ("cnvlib.segmentation.drop_outliers", "cnvlib.segmentation.none.segment_none"):
        if prog.maybe_fn(extra) is not None and extra not in qns:
            qns.append(extra)
    chk.floor("functions under do_segmentation checked for argument mutation", len(qns), 1)
    for qn in qns:
        fi = prog.fn(qn)
        bad = []
        for p in sorted(eff.sum[qn].mut):
            for root in eff.roots(qn, p, atomic=atomic):
                if C10.allowed_root(prog, root) is None:
                    bad.append((p, root))
        if not bad:
            chk.ok("arg-mutation", f"{qn}: no argument object mutated", where=fi.loc())
        for p, root in bad:
            rqn, rparam, where, construct = root
            chk.violate("arg-mutation", f"{rqn}::{construct}", where, f"`{construct}` mutates the object passed as `{p}` to {qn}", witness=dict(chain=eff.chain(qn, p, root)))


def run(chk):
    prog = chk.prog
    chk.trust("Python grammar via ast", "pandas >= 3 copy-on-write: property / column / indexing results are new objects",
              "np.average = sum(x w)/sum(w); Executor.map preserves input order")
    d1(chk, prog)
    d2(chk, prog)
    from . import C07
    C07.d6(chk, prog)            # the aggregation pairs bins and segments per chromosome: by_shared_chroms (C07-D6 rule; the whole-array methods pass several chromosomes)
    d3(chk, prog)
    d3c(chk, prog)
    d3b(chk, prog)
    from . import C15
    C15.low_coverage(chk, prog)  # which bins skip_low takes out before segmenting (C15 LOW rule)
    from . import C14
    C14.d2(chk, prog)            # the HMM methods' segments are the runs of equal state within a chromosome (arm): squash_by_groups (C14-D2 rule)
    d4(chk, prog)
    d4b(chk, prog)
    d5(chk, prog)
    d6(chk, prog)
    chk.clause("CLI", "the `segment` command line: method, threshold, --drop-low-coverage, --drop-outliers, -p and the VCF options reach do_segmentation as given")
    from .. import cliglue
    cliglue.check_segment(chk, prog)


_S = "cnvlib/segmentation/__init__.py"
_STRETCH = '''    # (Whole-genome methods: the edge chromosome's bins may all have been dropped)
    if segments.chromosome.iat[0] == bins_chrom:
        segments.data.iloc[0, segments.data.columns.get_loc("start")] = bins_start
    if segments.chromosome.iat[-1] == cnarr.chromosome.iat[-1]:
        segments.data.iloc[-1, segments.data.columns.get_loc("end")] = bins_end
'''
MUTANTS = [
    dict(name="regress: flasso weights assigned as a labelled Series", file="cnvlib/segmentation/__init__.py", old='                segarr["weight"] = filtered_cn["weight"].values', new='                segarr["weight"] = filtered_cn["weight"]'),
    dict(name="hmm methods routed to haar", file="cnvlib/segmentation/__init__.py", old='    elif method.startswith("hmm"):\n        segarr = hmm.segment_hmm(filtered_cn, method, diploid_parx_genome, threshold, variants)', new='    elif method.startswith("hmm"):\n        segarr = haar.segment_haar(filtered_cn, threshold)'),
    dict(name="twin: method dispatch through a table of segmenters", expect="silent", file="cnvlib/segmentation/__init__.py", old='    if method == "haar":\n        segarr = haar.segment_haar(filtered_cn, threshold)\n\n    elif method == "none":\n        segarr = none.segment_none(filtered_cn)\n\n    elif method.startswith("hmm"):',
         new='    simple = {"haar": lambda: haar.segment_haar(filtered_cn, threshold), "none": lambda: none.segment_none(filtered_cn)}\n    if method in simple:\n        segarr = simple[method]()\n\n    elif method.startswith("hmm"):'),
    dict(name="cli: segment --drop-outliers fed from --drop-low-coverage", file="cnvlib/commands.py", old="        skip_outliers=args.drop_outliers,", new="        skip_outliers=args.drop_low_coverage,"),
    dict(name="cli: segment -p without a number means 1", file="cnvlib/commands.py", old='P_segment.add_argument(\n    "-p",\n    "--processes",\n    nargs="?",\n    type=int,\n    const=0,', new='P_segment.add_argument(\n    "-p",\n    "--processes",\n    nargs="?",\n    type=int,\n    const=1,'),
    dict(name="regress: last segment stretched whatever its chromosome", file=_S, old="    if segments.chromosome.iat[-1] == cnarr.chromosome.iat[-1]:\n", new="    if True:\n"),
    dict(name="regress: first segment stretched whatever its chromosome", file=_S, old="    if segments.chromosome.iat[0] == bins_chrom:\n", new="    if len(segments):\n"),
    # (not a breaker: per arm the two chromosomes coincide, and the property asks no stretch of the whole-array methods)
    dict(name="twin: last segment compared with the first bin's chromosome", expect="silent", file=_S, old="    if segments.chromosome.iat[-1] == cnarr.chromosome.iat[-1]:\n", new="    if segments.chromosome.iat[-1] == bins_chrom:\n"),
    dict(name="twin: edge chromosomes bound to names first", expect="silent", file=_S, old="    if segments.chromosome.iat[-1] == cnarr.chromosome.iat[-1]:\n", new="    last_chrom = cnarr.chromosome.iat[-1]\n    if last_chrom == segments.chromosome.iat[-1]:\n"),
    dict(name="by_arm splits one bin too early", file="skgenome/gary.py", old="                cmere_idx = gaps.argmax() + margin + 1\n", new="                cmere_idx = gaps.argmax() + margin\n"),
    dict(name="by_arm loses the q arm's first bin", file="skgenome/gary.py", old="                q_arm = subtable.index[cmere_idx:]", new="                q_arm = subtable.index[cmere_idx + 1:]"),
    dict(name="twin: distinct gene names through dict.fromkeys", expect="silent", file="cnvlib/segmentation/__init__.py", old="        subgenes = [g for g in pd.unique(bin_genes[bin_idx]) if g not in ignore]", new="        subgenes = list(dict.fromkeys(g for g in bin_genes[bin_idx] if g not in ignore))"),
    dict(name="regress: chained store through the start property", file=_S, old='        segments.data.iloc[0, segments.data.columns.get_loc("start")] = bins_start\n', new="        segments.start.iat[0] = bins_start\n"),
    dict(name="delete the end stretch", file=_S, old='        segments.data.iloc[-1, segments.data.columns.get_loc("end")] = bins_end\n', new="        pass\n"),
    dict(name="stretch last start instead of first", file=_S, old='        segments.data.iloc[0, segments.data.columns.get_loc("start")] = bins_start\n', new='        segments.data.iloc[-1, segments.data.columns.get_loc("start")] = bins_start\n'),
    dict(name="drop reset_index", file=_S, old="    cdata = cnarr.data.reset_index()", new="    cdata = cnarr.data"),
    dict(name="outer -> inner", file=_S, old='enumerate(iter_slices(cdata, segments.data, "outer", False))', new='enumerate(iter_slices(cdata, segments.data, "inner", False))'),
    dict(name="weight mean instead of sum", file=_S, old="            seg_wt = bin_weights[bin_idx].sum()", new="            seg_wt = bin_weights[bin_idx].mean()"),
    dict(name="depth unweighted", file=_S, old="                seg_dp = np.average(bin_depths[bin_idx], weights=bin_weights[bin_idx])", new="                seg_dp = bin_depths[bin_idx].mean()"),
    dict(name="genes not filtered by ignore", file=_S, old="        subgenes = [g for g in pd.unique(bin_genes[bin_idx]) if g not in ignore]", new="        subgenes = [g for g in pd.unique(bin_genes[bin_idx])]"),
    dict(name="pool.map -> unordered", file=_S, old="            rets = list(\n                pool.map(", new="            rets = list(\n                pool.imap_unordered("),
    dict(name="delete working copy", file=_S, old="    filtered_cn = cnarr.copy()\n", new="    filtered_cn = cnarr\n"),
    dict(name="hmm-tumor falls to the error", file=_S, old='    elif method.startswith("hmm"):\n        segarr', new='    elif method in ("hmm", "hmm-germline"):\n        segarr'),
    dict(name="haar on the whole array", file=_S, old='    if method == "flasso" or method.startswith("hmm"):', new='    if method in ("flasso", "haar") or method.startswith("hmm"):'),
    dict(name="none: end of first bin", file="cnvlib/segmentation/none.py", old="            cnarr.end.iat[-1],", new="            cnarr.end.iat[0],"),
    dict(name="segment_mean ignores weights", file="cnvlib/segmetrics.py", old='        return np.average(cnarr["log2"], weights=cnarr["weight"])', new='        return np.average(cnarr["log2"])'),
    dict(name="seeded C03f: per-arm worker bound with functools.partial, skip_outliers left out", edits=[(_S, "import locale\n", "import functools\nimport locale\n"), (_S, """            rets = list(
                pool.map(
                    _ds,
                    (
                        (
                            ca,
                            method,
                            diploid_parx_genome,
                            threshold,
                            variants,
                            skip_low,
                            skip_outliers,
                            min_weight,
                            save_dataframe,
                            rscript_path,
                            smooth_cbs,
                        )
                        for _, ca in cnarr.by_arm()
                    ),
                )
            )""", """            segment_arm = functools.partial(_do_segmentation, method=method, diploid_parx_genome=diploid_parx_genome, threshold=threshold, variants=variants,
                                            skip_low=skip_low, min_weight=min_weight, save_dataframe=save_dataframe, rscript_path=rscript_path, smooth_cbs=smooth_cbs)
            rets = list(pool.map(segment_arm, (ca for _, ca in cnarr.by_arm())))""")]),
    dict(name="twin: per-arm worker bound with functools.partial, every option forwarded", expect="silent", edits=[(_S, "import locale\n", "import functools\nimport locale\n"), (_S, """            rets = list(
                pool.map(
                    _ds,
                    (
                        (
                            ca,
                            method,
                            diploid_parx_genome,
                            threshold,
                            variants,
                            skip_low,
                            skip_outliers,
                            min_weight,
                            save_dataframe,
                            rscript_path,
                            smooth_cbs,
                        )
                        for _, ca in cnarr.by_arm()
                    ),
                )
            )""", """            segment_arm = functools.partial(_do_segmentation, method=method, diploid_parx_genome=diploid_parx_genome, threshold=threshold, variants=variants,
                                            skip_low=skip_low, skip_outliers=skip_outliers, min_weight=min_weight, save_dataframe=save_dataframe, rscript_path=rscript_path, smooth_cbs=smooth_cbs)
            rets = list(pool.map(segment_arm, (ca for _, ca in cnarr.by_arm())))""")]),
    dict(name="per-arm results combined in reverse", file=_S, old="        cna = cnarr.concat(rets)\n", new="        cna = cnarr.concat(rets[::-1])\n"),
    dict(name="parallel worker drops skip_low", file=_S, old="                            variants,\n                            skip_low,\n                            skip_outliers,\n                            min_weight,\n                            save_dataframe,\n                            rscript_path,\n                            smooth_cbs,", new="                            variants,\n                            False,\n                            skip_outliers,\n                            min_weight,\n                            save_dataframe,\n                            rscript_path,\n                            smooth_cbs,"),
    dict(name="whole-array call swaps skip_low and skip_outliers", file=_S, old="            variants,\n            skip_low,\n            skip_outliers,\n            min_weight,\n            save_dataframe,\n            rscript_path,\n        )", new="            variants,\n            skip_outliers,\n            skip_low,\n            min_weight,\n            save_dataframe,\n            rscript_path,\n        )"),
    dict(name="twin: per-arm arguments built as a list first", expect="silent", file=_S, old="""            rets = list(
                pool.map(
                    _ds,
                    (
                        (
                            ca,
                            method,
                            diploid_parx_genome,
                            threshold,
                            variants,
                            skip_low,
                            skip_outliers,
                            min_weight,
                            save_dataframe,
                            rscript_path,
                            smooth_cbs,
                        )
                        for _, ca in cnarr.by_arm()
                    ),
                )
            )""", new="""            common = (method, diploid_parx_genome, threshold, variants, skip_low, skip_outliers, min_weight, save_dataframe, rscript_path, smooth_cbs)
            jobs = [(arm_arr,) + common for _name, arm_arr in cnarr.by_arm()]
            rets = [r for r in pool.map(_ds, jobs)]"""),
    dict(name="seeded C03c: hmm keeps a pre-existing probes column", file="cnvlib/segmentation/hmm.py", old='    cnarr["probes"] = 1\n', new=""),
    dict(name="seeded C03d: gene names by consecutive runs", edits=[(_S, "        subgenes = [g for g in pd.unique(bin_genes[bin_idx]) if g not in ignore]", "        subgenes = [g for g, _run in itertools.groupby(b for b in bin_genes[bin_idx] if b not in ignore)]"), (_S, "import locale\n", "import locale\nimport itertools\n")]),
    dict(name="hmm squashes the smoothed log2", file="cnvlib/segmentation/hmm.py", old='    cnarr["log2"] = orig_log2\n', new=""),
    dict(name="twin: hmm state series bound to a variable first", expect="silent", file="cnvlib/segmentation/hmm.py", old="    segarr = squash_by_groups(\n        cnarr, pd.Series(states, index=cnarr.data.index), by_arm=True\n    )", new="    bin_index = cnarr.data.index\n    state_series = pd.Series(states, index=bin_index)\n    segarr = squash_by_groups(cnarr, state_series, by_arm=True)"),
    dict(name="hmm states on a fresh index", file="cnvlib/segmentation/hmm.py", old="cnarr, pd.Series(states, index=cnarr.data.index), by_arm=True", new="cnarr, pd.Series(states), by_arm=True"),
    dict(name="seeded C03a: endpoints stretched after the aggregation", edits=[(_S, _STRETCH, ""),
        (_S, "        gene=seg_genes, weight=seg_weights, depth=seg_depths\n    )\n    return segments\n", "        gene=seg_genes, weight=seg_weights, depth=seg_depths\n    )\n" + _STRETCH + "    return segments\n")]),
    dict(name="seeded C03b: weight filter restarts from the unfiltered bins", edits=[(_S, '        weight_too_low = (filtered_cn["weight"] == 0).fillna(True)', '        weight_too_low = (cnarr["weight"] == 0).fillna(True)'),
        (_S, '        weight_too_low = (filtered_cn["weight"] < min_weight).fillna(True)', '        weight_too_low = (cnarr["weight"] < min_weight).fillna(True)'),
        (_S, "        filtered_cn = filtered_cn[~weight_too_low]", "        filtered_cn = cnarr[~weight_too_low]")]),
    dict(name="skip_low not applied", file=_S, old="    if skip_low:\n        filtered_cn = filtered_cn.drop_low_coverage(verbose=False)\n", new=""),
    dict(name="zero-weight bins kept", file=_S, old='        weight_too_low = (filtered_cn["weight"] == 0).fillna(True)', new='        weight_too_low = (filtered_cn["weight"] < 0).fillna(True)'),
    # (once listed as a twin; it is not: haar concatenates per-chromosome tables without renumbering, so the first label can repeat -- seeded C03g)
    dict(name="stretch through .loc on the first label (labels repeat after haar's concat)", file=_S, old='        segments.data.iloc[0, segments.data.columns.get_loc("start")] = bins_start\n', new='        segments.data.loc[segments.data.index[0], "start"] = bins_start\n'),
]
