"""C05 -- the pooled reference is the robust per-bin consensus in the chosen reference sex.
E2E do_reference interpreted whole on literal pools (sex shift, matrix shape / order, estimator binding, sample sexes, shared per-pool state, mismatched bins),
D2 flat reference table, D6 gc / rmask closed forms, D7 role-flow from the callers, D11 command line, D13 sample ids."""
import ast
import itertools
from fractions import Fraction as Fr

from ..abstools import *
from ..absint import CTX
from ..absval import Raised
from ..core import AnalysisError, own_nodes, norm, parents, stmt_of, dominates
from ..effects import Effects, Resolver
from .. import roles, flow
from . import C10

LEVEL_TEXT = ('static analysis: (E2E) do_reference interpreted whole on literal pools of three samples given out of name order (targets with / without '
              'antitargets; reference sex x PAR genome x sample sex given / inferred from partial and conflicting calls x correction switches x depth '
              "column x mostly-empty pool; 72 cells quick, 104 thorough), with stubs only at the boundaries to other modules and libraries -- read_cna, the table's "
              'center_all / guess_xx, fix.get_edge_bias / center_by_window / mask_bad_bins, the descriptives estimators (which return symbols registered '
              'with the column they were given), np.vstack / hstack / apply_along_axis, pyfaidx -- so that reference.py runs as written however it is '
              'split into functions: every bin of the result, targets and antitargets interleaved by position, has log2 = biweight_location of [flat '
              "value, each sample's log2 in sample-name order after centring and the shift to the reference sex], spread = biweight_midvariance of "
              'that column about that location, depth = biweight_location of the depths (2^log2 without a depth column); a sample at its sex\'s levels '
              'comes out at X = -1 / 0 by reference sex, Y = -1 (exactly -1 for a female sample), autosomes and PAR-X unchanged; the sample sex is the '
              'given one, else the antitarget call where there is one, else the target call, else unknown = male; each sample is centred on its own '
              'file values (skip_low on targets only, the PAR genome passed on), shifted, then corrected by gc, rmask (antitargets), edge (targets) '
              'per switch, not at all when most bins are empty; masks and covariates computed once per block are not changed by a sample (a female '
              'sample is processed after a male one); a pool with a file whose bins differ -- also by one base at 150 Mb, also an antitarget file -- '
              'is refused; with a literal genome the gc / rmask covariates are those of each bin\'s own bases, the sequence opened as raw strings once '
              'per block; (D2) the flat reference is 0 on '
              'autosomes, -1 on Y, -1 on X iff the reference is male, PAR-X 0 with a PAR genome, PAR-Y -1 for a female reference, stored by '
              'do_reference_flat to log2 with depth = 2^log2 on target and antitarget bins alike; (D6, while the helpers carry these names) calculate_gc_lo = '
              '((g+c+G+C)/(a+c+g+t+A+C+G+T), (a+c+g+t)/(same)) as exact rational identities over eight count symbols, (0, 0) for no unambiguous '
              "base; get_fasta_stats interpreted on a literal two-sequence genome (chr2, chr10) returns each bin's own [start:end) fractions in "
              'bin order, gc first; (D7) the command line and `batch` hand do_reference / do_reference_flat the correction / sex / PAR flags in their '
              'roles; (D10) every sample is centred by center_all on its covered autosomal '
              'bins (C15-D1 rule). (D11) the `reference` '
              'command line, through a model of argparse built from the declarations in commands.py: for every accepted spelling of -x / '
              '--sample-sex (and none), x -y, x the correction switches, _cmd_reference hands do_reference that sex, reference sex, PAR genome, '
              'switches and the target / antitarget files; (C19-D6) biweight_location and biweight_midvariance, interpreted on 12 literal vectors'
              " with exact rationals, equal an independent transcription of Tukey's formulas (majority-tied data included). (D12) no draw in fix "
              '/ reference comes from a generator object that outlives the call. (LABELS) the names under which the X / Y bins are found follow '
              "the table's own naming style, whichever sex chromosomes it has (C15 rule). (D13) fbase on 13 literal file names: directory and .gz"
              ' dropped, a known coverage / pipeline suffix dropped whole, otherwise the last extension only -- pool.A.cnn and pool.B.cnn keep '
              'different sample ids. Does not decide the corrections themselves (fix.center_by_window), clustering, or sex inference accuracy.')
TECHNIQUE = ('abstract interpretation over chromosome classes x sex flags (symbolic noise terms); dominance; exact rational identities; role-'
             'flow; effect summaries; argparse model for the command-line glue; exact evaluation of the estimators against formula '
             'transcriptions')

REF = "cnvlib.reference"
CLS4 = ["auto", "x", "parx", "y"]


FLAT_CLASSES = ["auto", "x", "parx", "y", "pary"]


def flat_want(c, hap, par):
    """flat reference level of a class; None = not stated (PAR-Y under a male reference with a PAR genome: the code excludes it from
    the single-copy Y there, the property does not speak of it)"""
    if par is None:
        c = {"parx": "x", "pary": "y"}.get(c, c)
    if c == "pary":
        return None if hap else -1
    return {"auto": 0, "x": -1 if hap else 0, "parx": 0, "y": -1}[c]


def d2(chk, prog):
    chk.clause("D2", "flat reference: 0 autosomes, -1 Y (PAR included for a female reference), -1 X iff male reference (PAR-X 0 with a PAR genome); depth = 2^log2")
    fi = prog.fn("cnvlib.cnary.CopyNumArray.expect_flat_log2")
    tb = Table(chk, "flat-reference", "expect_flat_log2 table", fi.loc(), fi.qn)
    for hap, par, style in itertools.product([False, True], [None, "grch37", "grch38"], ["", "chr"]):
        W.reset()
        it = Interp(prog, par_model())
        out = tb.guard(lambda: it.run_method(cna(FLAT_CLASSES, style), "expect_flat_log2", [hap, par]), f"hap={hap} par={par}")
        if out is None:
            continue
        for i, c in enumerate(FLAT_CLASSES):
            want = flat_want(c, hap, par)
            if want is None:
                continue
            tb.cell(same(out.v[i], want), dict(haploid_x_reference=hap, par_genome=par, naming=style or "bare", cls=c, got=repr(out.v[i]), want=want))
    tb.done("the flat reference profile differs from (autosome 0, Y -1, X -1 iff male reference)")
    fd = prog.fn(f"{REF}.do_reference_flat")
    tb2 = Table(chk, "flat-reference", "do_reference_flat stores the flat profile to log2 and 2^log2 to depth, for target and antitarget bins alike", fd.loc(), fd.qn)
    for hap, par, anti in itertools.product([False, True], [None, "grch38"], [False, True]):
        W.reset()
        model = par_model()

        def probes(it, fname):
            cl = FLAT_CLASSES
            g = cna(cl, "chr", log2=lambda i, c: 0)
            g.meta["_classes"] = list(cl)
            g.meta["source"] = fname
            return g
        model.prims[f"{REF}.bed2probes"] = probes

        def add(it, obj, other):
            obj.data = DF({c: Vec(list(obj.data.cols[c].v) + list(other.data.cols[c].v), aligned=True) for c in obj.data.cols}, obj.data.n + other.data.n, "range")
            obj.meta["_classes"] = list(obj.meta["_classes"]) + list(other.meta["_classes"])
            return None
        model.method_prims["add"] = add
        it = Interp(prog, model)
        out = tb2.guard(lambda: it.run(fd.qn, ["targets.bed", "antitargets.bed" if anti else None, None, hap, par]), f"hap={hap} par={par} antitargets={anti}")
        if out is None:
            continue
        classes = FLAT_CLASSES * (2 if anti else 1)
        ok_n = out.data.n == len(classes)
        tb2.cell(ok_n, dict(hap=hap, par=par, antitargets=anti, rows=out.data.n, want_rows=len(classes)))
        if not ok_n:
            continue
        for i, c in enumerate(classes):
            want = flat_want(c, hap, par)
            if want is None:
                continue
            lg2, dp = out.data.cols["log2"].v[i], out.data.cols["depth"].v[i]
            tb2.cell(same(lg2, want) and same(dp, Fr(1, 2) if want == -1 else 1), dict(hap=hap, par=par, antitargets=anti, bin="antitarget" if i >= len(FLAT_CLASSES) else "target", cls=c, log2=repr(lg2), depth=repr(dp), want=want))
    # bed2probes: the regions as neutral bins (names kept, '-' when the file has none); GenomicArray.add appends the antitargets and re-sorts
    fb = prog.fn(f"{REF}.bed2probes")
    for has_gene in (True, False):
        W.reset()
        model = Model()
        rows = [dict(chromosome="chr2", start=5, end=50), dict(chromosome="chr1", start=0, end=10)]
        if has_gene:
            rows = [dict(r, gene=f"n{i}") for i, r in enumerate(rows)]
        model.prims["skgenome.tabio.read_auto"] = lambda it, f, *a, **k: make_ga("GenomicArray", rows, {"filename": f}, exact=True)
        it = Interp(prog, model)
        out = tb2.guard(lambda: it.run(fb.qn, ["panel/my.targets.bed"]), f"bed2probes gene column={has_gene}")
        if out is None:
            continue
        c = out.data.cols
        ok = isinstance(out, GA) and out.data.n == 2 and list(c["chromosome"].v) == ["chr2", "chr1"] and [int(T(x).cval()) for x in c["start"].v] == [5, 0] and [int(T(x).cval()) for x in c["end"].v] == [50, 10] \
            and list(c["gene"].v) == (["n0", "n1"] if has_gene else ["-", "-"]) and all(same(x, 0) for x in c["log2"].v) and all(same(x, 0) for x in c["spread"].v)
        tb2.cell(ok, dict(function="bed2probes", gene_column=has_gene, columns={k: [repr(x) for x in v.v] for k, v in c.items() if not k.startswith("__")}, sample_id=out.meta.get("sample_id")))
    tb2.done("do_reference_flat does not store the flat profile / its depth on every bin")


class Mat:
    """an abstract 2-D array: a list of rows, each a list of cell values (np.vstack of per-sample rows, np.hstack of target and antitarget blocks)"""

    def __init__(self, rows):
        self.rows = [list(r) for r in rows]

    @property
    def T(self):
        n = len(self.rows[0]) if self.rows else 0
        return [tuple(r[j] for r in self.rows) for j in range(n)]

    def abs_len(self):
        return len(self.rows)

    @property
    def shape(self):
        return (len(self.rows), len(self.rows[0]) if self.rows else 0)

    def abs_iter(self):
        return [Vec(r) for r in self.rows]

    def abs_getitem(self, it, k):
        """basic indexing: m[r], m[r, c] with plain ints / slices (table sizes stand for their literal value)"""
        def conv(x, n):
            if isinstance(x, slice):
                vals = []
                for b in (x.start, x.stop, x.step):
                    if b is not None and not (isinstance(b, int) and not isinstance(b, bool)):
                        t = T(b) if not isinstance(b, NRows) else None
                        if t is None or not t.is_const() or t.cval().denominator != 1:
                            raise Undecided(f"matrix subscript bound {b!r}")
                        b = int(t.cval())
                    vals.append(b)
                return slice(*vals)
            if isinstance(x, int) and not isinstance(x, bool):
                return x
            raise Undecided(f"matrix subscript {x!r}")
        ncols = len(self.rows[0]) if self.rows else 0
        if isinstance(k, tuple) and len(k) == 2:
            r, c = conv(k[0], len(self.rows)), conv(k[1], ncols)
            rows = self.rows[r] if isinstance(r, slice) else [self.rows[r]]
            picked = [row[c] if isinstance(c, slice) else row[c] for row in rows]
            if isinstance(r, slice) and isinstance(c, slice):
                return Mat(picked)
            if isinstance(r, slice):
                return Vec(picked)
            return Vec(picked[0]) if isinstance(c, slice) else picked[0]
        r = conv(k, len(self.rows))
        return Mat(self.rows[r]) if isinstance(r, slice) else Vec(self.rows[r])


def _cells(x):
    if isinstance(x, Vec):
        return list(x.v)
    if isinstance(x, (list, tuple)):
        return list(x)
    raise Undecided(f"matrix row of type {type(x).__name__}")


class _RawSeq:
    def __init__(self, text):
        self.text = text

    def abs_getitem(self, it, k):
        if isinstance(k, slice) and all(x is None or (isinstance(x, int) and not isinstance(x, bool)) for x in (k.start, k.stop, k.step)):
            return self.text[k]
        raise Undecided(f"sequence subscript {k!r}")


class _WrappedSeq:
    """what pyfaidx hands out without as_raw=True: a Sequence object, not a str (no .count)"""

    def __init__(self, text):
        self.text = text

    def abs_getitem(self, it, k):
        return _WrappedSeq(self.text[k] if isinstance(k, slice) else self.text)

    def count(self, ch):
        raise Raised("AttributeError", "'Sequence' object has no attribute 'count' (pyfaidx without as_raw=True)")


class _Fasta:
    def __init__(self, genome, raw):
        self.genome, self.raw = genome, raw

    def abs_getitem(self, it, k):
        if k not in self.genome:
            raise Raised("KeyError", k)
        return _RawSeq(self.genome[k]) if self.raw else _WrappedSeq(self.genome[k])


def fasta_model(model, genome, opened):
    """pyfaidx.Fasta on a literal genome (the library boundary: the functions that read the sequence are interpreted)"""
    def fasta(it, fname, as_raw=False, **k):
        opened.append((fname, as_raw))
        return _Fasta(genome, as_raw is True)
    model.ext["pyfaidx.Fasta"] = fasta
    model.ext["np.asarray"] = lambda it, x, **k: list(x)
    return model


def base_fraction(text, chars):
    tot = sum(text.count(ch) for ch in "acgtACGT")
    return Fr(sum(text.count(ch) for ch in chars), tot) if tot else Fr(0)


def run_reference(prog, tnames, anames, make, hap, par, female, gc, edge, rmask, verdicts, fa=None, genome=None):
    """do_reference interpreted whole on a literal pool.  Stubs stand only at the boundaries to other modules / libraries -- read_cna, the table's own
    center_all and guess_xx, fix.get_edge_bias / center_by_window / mask_bad_bins, the two descriptives estimators, numpy's stacking, pyfaidx -- and record
    what reaches them (with the sample's log2 values at that moment); everything in reference.py between them runs as written, however it is split
    into functions.  The estimators return fresh symbols registered with (estimator, the column they were given)."""
    model = par_model()
    ev = dict(read=[], centre=[], window=[], edge=[], reg={}, guess=[], fasta=[])
    model.prims["cnvlib.cmdutil.read_cna"] = lambda it, f, *a, **k: ev["read"].append(f) or make(f)
    model.prims["cnvlib.fix.get_edge_bias"] = lambda it, arr, margin: ev["edge"].append((arr.meta.get("source"), margin)) or ("EDGE_BIAS", arr.meta.get("source"))

    def center_all(it, obj, *a, **k):
        names = ["estimator", "by_chrom", "skip_low", "verbose", "diploid_parx_genome"]
        ev["centre"].append((obj.meta.get("source"), list(obj.data.cols["log2"].v), dict(zip(names, a), **k)))
    model.method_prims["center_all"] = center_all

    def window(it, arr, frac, key):
        ev["window"].append((arr.meta.get("source"), list(arr.data.cols["log2"].v), frac, key))
        return arr
    model.prims["cnvlib.fix.center_by_window"] = window

    def gx(it, obj, h=False, p=None, *a, **k):
        ev["guess"].append((obj.meta.get("source"), h, p))
        return verdicts.get(obj.meta.get("source"))
    model.method_prims["guess_xx"] = gx
    model.prims["cnvlib.fix.mask_bad_bins"] = lambda it, arr: Vec([False] * len(arr.data.cols["log2"].v), aligned=True)       # (read by the bad-bin log only)

    def as_rows(it, rows):
        out = []
        for r in it.iterate(rows):
            if isinstance(r, Mat):
                out.extend(r.rows)
            else:
                out.append(_cells(r))
        return out
    # the ways numpy stacks per-sample rows into a samples x bins matrix
    for nm in ("np.vstack", "np.row_stack"):
        model.ext[nm] = lambda it, rows: Mat(as_rows(it, rows))
    model.ext["np.stack"] = lambda it, rows, axis=0, **k: Mat(as_rows(it, rows)) if axis == 0 else Mat(Mat(as_rows(it, rows)).T)

    def np_array(it, x=None, *a, nm="np.array", **k):
        if isinstance(x, Mat):
            return x
        if isinstance(x, (list, tuple)) and x and all(isinstance(r, (Vec, list, tuple)) for r in x) and len({len(_cells(r)) for r in x}) == 1 and len(_cells(x[0])) != 0 and any(isinstance(r, Vec) for r in x):
            return Mat([_cells(r) for r in x])
        return it.lib.ext_call(it, nm, [x] + list(a), k)
    model.ext["np.array"] = np_array
    model.ext["np.asarray"] = lambda it, x=None, *a, **k: np_array(it, x, *a, nm="np.asarray", **k)
    model.ext["np.transpose"] = lambda it, m, *a, **k: Mat(m.T) if isinstance(m, Mat) else it.lib.ext_call(it, "np.transpose", [m] + list(a), k)

    def concatenate(it, parts, axis=0, **k):
        parts = list(it.iterate(parts))
        if parts and all(isinstance(p_, Mat) for p_ in parts):
            return hstack(it, parts) if axis in (1, -1) else Mat([r for p_ in parts for r in p_.rows])
        return it.lib.ext_call(it, "np.concatenate", [parts], dict(k, **({"axis": axis} if axis != 0 else {})))
    model.ext["np.concatenate"] = concatenate

    def hstack(it, parts):
        parts = list(parts)
        if not all(isinstance(p_, Mat) for p_ in parts):
            raise Undecided("np.hstack of something else")
        if len({len(p_.rows) for p_ in parts}) != 1:
            raise Raised("ValueError", "all the input array dimensions except for the concatenation axis must match exactly")
        return Mat([sum((p_.rows[i] for p_ in parts), []) for i in range(len(parts[0].rows))])
    model.ext["np.hstack"] = hstack
    model.ext["np.column_stack"] = lambda it, parts: hstack(it, parts) if all(isinstance(p_, Mat) for p_ in parts) else it.lib.ext_call(it, "np.column_stack", [parts], {})

    def reg(kind, payload):
        name = f"{kind.rsplit('.', 1)[-1]}#{len(ev['reg'])}"
        ev["reg"][name] = (kind, payload)
        return Term.sym(name)

    def along(it, f, axis, m, *a, **k):
        if axis not in (0, 1) or not isinstance(m, Mat):
            raise Undecided("np.apply_along_axis on something else than the sample matrix")
        lines = m.T if axis == 0 else [tuple(r) for r in m.rows]
        if getattr(f, "qn", "").startswith("cnvlib.descriptives.") and not a and not k:
            return Vec([reg(f.qn, (col, None)) for col in lines])
        return Vec([it.call(f, [Vec(list(col))] + list(a), dict(k)) for col in lines])          # any other function: applied to each column
    model.ext["np.apply_along_axis"] = along
    for est in ("biweight_location", "biweight_midvariance", "modal_location", "median_absolute_deviation", "interquartile_range", "weighted_median", "q_n", "gapper_scale"):
        stub = (lambda it, a, *rest, est=est, **k: reg(f"cnvlib.descriptives.{est}", (tuple(_cells(a)), k.get("initial", rest[0] if rest else None))))
        stub.qn = f"cnvlib.descriptives.{est}"
        model.prims[stub.qn] = stub
    if genome is not None:
        fasta_model(model, genome, ev["fasta"])
    it = Interp(prog, model)
    out = it.run(f"{REF}.do_reference", [list(tnames), list(anames) if anames is not None else None, fa, hap, par, female, gc, edge, rmask, False, 4])
    return out, ev


def pool_maker(classes, anti=False, with_depth=True, with_gc=True, low=False, small=False, differ=None):
    """the .cnn tables of a pool (file names .../s<k>.<suffix>): same literal bins, symbolic per-file log2 / depth"""
    def make(f):
        k = int(f.rsplit("/", 1)[-1][1])
        tag = "A" if anti else "T"
        rows = []
        for i, c in enumerate(classes):
            base = (10 * i + (5 if anti else 0)) if small else 150_000_000 + 1000 * i + (500 if anti else 0)
            r = dict(chromosome=chrom(c, "chr"), start=base, end=base + (4 if small else 400), gene="Antitarget" if anti else f"g{i}",
                     log2=Term.sym(f"{tag}{k}_{c}", -INF if low else -4, -16 if low else 4))
            if with_gc:
                r["gc"] = Term.sym(f"GC{tag}_{c}", 0, 1)
            if with_depth:
                r["depth"] = Term.sym(f"D{tag}{k}_{c}", 0, INF)
            rows.append(r)
        if differ and differ[0] == k:
            if differ[1] == "gene":
                rows[1]["gene"] = "OTHER"
            elif differ[1] == "end":
                rows[-1]["end"] += 7
            elif differ[1] == "start":
                rows[0]["start"] += 1             # e.g. a 1-based start in one file
        return make_ga("CopyNumArray", rows, {"_classes": list(classes), "sample_id": f"s{k}", "source": f}, exact=True)
    return make


def e2e(chk, prog):
    chk.clause("E2E", "do_reference on literal pools (3 samples given out of name order; targets with / without antitargets): every bin of the result carries the stated "
                      "estimators of its own column [flat value, each sample's shifted log2 in sample-name order]; per sample centre -> shift -> the enabled corrections")
    fi = prog.fn(f"{REF}.do_reference")
    tb = Table(chk, "matrix-shape", "do_reference end to end: reference sex x PAR genome x sample sex (given / inferred with partial and conflicting calls) x antitargets x correction switches "
                                    "x depth column x mostly-empty pool", fi.loc(), fi.qn)
    tn = ["/d/s1.targetcoverage.cnn", "/d/s0.targetcoverage.cnn", "/d/s2.targetcoverage.cnn"]
    an = ["/e/s2.antitargetcoverage.cnn", "/e/s0.antitargetcoverage.cnn", "/e/s1.antitargetcoverage.cnn"]
    # inferred calls: s0 male in both; s1 female by its targets, male by its antitargets (the antitarget call wins); s2 not callable from its targets, female by its
    # antitargets.  Either way a female sample is processed after a male one (state carried from one sample to the next shows)
    verdicts = {"/d/s0.targetcoverage.cnn": False, "/d/s1.targetcoverage.cnn": True, "/e/s0.antitargetcoverage.cnn": False, "/e/s1.antitargetcoverage.cnn": False, "/e/s2.antitargetcoverage.cnn": True}
    grid = []
    for hap, par, female, with_anti in itertools.product([False, True], [None, "grch38"], [None, True, False], [True, False]):
        for flags in ((True, True, True), (False, False, False), (True, False, True), (False, True, False)):
            grid.append(dict(hap=hap, par=par, female=female, with_anti=with_anti, flags=flags, with_depth=True, low=False))
    for hap, with_anti in itertools.product([False, True], [True, False]):
        grid.append(dict(hap=hap, par=None, female=None, with_anti=with_anti, flags=(True, True, True), with_depth=False, low=False))
        grid.append(dict(hap=hap, par=None, female=True, with_anti=with_anti, flags=(True, True, True), with_depth=True, low=True))
    if chk.tier != "thorough":
        grid = [g for i, g in enumerate(grid) if g["flags"] in ((True, True, True), (False, False, False)) or i % 3 == 0]
    for cfg in grid:
        hap, par, female, with_anti, (gc, edge, rmask), with_depth, low = (cfg[k] for k in ("hap", "par", "female", "with_anti", "flags", "with_depth", "low"))
        W.reset()
        classes = ["auto", "x", "parx", "y"] if par else ["auto", "x", "y"]
        mt, ma = pool_maker(classes, with_depth=with_depth, low=low), pool_maker(classes, anti=True, with_depth=with_depth, low=low)
        label = " ".join(f"{k}={v}" for k, v in cfg.items())
        try:
            out, ev = run_reference(prog, tn, an if with_anti else None, lambda f: (ma if "anti" in f else mt)(f), hap, par, female, gc, edge, rmask, verdicts)
        except Raised as e:
            tb.cell(False, dict(cfg, raised=str(e)[:200]))
            continue
        except Undecided as e:
            raise AnalysisError(f"C05-E2E: cannot interpret do_reference ({label}): {e}")
        # ---- oracle
        if female is not None:
            sex = {k: female for k in range(3)}
        elif with_anti:
            sex = {0: False, 1: False, 2: True}
        else:
            sex = {0: False, 1: True, 2: None}
        flat = {"auto": 0, "x": -1 if hap else 0, "parx": 0, "y": -1}

        def raw(tag, k, c):
            return Term.sym(f"{tag}{k}_{c}")

        def shifted(tag, k, c):
            v = raw(tag, k, c)
            if c in ("auto", "parx"):
                return v
            if c == "x":
                return t_add(v, Term.const(flat["x"] + (0 if sex[k] else 1)))
            return Term.const(-1) if sex[k] else v
        problems = []
        blocks = [("T", tn)] + ([("A", an)] if with_anti else [])
        want_rows = sorted(((("X" if c in ("x", "parx") else "Y" if c == "y" else "1"), i, tag, c) for tag, _ in blocks for i, c in enumerate(classes)), key=lambda r: (r[0] != "1", r[0], r[1], r[2] == "A"))
        cols = out.data.cols if isinstance(out, GA) else {}
        n = len(cols["log2"].v) if "log2" in cols else -1
        if n != len(want_rows) or not getattr(out.data, "exact", False):
            problems.append(f"{n} bins in the reference, {len(want_rows)} expected")
        else:
            for j, (_chr, i, tag, c) in enumerate(want_rows):
                gene = "Antitarget" if tag == "A" else f"g{i}"
                if cols["gene"].v[j] != gene or cols["chromosome"].v[j] != chrom(c, "chr"):
                    problems.append(f"row {j} is {cols['chromosome'].v[j]} {cols['gene'].v[j]}, expected {chrom(c, 'chr')} {gene} (bins sorted by position, targets and antitargets interleaved)")
                    continue
                wl = [Term.const(flat[c])] + [shifted(tag, k, c) for k in range(3)]
                wd = [(Term.sym(f"D{tag}{k}_{c}") if with_depth else f_exp2(raw(tag, k, c))) for k in range(3)]

                def looked(col):
                    v = cols[col].v[j] if col in cols else None
                    return (v, ev["reg"].get(repr(v))) if isinstance(v, Term) else (v, None)
                lv, lreg = looked("log2")
                dv, dreg = looked("depth")
                sv, sreg = looked("spread")
                if not (lreg and lreg[0] == "cnvlib.descriptives.biweight_location" and len(lreg[1][0]) == 4 and all(same(a, b) for a, b in zip(lreg[1][0], wl))):
                    problems.append(f"{gene} {c}: log2 = {lreg[0].rsplit('.', 1)[-1] + repr(list(lreg[1][0])) if lreg else repr(lv)}, expected biweight_location{[repr(x) for x in wl]}")
                if not (dreg and dreg[0] == "cnvlib.descriptives.biweight_location" and len(dreg[1][0]) == 3 and all(same(a, b) for a, b in zip(dreg[1][0], wd))):
                    problems.append(f"{gene} {c}: depth = {dreg[0].rsplit('.', 1)[-1] + repr(list(dreg[1][0])) if dreg else repr(dv)}, expected biweight_location{[repr(x) for x in wd]}")
                if not (sreg and sreg[0] == "cnvlib.descriptives.biweight_midvariance" and len(sreg[1][0]) == 4 and all(same(a, b) for a, b in zip(sreg[1][0], wl)) and sreg[1][1] is not None
                        and isinstance(lv, Term) and same(sreg[1][1], lv)):
                    problems.append(f"{gene} {c}: spread = {sreg[0].rsplit('.', 1)[-1] + repr(sreg[1]) if sreg else repr(sv)}, expected biweight_midvariance(its log2 column, initial = its log2)")
                if gc and "gc" in cols and not same(cols["gc"].v[j], Term.sym(f"GC{tag}_{c}")):
                    problems.append(f"{gene} {c}: gc = {cols['gc'].v[j]!r}")
            if gc and "gc" not in cols:
                problems.append("the files' gc column is not carried to the reference")
            if out.meta.get("sample_id") != "reference":
                problems.append(f"sample_id {out.meta.get('sample_id')!r}")
        # ---- per-sample processing, as seen at the boundaries
        want_centre, want_window = [], []
        for tag, names in blocks:
            order = sorted(names, key=lambda f: f.rsplit("/", 1)[-1])
            for f in order:
                k = int(f.rsplit("/", 1)[-1][1])
                want_centre.append((f, [raw(tag, k, c) for c in classes], tag == "T"))
                if not low:
                    kinds = (["gc"] if gc else []) + (["edge"] if edge and tag == "T" else [])
                    for kind in kinds:
                        want_window.append((f, [shifted(tag, k, c) for c in classes], kind, order[0], tag))
        gotc = ev["centre"]
        if len(gotc) != len(want_centre):
            problems.append(f"{len(gotc)} samples centred, {len(want_centre)} expected")
        else:
            for (f, snap, kw_), (wf, wsnap, wskip) in zip(gotc, want_centre):
                if f != wf:
                    problems.append(f"processing order: {f} where {wf} is due (sample-name order within the targets, then the antitargets)")
                    break
                if not all(same(a, b) for a, b in zip(snap, wsnap)):
                    problems.append(f"{f}: centred on {snap}, not on the file's own values (before the sex shift)")
                if kw_.get("skip_low", False) is not wskip or kw_.get("diploid_parx_genome") != par or kw_.get("estimator") not in (None, "median") or kw_.get("by_chrom", True) is not True:
                    problems.append(f"{f}: center_all({kw_}), expected skip_low={wskip}, diploid_parx_genome={par!r}")
        gotw = ev["window"]
        if len(gotw) != len(want_window):
            problems.append(f"{len(gotw)} bias corrections, {len(want_window)} expected ({'none: most bins have no coverage' if low else 'gc, then edge on targets, per enabled switch'})")
        else:
            for (f, snap, frac, key), (wf, wsnap, kind, first, tag) in zip(gotw, want_window):
                keyok = (isinstance(key, tuple) and key == ("EDGE_BIAS", first)) if kind == "edge" else (isinstance(key, Vec) and all(same(a, Term.sym(f"GC{tag}_{c}")) for a, c in zip(key.v, classes)))
                if f != wf or not keyok or not same(frac, Fr(1, 10)):
                    problems.append(f"{f}: correction by {repr(key)[:40]} (window {frac}), expected the {kind} correction of {wf}")
                elif not all(same(a, b) for a, b in zip(snap, wsnap)):
                    problems.append(f"{f}: {kind}-corrected at {snap}, expected the values after centring and the sex shift {wsnap}")
        firsts = [sorted(names, key=lambda f: f.rsplit("/", 1)[-1])[0] for _t, names in blocks]
        if [e_[0] for e_ in ev["edge"]] != firsts or not all(same(e_[1], 250) for e_ in ev["edge"]):
            problems.append(f"edge covariate computed from {ev['edge']}, expected once per block from its first file with the 250 bp insert size")
        if female is None:
            wg = [(f, False, par) for f in tn] + ([(f, False, par) for f in an] if with_anti else [])
            if ev["guess"] != wg:
                problems.append(f"sexes inferred by {ev['guess']}, expected each target then each antitarget file, relative to a diploid-X reference, with the PAR genome")
        elif ev["guess"]:
            problems.append("the sample sex was given, yet inferred again")
        tb.cell(not problems, dict(cfg, problems=problems[:4], n_problems=len(problems), sexes={f"s{k}": v for k, v in sex.items()}))
    tb.done("the pooled reference is not, bin by bin, the robust location / spread of [flat value, each sample's log2 centred then shifted to the reference sex then corrected], "
            "targets and antitargets each in sample-name order with their own switches")
    # files whose bins differ are refused
    tb3 = Table(chk, "must-pass-through", "do_reference: a pool with one file whose bins differ (gene name, an end, a start shifted by one base at 150 Mb; a target or an antitarget file) is refused", fi.loc(), fi.qn + "::bins")
    for label, differ_t, differ_a in (("same bins", None, None), ("target s1: a gene name differs", (1, "gene"), None), ("target s2: one end differs", (2, "end"), None), ("target s0 (the first by name) differs", (0, "end"), None),
                                      ("target s2: one start shifted by one base", (2, "start"), None), ("antitarget s1: one start shifted by one base", None, (1, "start"))):
        W.reset()
        classes = ["auto", "x", "y"]
        mt, ma = pool_maker(classes, differ=differ_t), pool_maker(classes, anti=True, differ=differ_a)
        try:
            run_reference(prog, tn, an, lambda f: (ma if "anti" in f else mt)(f), False, None, True, False, False, False, {})
            raised = None
        except Raised as e:
            raised = str(e)
        except Undecided as e:
            raise AnalysisError(f"C05-E2E: cannot interpret do_reference ({label}): {e}")
        want_raise = bool(differ_t or differ_a)
        tb3.cell((raised is not None) == want_raise, dict(case=label, raised=raised, want="raises" if want_raise else "returns"))
    tb3.done("files whose bins (chromosome, start, end, gene) differ are pooled row by row instead of being rejected")
    # with a genome sequence: GC and repeat fractions of the first file's own bins, computed once per block; per sample GC, then repeats (antitargets), then edges (targets)
    tb4 = Table(chk, "matrix-shape", "do_reference with a genome sequence (literal 3-contig genome): gc / rmask covariates of each block's own bins, corrections in the order gc, rmask, edge", fi.loc(), fi.qn + "::genome sequence")
    genome = {"chr1": "ACGTacgtNNGGCCaattTTTTGGGGccccNNNNACACacgt", "chrX": "ttttGGGGNNNNacgtACGTAAAACCCCggggTTTTaaaaCC", "chrY": "GGGGccccAAAAttttNNNNNNNNNNNNNNNNNNNNacgtAC"}
    for gc, edge, rmask in itertools.product([False, True], repeat=3):
        W.reset()
        classes = ["auto", "x", "y"]
        mt, ma = pool_maker(classes, small=True, with_gc=False), pool_maker(classes, anti=True, small=True, with_gc=False)
        try:
            out, ev = run_reference(prog, tn, an, lambda f: (ma if "anti" in f else mt)(f), False, None, True, gc, edge, rmask, {}, fa="genome.fa", genome=genome)
        except Raised as e:
            tb4.cell(False, dict(fix_gc=gc, fix_edge=edge, fix_rmask=rmask, raised=str(e)[:200]))
            continue
        except Undecided as e:
            raise AnalysisError(f"C05-E2E: cannot interpret do_reference with a genome sequence: {e}")

        def stats(anti):
            vals = []
            for i, c in enumerate(classes):
                b = 10 * i + (5 if anti else 0)
                sub = genome[chrom(c, "chr")][b:b + 4]
                vals.append((base_fraction(sub, "gcGC"), base_fraction(sub, "acgt")))
            return vals

        def close(vec, want):
            try:
                return isinstance(vec, (Vec, list, tuple)) and len(_cells(vec)) == len(want) and all(abs(Fr(T(a).cval()) - w) < Fr(1, 10 ** 9) for a, w in zip(_cells(vec), want))
            except Exception:
                return False
        problems = []
        per_file = {}
        for f, _snap, _frac, key in ev["window"]:
            anti = "anti" in f
            st = stats(anti)
            kind = "edge" if isinstance(key, tuple) and key[:1] == ("EDGE_BIAS",) else "gc" if close(key, [g_ for g_, _ in st]) else "rmask" if close(key, [r_ for _, r_ in st]) else f"? {repr(key)[:40]}"
            per_file.setdefault(f, []).append(kind)
        for f in tn + an:
            anti = "anti" in f
            want = (["gc"] if gc else []) + (["rmask"] if rmask and anti else []) + (["edge"] if edge and not anti else [])
            if per_file.get(f, []) != want:
                problems.append(f"{f}: corrections {per_file.get(f, [])}, expected {want}")
        want_opened = ([("genome.fa", True)] if gc else []) + ([("genome.fa", True)] if (gc or rmask) else [])
        if ev["fasta"] != want_opened:
            problems.append(f"genome opened {ev['fasta']}, expected {want_opened} (once per block that needs it, raw strings)")
        tb4.cell(not problems, dict(fix_gc=gc, fix_edge=edge, fix_rmask=rmask, problems=problems[:4]))
    tb4.done("with a genome sequence the samples are not corrected by the GC / repeat fractions of their block's own bins (gc, then rmask on antitargets, then edge on targets)")


def d6(chk, prog):
    chk.clause("D6", "gc = (G+C)/(unambiguous bases), rmask = lowercase/(unambiguous bases); (0, 0) without unambiguous bases; [start:end] slices")
    fi = prog.maybe_fn(f"{REF}.calculate_gc_lo")
    if fi is None:
        chk.note("reference.calculate_gc_lo is not there under that name: the fractions are decided on the literal genome of E2E (each bin's gc / rmask through do_reference)")
        return
    tb = Table(chk, "gc-rmask-closed-form", "calculate_gc_lo as exact rational identities over eight count symbols", fi.loc(), fi.qn)

    class Seq:
        def __init__(self, counts):
            self.counts = counts

        def count(self, ch):
            return self.counts.get(ch, 0)

        def abs_len(self):
            if all(isinstance(v, int) for v in self.counts.values()):
                return sum(self.counts.values())
            return Term.sym("seq_length", 0, INF, True)

        def upper(self):
            raise Undecided("case folding of the sequence (rmask needs the case)")
    W.reset()
    it = Interp(prog)
    cnt = {ch: Term.sym(f"n_{ch}", 0, INF, True) for ch in "acgtACGT"}
    cnt["N"] = Term.sym("n_N", 0, INF, True)
    cnt["n"] = Term.sym("n_n", 0, INF, True)
    old = CTX.atoms
    CTX.atoms = lambda d, op: True                      # total != 0
    try:
        out = tb.guard(lambda: it.run(fi.qn, [Seq(cnt)]), "generic sequence")
    finally:
        CTX.atoms = old
    if out is not None:
        tot = Term.const(0)
        for ch in "acgtACGT":
            tot = t_add(tot, cnt[ch])
        gc = t_div(t_add(t_add(cnt["g"], cnt["c"]), t_add(cnt["G"], cnt["C"])), tot)
        lo = t_div(t_add(t_add(cnt["a"], cnt["c"]), t_add(cnt["g"], cnt["t"])), tot)
        tb.cell(len(out) == 2 and same(out[0], gc), dict(value="gc", got=repr(out[0]), want="(g+c+G+C)/(a+c+g+t+A+C+G+T)"))
        tb.cell(len(out) == 2 and same(out[1], lo), dict(value="rmask", got=repr(out[1]), want="(a+c+g+t)/(a+c+g+t+A+C+G+T)"))
    W.reset()
    it = Interp(prog)
    out = tb.guard(lambda: it.run(fi.qn, [Seq({"N": 20, "n": 3})]), "only ambiguous bases")
    if out is not None:
        tb.cell(len(out) == 2 and same(out[0], 0) and same(out[1], 0), dict(case="no unambiguous base", got=repr(out)))
    tb.done("gc / rmask are not the fractions of unambiguous bases")
    # get_fasta_stats on a literal genome: each bin's own [start:end) bases, in bin order, (gc, rmask) in that order
    fg = prog.maybe_fn(f"{REF}.get_fasta_stats")
    if fg is None:
        chk.note("reference.get_fasta_stats is not there under that name: decided on the literal genome of E2E")
        return
    tb2 = Table(chk, "gc-rmask-closed-form", "get_fasta_stats on a literal two-sequence genome: the bases of each bin's own 0-based half-open interval, in bin order", fg.loc(), fg.qn)
    genome = {"chr2": "ACGTacgtNNGGCCaattTTTTGGGGccccNNNNACAC", "chr10": "ttttGGGGNNNNacgtACGTAAAACCCC"}      # genomic order is not string order

    class RawSeq:
        def __init__(self, text):
            self.text = text

        def abs_getitem(self, it, k):
            if isinstance(k, slice) and all(x is None or (isinstance(x, int) and not isinstance(x, bool)) for x in (k.start, k.stop, k.step)):
                return self.text[k]
            raise Undecided(f"sequence subscript {k!r}")

    class Wrapped:
        """what pyfaidx hands out without as_raw=True: a Sequence object, not a str (no .count)"""

        def __init__(self, text):
            self.text = text

        def abs_getitem(self, it, k):
            return Wrapped(self.text[k] if isinstance(k, slice) else self.text)

        def count(self, ch):
            raise Raised("AttributeError", "'Sequence' object has no attribute 'count' (pyfaidx without as_raw=True)")

    class Fasta:
        def __init__(self, raw):
            self.raw = raw

        def abs_getitem(self, it, k):
            if k not in genome:
                raise Raised("KeyError", k)
            return RawSeq(genome[k]) if self.raw else Wrapped(genome[k])
    bins = [("chr2", 0, 8), ("chr2", 8, 10), ("chr2", 10, 22), ("chr2", 20, 38), ("chr10", 0, 4), ("chr10", 4, 12), ("chr10", 12, 28)]
    W.reset()
    model = Model()
    opened = []

    def fasta(it, fname, as_raw=False, opened=opened, **k):
        opened.append((fname, as_raw))
        return Fasta(as_raw is True)
    model.ext["pyfaidx.Fasta"] = fasta
    model.ext["np.asarray"] = lambda it, x, **k: list(x)
    g = make_ga("CopyNumArray", [dict(chromosome=c, start=s_, end=e_, gene="g", log2=0) for c, s_, e_ in bins], {}, index="any", exact=True, labels=[30 + i for i in range(len(bins))])
    it = Interp(prog, model)
    out = tb2.guard(lambda: it.run(fg.qn, [g, "hg.fa"]), "literal genome")
    if out is not None:
        def frac(text, chars):
            tot = sum(text.count(ch) for ch in "acgtACGT")
            return Fr(sum(text.count(ch) for ch in chars), tot) if tot else Fr(0)
        ok = isinstance(out, tuple) and len(out) == 2 and len(out[0]) == len(bins) and len(out[1]) == len(bins) and opened == [("hg.fa", True)]
        for i, (c, s_, e_) in enumerate(bins):
            sub = genome[c][s_:e_]
            wg, wr = frac(sub, "gcGC"), frac(sub, "acgt")
            cell_ok = ok and abs(Fr(out[0][i]) - wg) < Fr(1, 10 ** 9) and abs(Fr(out[1][i]) - wr) < Fr(1, 10 ** 9)
            tb2.cell(cell_ok, dict(bin=f"{c}:{s_}-{e_}", bases=sub, got=(str(out[0][i]), str(out[1][i])) if ok else repr(out)[:80], want=(str(wg), str(wr))))
    tb2.done("a bin's GC / repeat-masked fraction is not computed from that bin's own [start:end) bases (or the two values are swapped / misordered)")


def d7(chk, prog):
    chk.clause("D7", "role-flow of the correction / sex / PAR flags from the command line and `batch` into do_reference / do_reference_flat")
    # the callers of the public entry points (the command line and `batch`); inside reference.py the routing is decided by E2E
    roles.check(chk, prog, modules=("cnvlib.commands", "cnvlib.batch"),
                roles_of_interest=("REF_HAPLOID_X", "PAR_GENOME", "FIX_GC", "FIX_EDGE", "FIX_RMASK", "CLUSTER", "SAMPLE_FEMALE"),
                floor=8, callee_modules=(REF,))


def d11(chk, prog):
    chk.clause("D11", "the `reference` command line: every accepted spelling of -x / --sample-sex reaches do_reference as that sex; -y, the PAR genome and the correction switches as given")
    from .. import argmodel
    fi = prog.fn("cnvlib.commands._cmd_reference")
    ps = argmodel.parser_of(prog, "_cmd_reference")
    opt = ps.opt("sample_sex")
    if not isinstance(opt.choices, (tuple, list)) or not opt.choices:
        raise AnalysisError("reference --sample-sex declares no literal choices")
    tb = Table(chk, "sex-shift-table", f"_cmd_reference on the namespace argparse builds: -x in {list(opt.choices)} or absent, x -y, x --no-gc / --no-edge / --no-rmask", fi.loc(), fi.qn)
    fnames = ["b.targetcoverage.cnn", "a.targetcoverage.cnn", "a.antitargetcoverage.cnn", "b.antitargetcoverage.cnn"]
    for choice, male_ref, flags in itertools.product([None] + list(opt.choices), [False, True], [(), ("--no-gc",), ("--no-edge", "--no-rmask")]):
        W.reset()
        argv = list(fnames) + ["-f", "genome.fa", "--diploid-parx-genome", "grch38"] + (["-x", choice] if choice else []) + (["-y"] if male_ref else []) + list(flags)
        model = Model()
        model.attr_hooks.append(argmodel.ns_hook)
        seen = {}

        def do_ref(it, *a, seen=seen, **k):
            fd = prog.fn("cnvlib.reference.do_reference")
            names = [x.arg for x in fd.node.args.args]
            defaults = dict(zip(names[len(names) - len(fd.node.args.defaults):], [ast.literal_eval(d) for d in fd.node.args.defaults]))
            b = dict(defaults)
            b.update(zip(names, a))
            b.update(k)
            seen["call"] = b
            return "REF"
        model.prims["cnvlib.reference.do_reference"] = do_ref
        model.prims["cnvlib.core.ensure_path"] = lambda it, f: True
        model.prims["skgenome.tabio.write"] = lambda it, *a, **k: seen.setdefault("written", a[0])
        model.ext["os.path.isdir"] = lambda it, p_: False
        it = Interp(prog, model)

        def go():
            ns = argmodel.parse(ps, argv)
            return ("done", it.run(fi.qn, [ns]))
        out = tb.guard(go, " ".join(argv[4:]))
        if out is None:
            continue
        b = seen.get("call") or {}
        want_sex = None if choice is None else (choice.lower() in ("f", "x", "female"))
        ok = seen.get("written") == "REF" and b.get("female_samples") is want_sex and b.get("is_haploid_x_reference") is male_ref and b.get("diploid_parx_genome") == "grch38" \
            and b.get("fa_fname") == "genome.fa" and b.get("do_gc") is ("--no-gc" not in flags) and b.get("do_edge") is ("--no-edge" not in flags) and b.get("do_rmask") is ("--no-rmask" not in flags) \
            and sorted(b.get("target_fnames") or []) == sorted(f for f in fnames if "antitarget" not in f) and sorted(b.get("antitarget_fnames") or []) == sorted(f for f in fnames if "antitarget" in f)
        tb.cell(ok, dict(command_line=" ".join(argv[4:]), do_reference={k: repr(v) for k, v in b.items() if k in ("female_samples", "is_haploid_x_reference", "diploid_parx_genome", "do_gc", "do_edge", "do_rmask")},
                         want_female_samples=want_sex))
    tb.done("a stated sample sex (or -y / the PAR genome / a correction switch) does not reach do_reference as given: the samples are shifted as the other sex")


def d13(chk, prog):
    chk.clause("D13", "one id per sample: the sexes and the pooled columns are keyed by fbase(file name); names that differ before their last extension stay apart")
    fi = prog.fn("cnvlib.core.fbase")
    tb = Table(chk, "sample-sexes", "fbase on literal file names: directory and .gz dropped, a known coverage / pipeline suffix dropped whole, otherwise the last extension only", fi.loc(), fi.qn)
    cases = {"/d/S1.targetcoverage.cnn": "S1", "S1.antitargetcoverage.cnn": "S1", "run/S2.targetcoverage.csv": "S2", "pool.A.cnn": "pool.A", "pool.B.cnn": "pool.B", "a.b.c.cns": "a.b.c",
             "x.cnr.gz": "x", "S.recal.bam": "S", "S.deduplicated.realign.bam": "S", "S.sorted.bam": "S.sorted", "noext": "noext", "dir.with.dots/T.cnn": "T", "sample-3.final.targetcoverage.cnn": "sample-3.final"}
    got = {}
    for name, want in cases.items():
        W.reset()
        it = Interp(prog)
        out = tb.guard(lambda: ("v", it.run(fi.qn, [name])), name)
        if out is None:
            continue
        got[name] = out[1]
        tb.cell(out[1] == want, dict(file=name, sample_id=out[1], want=want))
    if len(got) == len(cases):
        distinct = len({got[n] for n in ("pool.A.cnn", "pool.B.cnn", "a.b.c.cns", "S.sorted.bam")}) == 4
        tb.cell(distinct, dict(case="files of one pool named pool.A / pool.B keep different ids", ids={n: got[n] for n in ("pool.A.cnn", "pool.B.cnn")}))
    tb.done("two files of a pool get the same sample id (their sexes and columns collide), or an id keeps part of the file suffix")


def run(chk):
    prog = chk.prog
    chk.trust("Python grammar via ast", "boolean-mask stores / numpy broadcasting (absmodel.py)", "str.count counts non-overlapping occurrences of one character")
    chk.assume("row-wise parametricity of the sex-shift code (enforced by the interpreter)", "the levels a sample comes in at are the property's premise: female X 0, male X -1, Y -1 relative to autosomes")
    d2(chk, prog)
    chk.clause("LABELS", "the names under which the reference's X / Y bins are found: the table's own naming style, whichever sex chromosomes it has (C15 rule)")
    from . import C15
    C15.sex_labels(chk, prog)
    # (earlier versions decided the sex shift, the block loader, the stacking / summarising, the sample-sex mapping and the shared per-pool state one private function of
    #  reference.py at a time, each interpreted with the next one stubbed by name; a rename, a move, an inlining or a re-signing of any of them -- no change of behaviour --
    #  left the check undecided.  E2E interprets do_reference whole with stubs at the module / library boundaries only; every seeded change and mutant the per-function
    #  clauses caught is caught by it: retired)
    e2e(chk, prog)
    d13(chk, prog)
    d6(chk, prog)
    d7(chk, prog)
    d11(chk, prog)
    chk.clause("D12", "the per-sample corrections depend on the sample alone: no draw from a generator that outlives the call in reference / fix (shared-generator rule of C10-D2)")
    from .. import rules
    hits = [(sfi, sn, desc) for sfi, sn, desc in rules.shared_generators(prog) if sfi.mod in ("cnvlib.fix", "cnvlib.reference")]
    for sfi, sn, desc in hits:
        chk.violate("estimator-binding", f"{sfi.qn}::{norm(sn)[:70]}", sfi.loc(sn), f"`{norm(sn)[:60]}` draws from a generator that outlives the call ({desc}): every sample of the pool -- and every correction -- "
                    "is shuffled differently, so normals that differ only in depth no longer reproduce their common profile")
    if not hits:
        chk.ok("estimator-binding", "no draw from a module-level / default-argument / class-attribute generator in cnvlib.fix / cnvlib.reference")
    chk.clause("D10", "each sample is centred on its covered autosomal bins before pooling: center_all (C15-D1 rule)")
    from . import C15, C19
    C15.d1(chk, prog)
    # the estimators bound in D5 are Tukey's biweight location / midvariance (C19-D6 rule: literal vectors against the published formula)
    C19.d6(chk, prog, names=("biweight_location", "biweight_midvariance"))


_R = "cnvlib/reference.py"
MUTANTS = [
    dict(name="male shift only on X", file=_R, old='        cnarr[is_chr_x | is_chr_y, "log2"] += 1.0', new='        cnarr[is_chr_x, "log2"] += 1.0'),
    dict(name="female Y set to 0", file=_R, old='        cnarr[is_chr_y, "log2"] = -1.0  # np.nan is worse', new='        cnarr[is_chr_y, "log2"] = 0.0'),
    dict(name="flat profile not added", file=_R, old='    cnarr["log2"] += ref_flat_logr\n', new=""),
    dict(name="unknown sex treated as female", file=_R, old="    is_xx = sexes.get(cnarr.sample_id)\n", new="    is_xx = sexes.get(cnarr.sample_id, True)\n"),
    dict(name="flat X -1 for female reference too", file="cnvlib/cnary.py", old="            idx = (self.chr_y_filter()).values\n        cvg[idx] = -1.0", new="            idx = self.chr_x_filter(diploid_parx_genome).values | (self.chr_y_filter()).values\n        cvg[idx] = -1.0"),
    dict(name="flat Y at 0", file="cnvlib/cnary.py", old="        cvg[idx] = -1.0\n        return cvg", new="        cvg[idx] = -1.0\n        if not is_haploid_x_reference:\n            cvg[idx] = 0.0\n        return cvg"),
    dict(name="bins check turned into a warning", file=_R, old="            raise RuntimeError(\n                f\"{fname} bins do not match those in {filenames[0]}\"\n            )", new="            logging.warning(\n                f\"{fname} bins do not match those in {filenames[0]}\"\n            )"),
    dict(name="bins check ignores gene", file=_R, old='            cnarr1.data.loc[:, ("chromosome", "start", "end", "gene")].values,\n            cnarrx.data.loc[:, ("chromosome", "start", "end", "gene")].values,', new='            cnarr1.data.loc[:, ("chromosome", "start", "end")].values,\n            cnarrx.data.loc[:, ("chromosome", "start", "end")].values,'),
    dict(name="no pseudo-sample row", file=_R, old="    all_logr = [\n        ref_flat_logr,\n        bias_correct_logr(", new="    all_logr = [\n        bias_correct_logr("),
    dict(name="files not sorted", file=_R, old="    filenames = sorted(filenames, key=core.fbase)\n", new="    filenames = list(filenames)\n"),
    dict(name="shift before centring", file=_R, old="    cnarr.center_all(skip_low=skip_low, diploid_parx_genome=diploid_parx_genome)\n    shift_sex_chroms(cnarr, sexes, ref_flat_logr, is_chr_x, is_chr_y)\n", new="    shift_sex_chroms(cnarr, sexes, ref_flat_logr, is_chr_x, is_chr_y)\n    cnarr.center_all(skip_low=skip_low, diploid_parx_genome=diploid_parx_genome)\n"),
    dict(name="location by median", file=_R, old="    cvg_centers = np.apply_along_axis(descriptives.biweight_location, 0, all_logr)", new="    cvg_centers = np.apply_along_axis(np.median, 0, all_logr)"),
    dict(name="spread without initial", file=_R, old="            descriptives.biweight_midvariance(a, initial=i)", new="            descriptives.biweight_midvariance(a)"),
    dict(name="gc counts n", file=_R, old='    cnt_gc_lo = subseq.count("g") + subseq.count("c")', new='    cnt_gc_lo = subseq.count("g") + subseq.count("c") + subseq.count("n")'),
    dict(name="gc over sequence length (seeded C05b)", file=_R, old="    tot = float(cnt_gc_up + cnt_gc_lo + cnt_at_up + cnt_at_lo)", new="    tot = float(len(subseq))"),
    dict(name="rmask drops G/C", file=_R, old="    frac_lo = (cnt_at_lo + cnt_gc_lo) / tot", new="    frac_lo = cnt_at_lo / tot"),
    dict(name="sequence slice shifted", file=_R, old="                yield fa_file[_chrom][int(start) : int(end)]", new="                yield fa_file[_chrom][int(start) - 1 : int(end)]"),
    dict(name="swap fix_edge / fix_rmask for targets", file=_R, old="        filenames, fa_fname, is_haploid_x, diploid_parx_genome, sexes, True, fix_gc, fix_edge, False\n", new="        filenames, fa_fname, is_haploid_x, diploid_parx_genome, sexes, True, fix_gc, False, fix_edge\n"),
    dict(name="swap is_chr_x / is_chr_y at the call", file=_R, old="    shift_sex_chroms(cnarr, sexes, ref_flat_logr, is_chr_x, is_chr_y)\n", new="    shift_sex_chroms(cnarr, sexes, ref_flat_logr, is_chr_y, is_chr_x)\n"),
    dict(name="in-place widening of the shared Y mask (seeded C05a)", file=_R, old='        cnarr[is_chr_x | is_chr_y, "log2"] += 1.0', new='        is_chr_y |= is_chr_x\n        cnarr[is_chr_y, "log2"] += 1.0'),
    dict(name="seeded C05d: flat profile computed before the antitargets are added", file=_R, old='    ref_probes = bed2probes(targets)\n    if antitargets:\n        ref_probes.add(bed2probes(antitargets))\n    # Set sex chromosomes by "reference" sex\n    ref_probes["log2"] = ref_probes.expect_flat_log2(is_haploid_x_reference, diploid_parx_genome)\n',
         new='    ref_probes = bed2probes(targets)\n    # Set sex chromosomes by "reference" sex\n    ref_probes["log2"] = ref_probes.expect_flat_log2(is_haploid_x_reference, diploid_parx_genome)\n    if antitargets:\n        ref_probes.add(bed2probes(antitargets))\n'),
    dict(name="seeded C15d: PAR-Y of a female reference left at 0", file="cnvlib/cnary.py", old="            idx = (self.chr_y_filter()).values\n        cvg[idx] = -1.0", new="            idx = (self.chr_y_filter(diploid_parx_genome)).values\n        cvg[idx] = -1.0"),
    dict(name="antitarget depths stacked before the target depths", file=_R, old="        all_depths = np.hstack([all_depths, anti_depths])", new="        all_depths = np.hstack([anti_depths, all_depths])"),
    dict(name="twin: the stacked matrices sliced to the width of the stacked bin table (all columns: the table was stacked first)", expect="silent", file=_R, old="    stats_all = summarize_info(all_logr, all_depths)\n", new="    stats_all = summarize_info(all_logr[:, :len(ref_df)], all_depths[:, :len(ref_df)])\n"),
    dict(name="summary of the target block only", file=_R, old="    stats_all = summarize_info(all_logr, all_depths)\n    ref_df = ref_df.assign(**stats_all)\n", new="    n_t = len(ref_df) - (len(anti_ref_df) if antitarget_fnames else 0)\n    stats_all = summarize_info(all_logr[:, :n_t], all_depths[:, :n_t])\n    ref_df = ref_df.iloc[:n_t].assign(**stats_all)\n"),
    dict(name="twin: combine_probes summary unpacked explicitly", expect="silent", file=_R, old="    stats_all = summarize_info(all_logr, all_depths)\n    ref_df = ref_df.assign(**stats_all)\n", new="    summary = summarize_info(all_logr, all_depths)\n    ref_df = ref_df.assign(log2=summary[\"log2\"], depth=summary[\"depth\"], spread=summary[\"spread\"])\n"),
    dict(name="sequence slice shifted by one", file=_R, old="                yield fa_file[_chrom][int(start) : int(end)]", new="                yield fa_file[_chrom][int(start) + 1 : int(end) + 1]"),
    dict(name="FASTA opened without as_raw", file=_R, old="    with pyfaidx.Fasta(fa_fname, as_raw=True) as fa_file:", new="    with pyfaidx.Fasta(fa_fname) as fa_file:"),
    dict(name="gc and rmask returned swapped", file=_R, old="    return np.asarray(gc_vals, dtype=float), np.asarray(rm_vals, dtype=float)", new="    return np.asarray(rm_vals, dtype=float), np.asarray(gc_vals, dtype=float)"),
    dict(name="twin: sequence slice through named bounds", expect="silent", file=_R, old="                yield fa_file[_chrom][int(start) : int(end)]", new="                lo, hi = int(start), int(end)\n                seq = fa_file[_chrom]\n                yield seq[lo:hi]"),
    dict(name="seeded C05e: sequences extracted in groupby (string-sorted) chromosome order", file=_R, old="        for chrom, subarr in intervals.by_chromosome():\n", new="        for chrom, subarr in sorted(intervals.by_chromosome()):\n"),
    dict(name="antitarget-only sex calls dropped", file=_R, old="                if t_is_xx is None:\n                    sexes[sid] = a_is_xx\n                elif", new="                if t_is_xx is None:\n                    pass\n                elif"),
    dict(name="target sex call preferred over the antitarget call", file=_R, old="                        \"female\" if a_is_xx else \"male\",\n                    )\n                    sexes[sid] = a_is_xx", new="                        \"female\" if a_is_xx else \"male\",\n                    )"),
    dict(name="twin: first array renamed throughout load_sample_block", edits=[(_R, "cnarr1", "first_arr", True)], expect="silent"),
    dict(name="twin: masks computed in another order, flat profile first", file=_R, old="    is_chr_x = cnarr1.chr_x_filter(diploid_parx_genome)\n    is_chr_y = cnarr1.chr_y_filter(diploid_parx_genome)\n    ref_flat_logr = cnarr1.expect_flat_log2(is_haploid_x, diploid_parx_genome)\n",
         new="    ref_flat_logr = cnarr1.expect_flat_log2(is_haploid_x, diploid_parx_genome)\n    x_mask = cnarr1.chr_x_filter(diploid_parx_genome)\n    is_chr_y = cnarr1.chr_y_filter(diploid_parx_genome)\n    is_chr_x = x_mask\n", expect="silent"),
    dict(name="twin: bins check split into two raises", file=_R, old="        if not np.array_equal(\n            cnarr1.data.loc[:, (\"chromosome\", \"start\", \"end\", \"gene\")].values,\n            cnarrx.data.loc[:, (\"chromosome\", \"start\", \"end\", \"gene\")].values,\n        ):",
         new="        same_coords = np.array_equal(\n            cnarr1.data.loc[:, (\"chromosome\", \"start\", \"end\")].values,\n            cnarrx.data.loc[:, (\"chromosome\", \"start\", \"end\")].values,\n        )\n        same_genes = np.array_equal(cnarr1.data.loc[:, (\"gene\",)].values, cnarrx.data.loc[:, (\"gene\",)].values)\n        if not (same_coords and same_genes):", expect="silent"),
    dict(name="twin: mask operands swapped", file=_R, old='        cnarr[is_chr_x | is_chr_y, "log2"] += 1.0', new='        cnarr[is_chr_y | is_chr_x, "log2"] += 1.0', expect="silent"),
    dict(name="twin: gc sum reordered", file=_R, old="    frac_gc = (cnt_gc_lo + cnt_gc_up) / tot", new="    frac_gc = (cnt_gc_up + cnt_gc_lo) / float(tot)", expect="silent"),
]
