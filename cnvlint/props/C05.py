"""C05 -- the pooled reference is the robust per-bin consensus in the chosen reference sex.
D1 sex-shift table, D2 flat reference table, D3 files whose bins differ are rejected, D4 matrix shape / processing order,
D5 estimator binding, D6 gc / rmask closed forms, D7 role-flow of the positional flags, D8 shared per-pool state is not mutated."""
import ast
import itertools
from fractions import Fraction as Fr

from ..abstools import *
from ..absint import CTX
from ..absval import Raised
from ..core import AnalysisError, own_nodes, norm, parents, stmt_of, dominates
from ..effects import Effects, Resolver
from .. import roles, flow
from . import C10

LEVEL_TEXT = ('static analysis: (D1) expect_flat_log2 and shift_sex_chroms, composed the way load_sample_block composes them, are interpreted on '
              'one representative bin per chromosome class (autosome, X, PAR-X, Y) for sample sex {female, male, unknown} x reference sex x PAR '
              "genome x naming with symbolic per-bin noise: a sample at its sex's expected levels comes out at X = -1 (male reference) / 0 "
              '(female reference), Y = -1 (exactly -1 for a female sample), autosomes and PAR-X unchanged; (D2) the flat reference is 0 on '
              'autosomes, -1 on Y, -1 on X iff the reference is male, PAR-X 0 with a PAR genome, PAR-Y -1 for a female reference, stored by '
              'do_reference_flat to log2 with depth = 2^log2 on target and antitarget bins alike; (D3) in load_sample_block every sample after '
              'the first reaches the matrix only through a test of (chromosome, start, end, gene) that raises on any difference -- also a one-'
              'base difference at 150 Mb; (D4, interpreted end to end through load_sample_block with recording stubs at center_all / '
              'shift_sex_chroms / fix.center_by_window, 88 cells incl. a genome sequence and a mostly-empty pool) row 0 of the matrix is the flat'
              " pseudo-sample, every other row the sample's corrected log2 = centre, shift sex chromosomes, then corrections; files are processed"
              ' in sorted(key=fbase) order; (D5) log2 <- biweight_location over samples, spread <- biweight_midvariance(initial = that location),'
              ' depth <- biweight_location of depths, and combine_probes (interpreted with the block loader stubbed) stacks target and antitarget'
              ' bins, log2 matrix and depth matrix in one order and summarises them once onto the bins; (D6) calculate_gc_lo = '
              '((g+c+G+C)/(a+c+g+t+A+C+G+T), (a+c+g+t)/(same)) as exact rational identities over eight count symbols, (0, 0) for no unambiguous '
              "base; get_fasta_stats interpreted on a literal two-sequence genome (chr2, chr10) returns each bin's own [start:end) fractions in "
              'bin order, gc first; (D7) the positional correction / sex / PAR flags reach same-role parameters, targets get (skip_low, gc, edge,'
              ' no rmask), antitargets (no skip_low, gc, no edge, rmask); (D8) the masks, flat profile and covariates computed once per pool are '
              'not mutated by the per-sample functions (effects fix-point); (D10) every sample is centred by center_all on its covered autosomal '
              'bins (C15-D1 rule); (D9) do_reference hands combine_probes the given sex for every sample, or the inferred one: the antitarget '
              'call where there is one, else the target call (a sample callable only from antitargets keeps its call). (D11) the `reference` '
              'command line, through a model of argparse built from the declarations in commands.py: for every accepted spelling of -x / '
              '--sample-sex (and none), x -y, x the correction switches, _cmd_reference hands do_reference that sex, reference sex, PAR genome, '
              'switches and the target / antitarget files; (C19-D6) biweight_location and biweight_midvariance, interpreted on 11 literal vectors'
              " with exact rationals, equal an independent transcription of Tukey's formulas (majority-tied data included). (D12) no draw in fix "
              '/ reference comes from a generator object that outlives the call. (LABELS) the names under which the X / Y bins are found follow '
              "the table's own naming style, whichever sex chromosomes it has (C15 rule). (D13) fbase on 13 literal file names: directory and .gz"
              ' dropped, a known coverage / pipeline suffix dropped whole, otherwise the last extension only -- pool.A.cnn and pool.B.cnn keep '
              'different sample ids. (D8) takes every parameter but the first of every function under load_sample_block as pool-shared state that'
              ' must not be mutated. Does not decide behaviour with corrections on, or sex inference accuracy.')
TECHNIQUE = ('abstract interpretation over chromosome classes x sex flags (symbolic noise terms); dominance; exact rational identities; role-'
             'flow; effect summaries; argparse model for the command-line glue; exact evaluation of the estimators against formula '
             'transcriptions')

REF = "cnvlib.reference"
CLS4 = ["auto", "x", "parx", "y"]


def d1(chk, prog):
    chk.clause("D1", "sex-chromosome shift: sample at its expected levels -> reference-sex levels (X -1|0, Y -1)")
    fi = prog.fn(f"{REF}.shift_sex_chroms")
    tb = Table(chk, "sex-shift", "expect_flat_log2 o shift_sex_chroms (class x sample sex x reference sex x PAR genome x naming)", fi.loc(), fi.qn)
    for sex, hap, par, style in itertools.product([True, False, None], [False, True], [None, "grch38"], ["", "chr"]):
        W.reset()
        it = Interp(prog, par_model())
        classes = [c for c in CLS4 if not (c == "parx" and par is None)]
        noise = {c: Term.sym(f"e_{c}") for c in classes}
        level = {"auto": 0, "x": 0 if sex else -1, "parx": 0, "y": 0 if sex else -1}       # female Y: arbitrary noise level

        def lg(i, c):
            return t_add(Term.const(level[c]), noise[c])
        g = cna(classes, style, log2=lg)
        g.meta["sample_id"] = "S"
        first = cna(classes, style)           # cnarr1 of the pool: only its chromosome names matter

        def run():
            isx = it.run_method(first, "chr_x_filter", [par])
            isy = it.run_method(first, "chr_y_filter", [par])
            flat = it.run_method(first, "expect_flat_log2", [hap, par])
            it.run(fi.qn, [g, ({"S": sex} if sex is not None else {}), flat, isx, isy])
            return g.data.cols["log2"].v
        out = tb.guard(run, f"sex={sex} hap={hap} par={par}")
        if out is None:
            continue
        for i, c in enumerate(classes):
            if c == "auto" or c == "parx":
                want = noise[c]
            elif c == "x":
                want = t_add(Term.const(-1 if hap else 0), noise[c])
            else:
                want = Term.const(-1) if sex else t_add(Term.const(-1), noise[c])
            tb.cell(same(out[i], want), dict(sample_female=sex, haploid_x_reference=hap, par_genome=par, naming=style or "bare", cls=c, got=repr(out[i]), want=repr(want)))
    tb.done("a pooled sample's sex chromosomes are not brought to the reference sex's levels")


FLAT_CLASSES = ["auto", "x", "parx", "y", "pary"]


def flat_want(c, hap, par):
    """flat reference level of a class; None = not stated (PAR-Y under a male reference with a PAR genome: the code excludes it from
    the single-copy Y there, the property does not speak of it)"""
    if par is None:
        c = {"parx": "x", "pary": "y"}.get(c, c)
    if c == "pary":
        return None if hap else -1
    return {"auto": 0, "x": -1 if hap else 0, "parx": 0, "y": -1}[c]


def d2(chk, prog):
    chk.clause("D2", "flat reference: 0 autosomes, -1 Y (PAR included for a female reference), -1 X iff male reference (PAR-X 0 with a PAR genome); depth = 2^log2")
    fi = prog.fn("cnvlib.cnary.CopyNumArray.expect_flat_log2")
    tb = Table(chk, "flat-reference", "expect_flat_log2 table", fi.loc(), fi.qn)
    for hap, par, style in itertools.product([False, True], [None, "grch37", "grch38"], ["", "chr"]):
        W.reset()
        it = Interp(prog, par_model())
        out = tb.guard(lambda: it.run_method(cna(FLAT_CLASSES, style), "expect_flat_log2", [hap, par]), f"hap={hap} par={par}")
        if out is None:
            continue
        for i, c in enumerate(FLAT_CLASSES):
            want = flat_want(c, hap, par)
            if want is None:
                continue
            tb.cell(same(out.v[i], want), dict(haploid_x_reference=hap, par_genome=par, naming=style or "bare", cls=c, got=repr(out.v[i]), want=want))
    tb.done("the flat reference profile differs from (autosome 0, Y -1, X -1 iff male reference)")
    fd = prog.fn(f"{REF}.do_reference_flat")
    tb2 = Table(chk, "flat-reference", "do_reference_flat stores the flat profile to log2 and 2^log2 to depth, for target and antitarget bins alike", fd.loc(), fd.qn)
    for hap, par, anti in itertools.product([False, True], [None, "grch38"], [False, True]):
        W.reset()
        model = par_model()

        def probes(it, fname):
            cl = FLAT_CLASSES
            g = cna(cl, "chr", log2=lambda i, c: 0)
            g.meta["_classes"] = list(cl)
            g.meta["source"] = fname
            return g
        model.prims[f"{REF}.bed2probes"] = probes

        def add(it, obj, other):
            obj.data = DF({c: Vec(list(obj.data.cols[c].v) + list(other.data.cols[c].v), aligned=True) for c in obj.data.cols}, obj.data.n + other.data.n, "range")
            obj.meta["_classes"] = list(obj.meta["_classes"]) + list(other.meta["_classes"])
            return None
        model.method_prims["add"] = add
        it = Interp(prog, model)
        out = tb2.guard(lambda: it.run(fd.qn, ["targets.bed", "antitargets.bed" if anti else None, None, hap, par]), f"hap={hap} par={par} antitargets={anti}")
        if out is None:
            continue
        classes = FLAT_CLASSES * (2 if anti else 1)
        ok_n = out.data.n == len(classes)
        tb2.cell(ok_n, dict(hap=hap, par=par, antitargets=anti, rows=out.data.n, want_rows=len(classes)))
        if not ok_n:
            continue
        for i, c in enumerate(classes):
            want = flat_want(c, hap, par)
            if want is None:
                continue
            lg2, dp = out.data.cols["log2"].v[i], out.data.cols["depth"].v[i]
            tb2.cell(same(lg2, want) and same(dp, Fr(1, 2) if want == -1 else 1), dict(hap=hap, par=par, antitargets=anti, bin="antitarget" if i >= len(FLAT_CLASSES) else "target", cls=c, log2=repr(lg2), depth=repr(dp), want=want))
    # bed2probes: the regions as neutral bins (names kept, '-' when the file has none); GenomicArray.add appends the antitargets and re-sorts
    fb = prog.fn(f"{REF}.bed2probes")
    for has_gene in (True, False):
        W.reset()
        model = Model()
        rows = [dict(chromosome="chr2", start=5, end=50), dict(chromosome="chr1", start=0, end=10)]
        if has_gene:
            rows = [dict(r, gene=f"n{i}") for i, r in enumerate(rows)]
        model.prims["skgenome.tabio.read_auto"] = lambda it, f, *a, **k: make_ga("GenomicArray", rows, {"filename": f}, exact=True)
        it = Interp(prog, model)
        out = tb2.guard(lambda: it.run(fb.qn, ["panel/my.targets.bed"]), f"bed2probes gene column={has_gene}")
        if out is None:
            continue
        c = out.data.cols
        ok = isinstance(out, GA) and out.data.n == 2 and list(c["chromosome"].v) == ["chr2", "chr1"] and [int(T(x).cval()) for x in c["start"].v] == [5, 0] and [int(T(x).cval()) for x in c["end"].v] == [50, 10] \
            and list(c["gene"].v) == (["n0", "n1"] if has_gene else ["-", "-"]) and all(same(x, 0) for x in c["log2"].v) and all(same(x, 0) for x in c["spread"].v)
        tb2.cell(ok, dict(function="bed2probes", gene_column=has_gene, columns={k: [repr(x) for x in v.v] for k, v in c.items() if not k.startswith("__")}, sample_id=out.meta.get("sample_id")))
    tb2.done("do_reference_flat does not store the flat profile / its depth on every bin")


def pool_arrays(n_files, style="chr", gene_differs=None, coord_differs=None, with_depth=True, off_by_one=None, low=False, with_gc=False):
    """the .cnn tables of a pool: same bins (autosome, X, Y), symbolic per-file log2 / depth"""
    out = {}
    for k in range(n_files):
        rows = []
        for i, c in enumerate(("auto", "x", "y")):
            # coordinates of real magnitude (150 Mb): a one-base difference is 7e-9 of the value
            r = dict(chromosome=chrom(c, style), start=150_000_000 + 1000 * i, end=150_000_000 + 1000 * i + 500, gene=f"g{i}",
                     log2=Term.sym(f"L{k}_{c}", -INF if low else -10, -16 if low else 10))          # ordinary coverage / (low) placeholder values of bins without reads
            if with_gc:
                r["gc"] = Term.sym(f"GC_{c}", 0, 1)
            if with_depth:
                r["depth"] = Term.sym(f"D{k}_{c}", 0, INF)
            rows.append(r)
        if gene_differs == k:
            rows[1]["gene"] = "OTHER"
        if coord_differs == k:
            rows[2]["end"] = 999999
        if off_by_one == k:
            rows[0]["start"] += 1             # e.g. a 1-based start in one file
        out[k] = make_ga("CopyNumArray", rows, {"_classes": ["auto", "x", "y"], "sample_id": f"S{k}"}, exact=True)
    return out


def run_block(prog, fnames, arrays_by_name, hap, par, sexes, skip_low, fix_gc, fix_edge, fix_rmask, fasta=None):
    """load_sample_block interpreted whole; what happens to each sample is recorded at the calls it ends in -- the table's own center_all, the
    module's shift_sex_chroms and fix.center_by_window -- so the harness does not depend on how the per-sample steps are bundled in between"""
    model = par_model()
    ev = dict(read=[], bias=[], stacks=[], edge_calls=[])
    model.prims["cnvlib.cmdutil.read_cna"] = lambda it, f, *a, **k: ev["read"].append(f) or arrays_by_name[f]

    def edge_bias(it, arr, margin):
        ev["edge_calls"].append((arr, margin))
        return ("EDGE_BIAS", arr, margin)
    model.prims["cnvlib.fix.get_edge_bias"] = edge_bias

    def center_all(it, obj, *a, **k):
        names = ["estimator", "by_chrom", "skip_low", "verbose", "diploid_parx_genome"]
        k = dict(zip(names, a), **k)
        ev["bias"].append(dict(arr=obj, center=k, windows=[], flags=None, par=k.get("diploid_parx_genome"), skip_low=k.get("skip_low", False), estimator=k.get("estimator"), by_chrom=k.get("by_chrom", True)))
        return None
    model.method_prims["center_all"] = center_all

    def shift(it, arr, sexes_, flat, is_x, is_y):
        cur = next((e for e in reversed(ev["bias"]) if e["arr"] is arr), None)
        if cur is None:
            raise Raised("OrderError", "a sample's sex chromosomes are shifted before the sample was centred")
        if cur["windows"]:
            raise Raised("OrderError", "a sample's sex chromosomes are shifted after a bias correction")
        cur.update(sexes=sexes_, flat=list(flat.v), x=list(is_x.v), y=list(is_y.v), flat_obj=flat, shifted=True)
        return None
    model.prims[f"{REF}.shift_sex_chroms"] = shift

    def window(it, arr, frac, key):
        cur = next((e for e in reversed(ev["bias"]) if e["arr"] is arr), None)
        if cur is None or not cur.get("shifted"):
            raise Raised("OrderError", "a bias correction runs before the sample was centred and shifted to the reference sex")
        cur["windows"].append((frac, key))
        return arr
    model.prims["cnvlib.fix.center_by_window"] = window
    model.ext["np.vstack"] = lambda it, rows: ev["stacks"].append(list(rows)) or ("VSTACK", len(ev["stacks"]) - 1)
    model.prims[f"{REF}.get_fasta_stats"] = lambda it, arr, fa: (ev.setdefault("fasta", []).append((arr, fa)), ("GC_FROM_FASTA", "RMASK_FROM_FASTA"))[1]
    it = Interp(prog, model)
    out = it.run(f"{REF}.load_sample_block", [list(fnames), fasta, hap, par, sexes, skip_low, fix_gc, fix_edge, fix_rmask])
    return out, ev


def d3(chk, prog):
    chk.clause("D3", "a sample whose bins differ from the first file's is rejected before it joins the matrix")
    chk.rule("must-pass-through", "load_sample_block interpreted on a pool of three files: if any later file differs from the first in chromosome, start, end or gene "
             "the function raises instead of returning a matrix")
    fi = prog.fn(f"{REF}.load_sample_block")
    tb = Table(chk, "must-pass-through", "load_sample_block: a file with other bins / other gene names is refused", fi.loc(), fi.qn)
    names = ["/d/b.targetcoverage.cnn", "/d/a.targetcoverage.cnn", "/d/c.targetcoverage.cnn"]
    for label, kw in (("same bins", {}), ("third file: one end differs", dict(coord_differs=2)), ("second file: one gene name differs", dict(gene_differs=1)), ("first file differs from the rest", dict(coord_differs=0)),
                      ("third file: one start shifted by one base", dict(off_by_one=2))):
        W.reset()
        arrs = pool_arrays(3, **kw)
        by_name = {names[k]: arrs[k] for k in range(3)}
        try:
            out, ev = run_block(prog, names, by_name, False, None, {}, True, False, False, False)
            raised = None
        except Raised as e:
            out, raised = None, str(e)
        except Undecided as e:
            raise AnalysisError(f"C05-D3: cannot interpret load_sample_block ({label}): {e}")
        want_raise = bool(kw)
        tb.cell((raised is not None) == want_raise, dict(case=label, raised=raised, want="raises" if want_raise else "returns"))
    tb.done("files whose bins (chromosome, start, end, gene) differ are averaged row by row instead of being rejected")


def d4(chk, prog):
    chk.clause("D4", "matrix shape: row 0 flat pseudo-sample, other rows the samples' corrected log2; sorted file order; per sample centre -> shift -> the enabled corrections")
    fi = prog.fn(f"{REF}.load_sample_block")
    tb = Table(chk, "matrix-shape", "load_sample_block on a pool of three files (reference sex x PAR genome x flags x GC column x low coverage)", fi.loc(), fi.qn)
    names = ["/d/b.targetcoverage.cnn", "/d/a.targetcoverage.cnn", "/d/c.targetcoverage.cnn"]
    for hap, par, skip_low, fe, with_depth, fg, low in itertools.product([False, True], [None, "grch38"], [True, False], [True, False], [True, False], [False, True], [False, True]):
        if low and (with_depth or par):
            continue                                     # (the low-coverage pool once per flag combination is enough)
        W.reset()
        arrs = pool_arrays(3, with_depth=with_depth, low=low, with_gc=True)
        by_name = {names[k]: arrs[k] for k in range(3)}
        sexes = {"S0": True, "S1": False}
        try:
            out, ev = run_block(prog, names, by_name, hap, par, sexes, skip_low, fg, fe, False)
        except Raised as e:
            tb.cell(False, dict(hap=hap, par=par, fix_gc=fg, fix_edge=fe, low=low, raised=str(e)))
            continue
        except Undecided as e:
            raise AnalysisError(f"C05-D4: cannot interpret load_sample_block: {e}")
        ref_df, all_logr, all_depths = out
        order = ["/d/a.targetcoverage.cnn", "/d/b.targetcoverage.cnn", "/d/c.targetcoverage.cnn"]
        first = by_name[order[0]]
        flat = [0, -1 if hap else 0, -1]
        ok = ev["read"] == order
        logr = ev["stacks"][all_logr[1]] if isinstance(all_logr, tuple) and all_logr[0] == "VSTACK" else None
        deps = ev["stacks"][all_depths[1]] if isinstance(all_depths, tuple) and all_depths[0] == "VSTACK" else None
        ok = ok and logr is not None and len(logr) == 4 and isinstance(logr[0], Vec) and all(same(a, b) for a, b in zip(logr[0].v, flat))
        # rows 1..3: each sample's own log2 after its corrections (the recording stubs leave the values alone), in sample-name order
        if ok:
            for row, f in zip(logr[1:], order):
                ok = ok and isinstance(row, Vec) and len(row.v) == 3 and all(same(a, b) for a, b in zip(row.v, by_name[f].data.cols["log2"].v))
        if deps is not None and ok:
            for row, f in zip(deps, order):
                a = by_name[f]
                for i, c in enumerate(("auto", "x", "y")):
                    want = a.data.cols["depth"].v[i] if with_depth else f_exp2(a.data.cols["log2"].v[i])
                    ok = ok and same(row.v[i], want)
        else:
            ok = False
        calls = ev["bias"]
        ok = ok and len(calls) == 3 and [c["arr"] for c in calls] == [by_name[f] for f in order]
        ok = ok and len(ev["edge_calls"]) == 1 and ev["edge_calls"][0][0] is first and same(ev["edge_calls"][0][1], 250)
        steps = []
        for c in calls:
            # centre on the median of the chromosome medians, with the block's skip_low and PAR genome; then the shift with the pool's masks, flat profile and sexes;
            # then GC (when the first file brings a gc column and GC correction is on) before the edge correction; nothing when most bins are empty
            want_windows = [] if low else ([("gc",)] if fg else []) + ([("edge",)] if fe else [])
            got_windows = [("edge",) if isinstance(k_, tuple) and k_ and k_[0] == "EDGE_BIAS" and k_[1] is first else (("gc",) if isinstance(k_, Vec) and all(same(a_, b_) for a_, b_ in zip(k_.v, first.data.cols["gc"].v)) else ("?", repr(k_)[:30]))
                           for _fr, k_ in c["windows"]]
            fracs_ok = all(same(fr_, Fr(1, 10)) for fr_, _k in c["windows"])
            okc = c.get("shifted") and c["x"] == [False, True, False] and c["y"] == [False, False, True] and all(same(a, b) for a, b in zip(c["flat"], flat)) and c["sexes"] is sexes \
                and c["skip_low"] == skip_low and c["par"] == par and c["estimator"] in (None,) and c["by_chrom"] is True and got_windows == want_windows and fracs_ok
            ok = ok and bool(okc)
            steps.append(dict(sample=c["arr"].meta.get("sample_id"), centred_with=dict(skip_low=c["skip_low"], par=c["par"]), shifted=bool(c.get("shifted")), corrections=got_windows))
        ok = ok and isinstance(ref_df, DF) and list(ref_df.cols)[:4] == ["chromosome", "start", "end", "gene"] and all(same(a, b) for a, b in zip(ref_df.cols["start"].v, first.data.cols["start"].v))
        tb.cell(ok, dict(haploid_x_reference=hap, par_genome=par, skip_low=skip_low, fix_gc=fg, fix_edge=fe, depth_column=with_depth, mostly_no_coverage=low, files_read=ev["read"],
                         matrix_rows=[repr(x)[:40] for x in (logr or [])], per_sample_steps=steps[:2]))
    # with a genome sequence: GC and repeat fractions come from it (once, for the first file's bins); per sample GC, then repeats, then edges
    for fg, fr, fe in itertools.product([False, True], repeat=3):
        W.reset()
        arrs = pool_arrays(3)
        by_name = {names[k]: arrs[k] for k in range(3)}
        try:
            out, ev = run_block(prog, names, by_name, False, None, {}, True, fg, fe, fr, fasta="genome.fa")
        except Raised as e:
            tb.cell(False, dict(fasta=True, fix_gc=fg, fix_rmask=fr, fix_edge=fe, raised=str(e)))
            continue
        except Undecided as e:
            raise AnalysisError(f"C05-D4: cannot interpret load_sample_block with a genome sequence: {e}")
        first = by_name["/d/a.targetcoverage.cnn"]
        want_windows = (["GC_FROM_FASTA"] if fg else []) + (["RMASK_FROM_FASTA"] if fr else []) + (["edge"] if fe else [])
        got = [["edge" if isinstance(k_, tuple) and k_ and k_[0] == "EDGE_BIAS" else k_ for _f, k_ in c["windows"]] for c in ev["bias"]]
        fasta_ok = (ev.get("fasta", []) == [] and not (fg or fr)) or (len(ev.get("fasta", [])) == 1 and ev["fasta"][0][0] is first and ev["fasta"][0][1] == "genome.fa")
        tb.cell(len(got) == 3 and all(g == want_windows for g in got) and fasta_ok, dict(fasta=True, fix_gc=fg, fix_rmask=fr, fix_edge=fe, corrections_per_sample=[[repr(x)[:20] for x in g] for g in got], want=want_windows,
                                                                                         sequence_statistics_computed=len(ev.get("fasta", []))))
    tb.done("the sample matrix is not [flat pseudo-sample, corrected samples in sample-name order], each sample median-centred, shifted to the reference sex with the pool's X / Y masks, "
            "flat profile and sexes, then bias-corrected with the enabled corrections (in that order; none when most bins have no coverage)")

def d5(chk, prog):
    chk.clause("D5", "estimator binding: log2 <- biweight_location, spread <- biweight_midvariance(initial = location), depth <- biweight_location of depths")
    fi = prog.fn(f"{REF}.summarize_info")
    W.reset()
    model = Model()
    log = []
    model.ext["np.apply_along_axis"] = lambda it, f, axis, arr: ("ALONG", getattr(f, "qn", repr(f)), axis, arr)

    def midvar(it, a, initial=None, **k):
        log.append(("midvar", a, initial))
        return ("MIDVAR", a, initial)
    model.prims["cnvlib.descriptives.biweight_midvariance"] = midvar
    model.ext["np.array"] = lambda it, x, **k: ("ARRAY", list(x))

    class Mat:
        def __init__(self, name):
            self.name = name
            self.T = ["colA", "colB"] if name == "logr" else None
    logr, dep = Mat("logr"), Mat("dep")
    model.builtins["zip"] = lambda a, b: [(a[0], "centerA"), (a[1], "centerB")] if b and isinstance(b, tuple) and b[0] == "ALONG" else list(zip(a, b))
    it = Interp(prog, model)
    tb = Table(chk, "estimator-binding", "summarize_info result columns", fi.loc(), fi.qn)
    out = tb.guard(lambda: it.run(fi.qn, [logr, dep]), "summarize_info")
    if out is not None:
        okl = out.get("log2") == ("ALONG", "cnvlib.descriptives.biweight_location", 0, logr)
        okd = out.get("depth") == ("ALONG", "cnvlib.descriptives.biweight_location", 0, dep)
        sp = out.get("spread")
        oks = isinstance(sp, tuple) and sp[0] == "ARRAY" and sp[1] == [("MIDVAR", "colA", "centerA"), ("MIDVAR", "colB", "centerB")]
        tb.cell(okl, dict(column="log2", got=repr(out.get("log2"))[:120], want="biweight_location along axis 0 of the log2 matrix"))
        tb.cell(okd, dict(column="depth", got=repr(out.get("depth"))[:120], want="biweight_location along axis 0 of the depth matrix"))
        tb.cell(oks, dict(column="spread", got=repr(sp)[:160], want="biweight_midvariance(column, initial=its location) per bin"))
        tb.cell(set(out) == {"log2", "depth", "spread"}, dict(keys=sorted(out)))
    tb.done("the reference's log2 / spread / depth are not the stated robust estimators over the sample matrix")
    class MatTag(tuple):
        """a tagged sample matrix: any subscript gives a differently tagged (hence wrong) operand"""

        def abs_getitem(self, it, k):
            return MatTag(("SUBSET",) + tuple(self))

        def abs_len(self):
            return 3

    fc = prog.fn(f"{REF}.combine_probes")
    tb2 = Table(chk, "estimator-binding", "combine_probes: target and antitarget blocks loaded with their own flags, stacked in one order for bins, log2 matrix and depth matrix, summarised once onto the bins", fc.loc(), fc.qn)
    for with_anti, anti_empty in ((False, False), (True, False), (True, True)):
        W.reset()
        model = Model()
        blocks, summ = [], []

        def block(it, fnames, fa, hap, par, sexes, skip_low, gc, edge, rmask, blocks=blocks):
            kind = "T" if fnames == ["t1.cnn", "t2.cnn"] else "A"
            blocks.append((kind, fa, hap, par, sexes, skip_low, gc, edge, rmask))
            n = 2 if kind == "T" else (0 if anti_empty else 2)
            df = DF({"chromosome": Vec(["chr1"] * n, aligned=True), "start": Vec([10 * i for i in range(n)], aligned=True), "end": Vec([10 * i + 5 for i in range(n)], aligned=True),
                     "gene": Vec([f"{kind}{i}" for i in range(n)], aligned=True)}, n)
            df.exact = True
            return (df, MatTag(("LOGR", kind)), MatTag(("DEPTH", kind)))
        model.prims[f"{REF}.load_sample_block"] = block
        model.ext["np.hstack"] = lambda it, parts: MatTag(("HSTACK",) + tuple(tuple(p) for p in parts))

        def summarize(it, logr, depths, summ=summ):
            summ.append((logr, depths))
            n = 2 + (2 if with_anti and not anti_empty else 0)
            return {"log2": Vec([Term.sym(f"L{i}") for i in range(n)]), "spread": Vec([Term.sym(f"S{i}", 0, INF) for i in range(n)]), "depth": Vec([Term.sym(f"D{i}", 0, INF) for i in range(n)])}
        model.prims[f"{REF}.summarize_info"] = summarize
        model.method_prims["sort"] = lambda it, g, *a, **k: None
        model.method_prims["sort_columns"] = lambda it, g, *a, **k: None
        it = Interp(prog, model)
        out = tb2.guard(lambda: it.run(fc.qn, [["t1.cnn", "t2.cnn"], ["a1.cnn", "a2.cnn"] if with_anti else [], "hg.fa", True, "grch38", {"s": True}, "GC", "EDGE", "RMASK", False, 4]),
                        f"antitargets={with_anti} empty={anti_empty}")
        if out is None:
            continue
        want_blocks = [("T", "hg.fa", True, "grch38", {"s": True}, True, "GC", "EDGE", False)] + ([("A", "hg.fa", True, "grch38", {"s": True}, False, "GC", False, "RMASK")] if with_anti else [])
        want_summ = [(("HSTACK", ("LOGR", "T"), ("LOGR", "A")), ("HSTACK", ("DEPTH", "T"), ("DEPTH", "A")))] if with_anti else [(("LOGR", "T"), ("DEPTH", "T"))]
        genes = ["T0", "T1"] + (["A0", "A1"] if with_anti and not anti_empty else [])
        ok = blocks == want_blocks and summ == want_summ and isinstance(out, GA) and list(out.data.cols["gene"].v) == genes
        ok = ok and all(same(out.data.cols[c].v[i], Term.sym(f"{p}{i}")) for c, p in (("log2", "L"), ("spread", "S"), ("depth", "D")) for i in range(len(genes)))
        ok = ok and out.meta.get("sample_id") == "reference"
        tb2.cell(ok, dict(antitargets=with_anti, antitarget_table_empty=anti_empty, blocks=[b[0:1] + b[5:] for b in blocks], summarised=repr(summ)[:160],
                          bins=list(out.data.cols["gene"].v) if isinstance(out, GA) else repr(out)[:60]))
    tb2.done("combine_probes does not summarise the stacked target + antitarget matrices once, in the bins' order, onto the reference columns")


def d6(chk, prog):
    chk.clause("D6", "gc = (G+C)/(unambiguous bases), rmask = lowercase/(unambiguous bases); (0, 0) without unambiguous bases; [start:end] slices")
    fi = prog.fn(f"{REF}.calculate_gc_lo")
    tb = Table(chk, "gc-rmask-closed-form", "calculate_gc_lo as exact rational identities over eight count symbols", fi.loc(), fi.qn)

    class Seq:
        def __init__(self, counts):
            self.counts = counts

        def count(self, ch):
            return self.counts.get(ch, 0)

        def abs_len(self):
            if all(isinstance(v, int) for v in self.counts.values()):
                return sum(self.counts.values())
            return Term.sym("seq_length", 0, INF, True)

        def upper(self):
            raise Undecided("case folding of the sequence (rmask needs the case)")
    W.reset()
    it = Interp(prog)
    cnt = {ch: Term.sym(f"n_{ch}", 0, INF, True) for ch in "acgtACGT"}
    cnt["N"] = Term.sym("n_N", 0, INF, True)
    cnt["n"] = Term.sym("n_n", 0, INF, True)
    old = CTX.atoms
    CTX.atoms = lambda d, op: True                      # total != 0
    try:
        out = tb.guard(lambda: it.run(fi.qn, [Seq(cnt)]), "generic sequence")
    finally:
        CTX.atoms = old
    if out is not None:
        tot = Term.const(0)
        for ch in "acgtACGT":
            tot = t_add(tot, cnt[ch])
        gc = t_div(t_add(t_add(cnt["g"], cnt["c"]), t_add(cnt["G"], cnt["C"])), tot)
        lo = t_div(t_add(t_add(cnt["a"], cnt["c"]), t_add(cnt["g"], cnt["t"])), tot)
        tb.cell(len(out) == 2 and same(out[0], gc), dict(value="gc", got=repr(out[0]), want="(g+c+G+C)/(a+c+g+t+A+C+G+T)"))
        tb.cell(len(out) == 2 and same(out[1], lo), dict(value="rmask", got=repr(out[1]), want="(a+c+g+t)/(a+c+g+t+A+C+G+T)"))
    W.reset()
    it = Interp(prog)
    out = tb.guard(lambda: it.run(fi.qn, [Seq({"N": 20, "n": 3})]), "only ambiguous bases")
    if out is not None:
        tb.cell(len(out) == 2 and same(out[0], 0) and same(out[1], 0), dict(case="no unambiguous base", got=repr(out)))
    tb.done("gc / rmask are not the fractions of unambiguous bases")
    # get_fasta_stats on a literal genome: each bin's own [start:end) bases, in bin order, (gc, rmask) in that order
    fg = prog.fn(f"{REF}.get_fasta_stats")
    tb2 = Table(chk, "gc-rmask-closed-form", "get_fasta_stats on a literal two-sequence genome: the bases of each bin's own 0-based half-open interval, in bin order", fg.loc(), fg.qn)
    genome = {"chr2": "ACGTacgtNNGGCCaattTTTTGGGGccccNNNNACAC", "chr10": "ttttGGGGNNNNacgtACGTAAAACCCC"}      # genomic order is not string order

    class RawSeq:
        def __init__(self, text):
            self.text = text

        def abs_getitem(self, it, k):
            if isinstance(k, slice) and all(x is None or (isinstance(x, int) and not isinstance(x, bool)) for x in (k.start, k.stop, k.step)):
                return self.text[k]
            raise Undecided(f"sequence subscript {k!r}")

    class Wrapped:
        """what pyfaidx hands out without as_raw=True: a Sequence object, not a str (no .count)"""

        def __init__(self, text):
            self.text = text

        def abs_getitem(self, it, k):
            return Wrapped(self.text[k] if isinstance(k, slice) else self.text)

        def count(self, ch):
            raise Raised("AttributeError", "'Sequence' object has no attribute 'count' (pyfaidx without as_raw=True)")

    class Fasta:
        def __init__(self, raw):
            self.raw = raw

        def abs_getitem(self, it, k):
            if k not in genome:
                raise Raised("KeyError", k)
            return RawSeq(genome[k]) if self.raw else Wrapped(genome[k])
    bins = [("chr2", 0, 8), ("chr2", 8, 10), ("chr2", 10, 22), ("chr2", 20, 38), ("chr10", 0, 4), ("chr10", 4, 12), ("chr10", 12, 28)]
    W.reset()
    model = Model()
    opened = []

    def fasta(it, fname, as_raw=False, opened=opened, **k):
        opened.append((fname, as_raw))
        return Fasta(as_raw is True)
    model.ext["pyfaidx.Fasta"] = fasta
    model.ext["np.asarray"] = lambda it, x, **k: list(x)
    g = make_ga("CopyNumArray", [dict(chromosome=c, start=s_, end=e_, gene="g", log2=0) for c, s_, e_ in bins], {}, index="any", exact=True, labels=[30 + i for i in range(len(bins))])
    it = Interp(prog, model)
    out = tb2.guard(lambda: it.run(fg.qn, [g, "hg.fa"]), "literal genome")
    if out is not None:
        def frac(text, chars):
            tot = sum(text.count(ch) for ch in "acgtACGT")
            return Fr(sum(text.count(ch) for ch in chars), tot) if tot else Fr(0)
        ok = isinstance(out, tuple) and len(out) == 2 and len(out[0]) == len(bins) and len(out[1]) == len(bins) and opened == [("hg.fa", True)]
        for i, (c, s_, e_) in enumerate(bins):
            sub = genome[c][s_:e_]
            wg, wr = frac(sub, "gcGC"), frac(sub, "acgt")
            cell_ok = ok and abs(Fr(out[0][i]) - wg) < Fr(1, 10 ** 9) and abs(Fr(out[1][i]) - wr) < Fr(1, 10 ** 9)
            tb2.cell(cell_ok, dict(bin=f"{c}:{s_}-{e_}", bases=sub, got=(str(out[0][i]), str(out[1][i])) if ok else repr(out)[:80], want=(str(wg), str(wr))))
    tb2.done("a bin's GC / repeat-masked fraction is not computed from that bin's own [start:end) bases (or the two values are swapped / misordered)")


def d9(chk, prog):
    chk.clause("D9", "sample sexes handed to the pooling: the given sex for every sample, or the inferred one -- antitarget call preferred, target call otherwise, antitarget-only calls kept")
    fi = prog.fn(f"{REF}.do_reference")
    tb = Table(chk, "sample-sexes", "do_reference: the `sexes` mapping reaching combine_probes (given / inferred from targets and antitargets with partial calls)", fi.loc(), fi.qn)
    tfiles, afiles = ["A.targetcoverage.cnn", "B.targetcoverage.cnn", "C.targetcoverage.cnn", "D.targetcoverage.cnn"], ["A.anti.cnn", "B.anti.cnn", "C.anti.cnn", "D.anti.cnn"]
    t_calls = {"A": True, "B": False, "C": True}                       # D: not callable from targets (no chrX bins on the panel)
    a_calls = {"A": True, "B": True, "D": False}                       # C: empty antitarget file
    for given, with_anti in itertools.product([None, True, False], [True, False]):
        W.reset()
        model = Model()
        seen, infer_args = {}, []

        def infer(it, fnames, hap, par, infer_args=infer_args):
            infer_args.append((list(fnames), hap, par))
            return dict(t_calls if list(fnames) == tfiles else a_calls)
        model.prims[f"{REF}.infer_sexes"] = infer
        model.prims["cnvlib.cmdutil.read_cna"] = lambda it, fname, *a, **k: make_ga("CopyNumArray", [dict(chromosome="chr1", start=0, end=1, gene="g", log2=0)], {"sample_id": fname.split(".")[0]})

        def combine(it, *args, seen=seen):
            seen["args"] = args
            return make_ga("CopyNumArray", [dict(chromosome="chr1", start=0, end=1, gene="g", log2=0, spread=0)], {"sample_id": "reference"})
        model.prims[f"{REF}.combine_probes"] = combine
        model.prims[f"{REF}.warn_bad_bins"] = lambda it, *a, **k: None
        it = Interp(prog, model)
        out = tb.guard(lambda: it.run(fi.qn, [tfiles, afiles if with_anti else None, None, True, "grch38", given]), f"female_samples={given} antitargets={with_anti}")
        if out is None:
            continue
        sexes = seen.get("args", [None] * 6)[5]
        if given is not None:
            want = {s: given for s in "ABCD"}
        elif with_anti:
            want = {"A": True, "B": True, "C": True, "D": False}
        else:
            want = dict(t_calls)
        ok = isinstance(sexes, dict) and dict(sexes) == want
        if given is None:
            ok = ok and infer_args == [(tfiles, False, "grch38")] + ([(afiles, False, "grch38")] if with_anti else [])
        tb.cell(ok, dict(female_samples=given, antitargets=with_anti, sexes=dict(sexes) if isinstance(sexes, dict) else repr(sexes), want=want, infer_calls=[(a[0][0], a[1], a[2]) for a in infer_args]))
    # infer_sexes itself: one entry per file whose array is non-empty and whose sex could be guessed
    fs = prog.fn(f"{REF}.infer_sexes")
    for hap, par in itertools.product([False, True], [None, "grch38"]):
        W.reset()
        model = Model()
        calls = []
        verdict = {"A": True, "B": False, "C": None}

        def read(it, fname, *a, **k):
            sid = fname.split(".")[0]
            if sid == "E":
                g = GA("CopyNumArray", DF({c: Vec([], aligned=True) for c in ("chromosome", "start", "end", "gene", "log2")}, 0), 0, {"sample_id": sid})
                g.data.exact = True
                return g
            return make_ga("CopyNumArray", [dict(chromosome="chr1", start=0, end=1, gene="g", log2=0)], {"sample_id": sid}, exact=True)
        model.prims["cnvlib.cmdutil.read_cna"] = read

        def gx(it, obj, h=False, p=None, *a, calls=calls, **k):
            calls.append((obj.meta["sample_id"], h, p))
            return verdict[obj.meta["sample_id"]]
        model.method_prims["guess_xx"] = gx
        it = Interp(prog, model)
        out = tb.guard(lambda: it.run(fs.qn, [["A.cnn", "E.cnn", "B.cnn", "C.cnn"], hap, par]), f"infer_sexes hap={hap} par={par}")
        if out is None:
            continue
        tb.cell(isinstance(out, dict) and dict(out) == {"A": True, "B": False} and calls == [("A", hap, par), ("B", hap, par), ("C", hap, par)],
                dict(function="infer_sexes", haploid_x_reference=hap, par=par, result=dict(out) if isinstance(out, dict) else repr(out), guess_calls=calls))
    tb.done("the per-sample sexes used to shift the sex chromosomes are not the given / inferred ones (a sample without a call is treated as male)")


def d7(chk, prog):
    chk.clause("D7", "role-flow of the correction / sex / PAR flags; target vs antitarget constant flags")
    roles.check(chk, prog, modules=(REF, "cnvlib.commands", "cnvlib.batch"),
                roles_of_interest=("REF_HAPLOID_X", "PAR_GENOME", "FIX_GC", "FIX_EDGE", "FIX_RMASK", "SKIP_LOW", "CLUSTER", "SEXES", "IS_CHR_X", "IS_CHR_Y", "REF_FLAT", "REF_COLUMNS", "REF_EDGE_BIAS", "SAMPLE_FEMALE"),
                floor=40, callee_modules=(REF, "cnvlib.cnary", "cnvlib.fix"))
    fi = prog.fn(f"{REF}.combine_probes")
    res = Resolver(prog)
    lsb = prog.fn(f"{REF}.load_sample_block")
    calls = [n for n in own_nodes(fi.node) if isinstance(n, ast.Call) and lsb in res.resolve_call(n, fi)]
    chk.floor("load_sample_block call sites", len(calls), 2)
    calls.sort(key=lambda n: n.lineno)
    want = [dict(filenames="filenames", skip_low="True", fix_gc="fix_gc", fix_edge="fix_edge", fix_rmask="False"),
            dict(filenames="antitarget_fnames", skip_low="False", fix_gc="fix_gc", fix_edge="False", fix_rmask="fix_rmask")]
    for c, w, label in zip(calls, want, ("target", "antitarget")):
        got = {p: norm(flow.arg_of(c, lsb, p)) if flow.arg_of(c, lsb, p) is not None else None for p in w}
        chk.decide(got == w, "role-flow", f"{label} block: {got}", f"{fi.qn}::load_sample_block({label})", fi.loc(c),
                   f"the {label} block must be loaded with {w}; got {got}")


def d8(chk, prog):
    chk.clause("D8", "state shared by all samples of a pool (masks, flat profile, covariates, sexes) is not mutated by the per-sample functions")
    chk.rule("shared-state", "mut[bias_correct_logr] and mut[shift_sex_chroms] must not contain the parameters computed once per pool: a mutation makes "
             "later samples depend on earlier ones (file order)")
    eff = Effects(prog)
    atomic = C10._atomic(prog)
    # the per-sample functions load_sample_block hands each sample to: their first parameter is the sample's own table (theirs to modify),
    # every other parameter is computed once per pool and reused -- whatever those parameters are called or bundled into
    lsb = prog.fn(f"{REF}.load_sample_block")
    res_ = Resolver(prog)
    per_sample = []
    work = [lsb]
    while work:
        f_ = work.pop()
        for n in own_nodes(f_.node):
            if isinstance(n, ast.Call):
                for c in res_.resolve_call(n, f_):
                    if c.mod == REF and c is not lsb and c not in per_sample and len(c.params) >= 2:
                        per_sample.append(c)
                        work.append(c)
    if not per_sample:
        raise AnalysisError(f"{REF}: no per-sample function found under load_sample_block")
    shared = {c.qn: tuple(c.params[1:]) for c in per_sample}
    for qn, params_ in shared.items():
        fi = prog.fn(qn)
        bad = []
        for p in params_:
            if p in eff.sum[qn].mut:
                for root in eff.roots(qn, p, atomic=atomic):
                    bad.append((p, root))
        if not bad:
            chk.ok("shared-state", f"{fi.name}: none of {list(params_)} is mutated", where=fi.loc(), cells=len(params_))
        for p, root in bad:
            rqn, rparam, where, construct = root
            chk.violate("shared-state", f"{rqn}::{construct}", where, f"`{construct}` mutates `{p}`, which load_sample_block computes once and reuses for every sample: "
                        "samples processed later see the modified value (e.g. a male sample widens the chrY mask, and every following female sample gets chrX overwritten)",
                        witness=dict(chain=eff.chain(qn, p, root)))


def d11(chk, prog):
    chk.clause("D11", "the `reference` command line: every accepted spelling of -x / --sample-sex reaches do_reference as that sex; -y, the PAR genome and the correction switches as given")
    from .. import argmodel
    fi = prog.fn("cnvlib.commands._cmd_reference")
    ps = argmodel.parser_of(prog, "_cmd_reference")
    opt = ps.opt("sample_sex")
    if not isinstance(opt.choices, (tuple, list)) or not opt.choices:
        raise AnalysisError("reference --sample-sex declares no literal choices")
    tb = Table(chk, "sex-shift-table", f"_cmd_reference on the namespace argparse builds: -x in {list(opt.choices)} or absent, x -y, x --no-gc / --no-edge / --no-rmask", fi.loc(), fi.qn)
    fnames = ["b.targetcoverage.cnn", "a.targetcoverage.cnn", "a.antitargetcoverage.cnn", "b.antitargetcoverage.cnn"]
    for choice, male_ref, flags in itertools.product([None] + list(opt.choices), [False, True], [(), ("--no-gc",), ("--no-edge", "--no-rmask")]):
        W.reset()
        argv = list(fnames) + ["-f", "genome.fa", "--diploid-parx-genome", "grch38"] + (["-x", choice] if choice else []) + (["-y"] if male_ref else []) + list(flags)
        model = Model()
        model.attr_hooks.append(argmodel.ns_hook)
        seen = {}

        def do_ref(it, *a, seen=seen, **k):
            fd = prog.fn("cnvlib.reference.do_reference")
            names = [x.arg for x in fd.node.args.args]
            defaults = dict(zip(names[len(names) - len(fd.node.args.defaults):], [ast.literal_eval(d) for d in fd.node.args.defaults]))
            b = dict(defaults)
            b.update(zip(names, a))
            b.update(k)
            seen["call"] = b
            return "REF"
        model.prims["cnvlib.reference.do_reference"] = do_ref
        model.prims["cnvlib.core.ensure_path"] = lambda it, f: True
        model.prims["skgenome.tabio.write"] = lambda it, *a, **k: seen.setdefault("written", a[0])
        model.ext["os.path.isdir"] = lambda it, p_: False
        it = Interp(prog, model)

        def go():
            ns = argmodel.parse(ps, argv)
            return ("done", it.run(fi.qn, [ns]))
        out = tb.guard(go, " ".join(argv[4:]))
        if out is None:
            continue
        b = seen.get("call") or {}
        want_sex = None if choice is None else (choice.lower() in ("f", "x", "female"))
        ok = seen.get("written") == "REF" and b.get("female_samples") is want_sex and b.get("is_haploid_x_reference") is male_ref and b.get("diploid_parx_genome") == "grch38" \
            and b.get("fa_fname") == "genome.fa" and b.get("do_gc") is ("--no-gc" not in flags) and b.get("do_edge") is ("--no-edge" not in flags) and b.get("do_rmask") is ("--no-rmask" not in flags) \
            and sorted(b.get("target_fnames") or []) == sorted(f for f in fnames if "antitarget" not in f) and sorted(b.get("antitarget_fnames") or []) == sorted(f for f in fnames if "antitarget" in f)
        tb.cell(ok, dict(command_line=" ".join(argv[4:]), do_reference={k: repr(v) for k, v in b.items() if k in ("female_samples", "is_haploid_x_reference", "diploid_parx_genome", "do_gc", "do_edge", "do_rmask")},
                         want_female_samples=want_sex))
    tb.done("a stated sample sex (or -y / the PAR genome / a correction switch) does not reach do_reference as given: the samples are shifted as the other sex")


def d13(chk, prog):
    chk.clause("D13", "one id per sample: the sexes and the pooled columns are keyed by fbase(file name); names that differ before their last extension stay apart")
    fi = prog.fn("cnvlib.core.fbase")
    tb = Table(chk, "sample-sexes", "fbase on literal file names: directory and .gz dropped, a known coverage / pipeline suffix dropped whole, otherwise the last extension only", fi.loc(), fi.qn)
    cases = {"/d/S1.targetcoverage.cnn": "S1", "S1.antitargetcoverage.cnn": "S1", "run/S2.targetcoverage.csv": "S2", "pool.A.cnn": "pool.A", "pool.B.cnn": "pool.B", "a.b.c.cns": "a.b.c",
             "x.cnr.gz": "x", "S.recal.bam": "S", "S.deduplicated.realign.bam": "S", "S.sorted.bam": "S.sorted", "noext": "noext", "dir.with.dots/T.cnn": "T", "sample-3.final.targetcoverage.cnn": "sample-3.final"}
    got = {}
    for name, want in cases.items():
        W.reset()
        it = Interp(prog)
        out = tb.guard(lambda: ("v", it.run(fi.qn, [name])), name)
        if out is None:
            continue
        got[name] = out[1]
        tb.cell(out[1] == want, dict(file=name, sample_id=out[1], want=want))
    if len(got) == len(cases):
        distinct = len({got[n] for n in ("pool.A.cnn", "pool.B.cnn", "a.b.c.cns", "S.sorted.bam")}) == 4
        tb.cell(distinct, dict(case="files of one pool named pool.A / pool.B keep different ids", ids={n: got[n] for n in ("pool.A.cnn", "pool.B.cnn")}))
    tb.done("two files of a pool get the same sample id (their sexes and columns collide), or an id keeps part of the file suffix")


def run(chk):
    prog = chk.prog
    chk.trust("Python grammar via ast", "boolean-mask stores / numpy broadcasting (absmodel.py)", "str.count counts non-overlapping occurrences of one character")
    chk.assume("row-wise parametricity of the sex-shift functions (enforced by the interpreter)", "input levels of D1 are the property's premise: female X 0, male X -1, Y -1 relative to autosomes")
    d1(chk, prog)
    d2(chk, prog)
    chk.clause("LABELS", "the names under which the reference's X / Y bins are found: the table's own naming style, whichever sex chromosomes it has (C15 rule)")
    from . import C15
    C15.sex_labels(chk, prog)
    d3(chk, prog)
    d4(chk, prog)
    d13(chk, prog)
    d5(chk, prog)
    d6(chk, prog)
    d7(chk, prog)
    d8(chk, prog)
    d9(chk, prog)
    d11(chk, prog)
    chk.clause("D12", "the per-sample corrections depend on the sample alone: no draw from a generator that outlives the call in reference / fix (shared-generator rule of C10-D2)")
    from .. import rules
    hits = [(sfi, sn, desc) for sfi, sn, desc in rules.shared_generators(prog) if sfi.mod in ("cnvlib.fix", "cnvlib.reference")]
    for sfi, sn, desc in hits:
        chk.violate("estimator-binding", f"{sfi.qn}::{norm(sn)[:70]}", sfi.loc(sn), f"`{norm(sn)[:60]}` draws from a generator that outlives the call ({desc}): every sample of the pool -- and every correction -- "
                    "is shuffled differently, so normals that differ only in depth no longer reproduce their common profile")
    if not hits:
        chk.ok("estimator-binding", "no draw from a module-level / default-argument / class-attribute generator in cnvlib.fix / cnvlib.reference")
    chk.clause("D10", "each sample is centred on its covered autosomal bins before pooling: center_all (C15-D1 rule)")
    from . import C15, C19
    C15.d1(chk, prog)
    # the estimators bound in D5 are Tukey's biweight location / midvariance (C19-D6 rule: literal vectors against the published formula)
    C19.d6(chk, prog, names=("biweight_location", "biweight_midvariance"))


_R = "cnvlib/reference.py"
MUTANTS = [
    dict(name="male shift only on X", file=_R, old='        cnarr[is_chr_x | is_chr_y, "log2"] += 1.0', new='        cnarr[is_chr_x, "log2"] += 1.0'),
    dict(name="female Y set to 0", file=_R, old='        cnarr[is_chr_y, "log2"] = -1.0  # np.nan is worse', new='        cnarr[is_chr_y, "log2"] = 0.0'),
    dict(name="flat profile not added", file=_R, old='    cnarr["log2"] += ref_flat_logr\n', new=""),
    dict(name="unknown sex treated as female", file=_R, old="    is_xx = sexes.get(cnarr.sample_id)\n", new="    is_xx = sexes.get(cnarr.sample_id, True)\n"),
    dict(name="flat X -1 for female reference too", file="cnvlib/cnary.py", old="            idx = (self.chr_y_filter()).values\n        cvg[idx] = -1.0", new="            idx = self.chr_x_filter(diploid_parx_genome).values | (self.chr_y_filter()).values\n        cvg[idx] = -1.0"),
    dict(name="flat Y at 0", file="cnvlib/cnary.py", old="        cvg[idx] = -1.0\n        return cvg", new="        cvg[idx] = -1.0\n        if not is_haploid_x_reference:\n            cvg[idx] = 0.0\n        return cvg"),
    dict(name="bins check turned into a warning", file=_R, old="            raise RuntimeError(\n                f\"{fname} bins do not match those in {filenames[0]}\"\n            )", new="            logging.warning(\n                f\"{fname} bins do not match those in {filenames[0]}\"\n            )"),
    dict(name="bins check ignores gene", file=_R, old='            cnarr1.data.loc[:, ("chromosome", "start", "end", "gene")].values,\n            cnarrx.data.loc[:, ("chromosome", "start", "end", "gene")].values,', new='            cnarr1.data.loc[:, ("chromosome", "start", "end")].values,\n            cnarrx.data.loc[:, ("chromosome", "start", "end")].values,'),
    dict(name="no pseudo-sample row", file=_R, old="    all_logr = [\n        ref_flat_logr,\n        bias_correct_logr(", new="    all_logr = [\n        bias_correct_logr("),
    dict(name="files not sorted", file=_R, old="    filenames = sorted(filenames, key=core.fbase)\n", new="    filenames = list(filenames)\n"),
    dict(name="shift before centring", file=_R, old="    cnarr.center_all(skip_low=skip_low, diploid_parx_genome=diploid_parx_genome)\n    shift_sex_chroms(cnarr, sexes, ref_flat_logr, is_chr_x, is_chr_y)\n", new="    shift_sex_chroms(cnarr, sexes, ref_flat_logr, is_chr_x, is_chr_y)\n    cnarr.center_all(skip_low=skip_low, diploid_parx_genome=diploid_parx_genome)\n"),
    dict(name="location by median", file=_R, old="    cvg_centers = np.apply_along_axis(descriptives.biweight_location, 0, all_logr)", new="    cvg_centers = np.apply_along_axis(np.median, 0, all_logr)"),
    dict(name="spread without initial", file=_R, old="            descriptives.biweight_midvariance(a, initial=i)", new="            descriptives.biweight_midvariance(a)"),
    dict(name="gc counts n", file=_R, old='    cnt_gc_lo = subseq.count("g") + subseq.count("c")', new='    cnt_gc_lo = subseq.count("g") + subseq.count("c") + subseq.count("n")'),
    dict(name="gc over sequence length (seeded C05b)", file=_R, old="    tot = float(cnt_gc_up + cnt_gc_lo + cnt_at_up + cnt_at_lo)", new="    tot = float(len(subseq))"),
    dict(name="rmask drops G/C", file=_R, old="    frac_lo = (cnt_at_lo + cnt_gc_lo) / tot", new="    frac_lo = cnt_at_lo / tot"),
    dict(name="sequence slice shifted", file=_R, old="                yield fa_file[_chrom][int(start) : int(end)]", new="                yield fa_file[_chrom][int(start) - 1 : int(end)]"),
    dict(name="swap fix_edge / fix_rmask for targets", file=_R, old="        filenames, fa_fname, is_haploid_x, diploid_parx_genome, sexes, True, fix_gc, fix_edge, False\n", new="        filenames, fa_fname, is_haploid_x, diploid_parx_genome, sexes, True, fix_gc, False, fix_edge\n"),
    dict(name="swap is_chr_x / is_chr_y at the call", file=_R, old="    shift_sex_chroms(cnarr, sexes, ref_flat_logr, is_chr_x, is_chr_y)\n", new="    shift_sex_chroms(cnarr, sexes, ref_flat_logr, is_chr_y, is_chr_x)\n"),
    dict(name="in-place widening of the shared Y mask (seeded C05a)", file=_R, old='        cnarr[is_chr_x | is_chr_y, "log2"] += 1.0', new='        is_chr_y |= is_chr_x\n        cnarr[is_chr_y, "log2"] += 1.0'),
    dict(name="seeded C05d: flat profile computed before the antitargets are added", file=_R, old='    ref_probes = bed2probes(targets)\n    if antitargets:\n        ref_probes.add(bed2probes(antitargets))\n    # Set sex chromosomes by "reference" sex\n    ref_probes["log2"] = ref_probes.expect_flat_log2(is_haploid_x_reference, diploid_parx_genome)\n',
         new='    ref_probes = bed2probes(targets)\n    # Set sex chromosomes by "reference" sex\n    ref_probes["log2"] = ref_probes.expect_flat_log2(is_haploid_x_reference, diploid_parx_genome)\n    if antitargets:\n        ref_probes.add(bed2probes(antitargets))\n'),
    dict(name="seeded C15d: PAR-Y of a female reference left at 0", file="cnvlib/cnary.py", old="            idx = (self.chr_y_filter()).values\n        cvg[idx] = -1.0", new="            idx = (self.chr_y_filter(diploid_parx_genome)).values\n        cvg[idx] = -1.0"),
    dict(name="antitarget depths stacked before the target depths", file=_R, old="        all_depths = np.hstack([all_depths, anti_depths])", new="        all_depths = np.hstack([anti_depths, all_depths])"),
    dict(name="summary of the target block only", file=_R, old="    stats_all = summarize_info(all_logr, all_depths)\n", new="    stats_all = summarize_info(all_logr[:, :len(ref_df)], all_depths[:, :len(ref_df)])\n"),
    dict(name="twin: combine_probes summary unpacked explicitly", expect="silent", file=_R, old="    stats_all = summarize_info(all_logr, all_depths)\n    ref_df = ref_df.assign(**stats_all)\n", new="    summary = summarize_info(all_logr, all_depths)\n    ref_df = ref_df.assign(log2=summary[\"log2\"], depth=summary[\"depth\"], spread=summary[\"spread\"])\n"),
    dict(name="sequence slice shifted by one", file=_R, old="                yield fa_file[_chrom][int(start) : int(end)]", new="                yield fa_file[_chrom][int(start) + 1 : int(end) + 1]"),
    dict(name="FASTA opened without as_raw", file=_R, old="    with pyfaidx.Fasta(fa_fname, as_raw=True) as fa_file:", new="    with pyfaidx.Fasta(fa_fname) as fa_file:"),
    dict(name="gc and rmask returned swapped", file=_R, old="    return np.asarray(gc_vals, dtype=float), np.asarray(rm_vals, dtype=float)", new="    return np.asarray(rm_vals, dtype=float), np.asarray(gc_vals, dtype=float)"),
    dict(name="twin: sequence slice through named bounds", expect="silent", file=_R, old="                yield fa_file[_chrom][int(start) : int(end)]", new="                lo, hi = int(start), int(end)\n                seq = fa_file[_chrom]\n                yield seq[lo:hi]"),
    dict(name="seeded C05e: sequences extracted in groupby (string-sorted) chromosome order", file=_R, old="        for chrom, subarr in intervals.by_chromosome():\n", new="        for chrom, subarr in sorted(intervals.by_chromosome()):\n"),
    dict(name="antitarget-only sex calls dropped", file=_R, old="                if t_is_xx is None:\n                    sexes[sid] = a_is_xx\n                elif", new="                if t_is_xx is None:\n                    pass\n                elif"),
    dict(name="target sex call preferred over the antitarget call", file=_R, old="                        \"female\" if a_is_xx else \"male\",\n                    )\n                    sexes[sid] = a_is_xx", new="                        \"female\" if a_is_xx else \"male\",\n                    )"),
    dict(name="twin: first array renamed throughout load_sample_block", edits=[(_R, "cnarr1", "first_arr", True)], expect="silent"),
    dict(name="twin: masks computed in another order, flat profile first", file=_R, old="    is_chr_x = cnarr1.chr_x_filter(diploid_parx_genome)\n    is_chr_y = cnarr1.chr_y_filter(diploid_parx_genome)\n    ref_flat_logr = cnarr1.expect_flat_log2(is_haploid_x, diploid_parx_genome)\n",
         new="    ref_flat_logr = cnarr1.expect_flat_log2(is_haploid_x, diploid_parx_genome)\n    x_mask = cnarr1.chr_x_filter(diploid_parx_genome)\n    is_chr_y = cnarr1.chr_y_filter(diploid_parx_genome)\n    is_chr_x = x_mask\n", expect="silent"),
    dict(name="twin: bins check split into two raises", file=_R, old="        if not np.array_equal(\n            cnarr1.data.loc[:, (\"chromosome\", \"start\", \"end\", \"gene\")].values,\n            cnarrx.data.loc[:, (\"chromosome\", \"start\", \"end\", \"gene\")].values,\n        ):",
         new="        same_coords = np.array_equal(\n            cnarr1.data.loc[:, (\"chromosome\", \"start\", \"end\")].values,\n            cnarrx.data.loc[:, (\"chromosome\", \"start\", \"end\")].values,\n        )\n        same_genes = np.array_equal(cnarr1.data.loc[:, (\"gene\",)].values, cnarrx.data.loc[:, (\"gene\",)].values)\n        if not (same_coords and same_genes):", expect="silent"),
    dict(name="twin: mask operands swapped", file=_R, old='        cnarr[is_chr_x | is_chr_y, "log2"] += 1.0', new='        cnarr[is_chr_y | is_chr_x, "log2"] += 1.0', expect="silent"),
    dict(name="twin: gc sum reordered", file=_R, old="    frac_gc = (cnt_gc_lo + cnt_gc_up) / tot", new="    frac_gc = (cnt_gc_up + cnt_gc_lo) / float(tot)", expect="silent"),
]
