"""C16 -- gene-level grouping yields each gene's own bins, each bin exactly once.
D1 index / endpoint kinds of the slices in CopyNumArray.by_gene, D2 summary binding of group_by_genes / gene_metrics / squash_genes,
D3 the breakpoint predicate of reports.get_breakpoints."""
import ast
import itertools
from fractions import Fraction as Fr

from ..abstools import *
from ..absint import CTX
from ..absval import Raised
from ..core import AnalysisError, own_nodes, norm
from .. import pdrules

LEVEL_TEXT = ('static analysis:'
              ' (D1b) by_gene interpreted on 1383 literal tables (1-4 bins over names A, B, -, Antitarget x every placement of chromosome '
              "boundaries, plus longer hand-picked ones, restricted to the property's premise; index labels that are not the positions): it "
              "yields, in order, each gene's first..last bins and the Antitarget stretches before, between and after them, every bin exactly "
              'once; (D2) group_by_genes interpreted on a symbolic 3-bin gene: start = first start, end = last end, probes = number of bins, '
              'weight = sum, depth = weight-averaged, log2 = weight-averaged log2 (plain mean when all weights are 0), gene name set; '
              "gene_metrics_by_gene keeps a gene <=> |log2| >= threshold; gene_metrics_by_segment overwrites log2 with the segment's and filters "
              "on the segment's |log2|; squash_genes.squash_rows gives first start / last end / summed probes; (D3a) get_gene_intervals on "
              'literal bins gives each gene its sorted bin starts and the furthest bin end (nested bins, rows listed far-to-near); (D3) '
              'get_breakpoints reports a gene <=> first start < segment end < gene end and both side counts >= min_probes, counted by start < end'
              ' / start >= end, only between segments of one chromosome, also when the next segment starts after a gap. D3 also has two genes '
              'whose spans overlap (every gene is examined for every boundary) and D2 runs group_by_genes end to end with the real by_gene on '
              "literal bins holding '-', '.', 'CGH' and Antitarget names: exactly the named genes are reported, with the bins between their first"
              ' and last bin. gene_metrics_by_segment runs end to end on literal bins (a gene whose own bins have no usable coverage is still '
              "listed with the segment's log2); (D4) do_genemetrics hands shift_xx one and the same sex for bins and segments: the stated one, "
              'else the one inferred from the bins. do_breaks runs end to end on literal bins / segments with gene-less chromosomes split into '
              'several segments before and after the one whose gene is cut. D1b has chromosome orders that are not alphabetical (chr2 / chr10 / '
              "chrX; 9 / 10 / 11; bare names). do_genemetrics runs end to end with segments on literal bins: a gene is kept by its segment's bin "
              'count (min_probes 3 / 6 / 1), and without stubs genes of 2 / 3 / 4 bins against min_probes. (CLI) the `genemetrics / breaks` '
              'command line(s), through a model of argparse built from the declarations in commands.py and the real _cmd_ body interpreted with '
              'readers, library step and writers stubbed: bins and segments in their roles, threshold, minimum bin count, --drop-low-coverage and'
              " the sex options reach the report functions as given. Does not decide behaviour on interleaved genes (outside the property's "
              'premise).')
TECHNIQUE = ("bounded exhaustive interpretation of by_gene on literal tables with "
             'literal index labels; abstract interpretation of the summary functions on symbolic rows')

BYGENE = "cnvlib.cnary.CopyNumArray.by_gene"


def d1b(chk, prog):
    """by_gene on literal tables whose index labels are not the positions"""
    chk.clause("D1b", "by_gene partitions every chromosome into gene spans and Antitarget stretches: literal tables (1-4 bins, 1-2 chromosomes, labels != positions)")
    fi = prog.fn(BYGENE)
    tb = Table(chk, "gene-partition", "by_gene on literal tables satisfying the premise (each gene's bins consecutive up to ignored bins)", fi.loc(), fi.qn)
    ignored = ("-", "Antitarget", ".", "CGH")
    configs = []
    for n in ((1, 2, 3, 4) if chk.tier != "thorough" else (1, 2, 3, 4, 5)):
        for names in itertools.product(["A", "B", "-", "Antitarget"], repeat=n):
            for cuts in itertools.product([False, True], repeat=n - 1):
                chroms, c = [], 0
                for i in range(n):
                    if i and cuts[i - 1]:
                        c += 1
                    chroms.append(f"chr{c + 1}")
                configs.append((chroms, list(names)))
    configs += [(["chr1"] * 6, ["-", "A", "Antitarget", "A", ".", "B"]), (["chr1"] * 5 + ["chr2"], ["A", "A", "CGH", "B", "-", "-"]),
                (["chr1", "chr1", "chr2", "chr2", "chr2", "chr3"], ["-", "-", "A", "-", "A", "Antitarget"]),
                # chromosomes whose genomic order is not their alphabetical order (chr2 before chr10, chrX last): genes come out in the table's order
                (["chr2", "chr2", "chr10", "chr10", "chrX"], ["A", "-", "B", "B", "C"]), (["chr9", "chr10", "chr11"], ["A", "B", "-"]), (["2", "2", "10", "X"], ["A", "A", "-", "B"])]

    def premise(chroms, names):
        for g in set(names) - set(ignored):
            pos = [i for i, x in enumerate(names) if x == g]
            if len({chroms[i] for i in pos}) != 1:
                return False
            if any(names[i] not in ignored + (g,) for i in range(pos[0], pos[-1] + 1)):
                return False
        return True

    def oracle(chroms, names):
        out = []
        for c in dict.fromkeys(chroms):
            rows = [i for i, x in enumerate(chroms) if x == c]
            prev = 0
            for g in dict.fromkeys(names[i] for i in rows):
                if g in ignored:
                    continue
                pos = [k for k, i in enumerate(rows) if names[i] == g]
                if prev < pos[0]:
                    out.append(("Antitarget", rows[prev:pos[0]]))
                out.append((g, rows[pos[0]:pos[-1] + 1]))
                prev = pos[-1] + 1
            if prev < len(rows):
                out.append(("Antitarget", rows[prev:]))
        return out

    bad, undecided, ran = [], [], 0
    label_pool = [7, 3, 11, 2, 5, 13, 17, 1]
    for chroms, names in configs:
        if not premise(chroms, names):
            continue
        W.reset()
        n = len(names)
        rows = [dict(chromosome=chroms[i], start=10 * i, end=10 * i + 10, gene=names[i], log2=Fr(i, 4), rowid=i) for i in range(n)]
        g = make_ga("CopyNumArray", rows, {"sample_id": "S"}, index="any", exact=True, labels=label_pool[:n])
        it = Interp(prog)
        try:
            out = list(it.run_method(g, "by_gene", []))
        except Undecided as u:
            undecided.append(f"{chroms} {names}: {u}")
            continue
        except Raised as r:
            bad.append(dict(chromosomes=chroms, genes=names, raised=str(r)[:100]))
            continue
        ran += 1
        got = [(nm, list(sub.data.cols["rowid"].v)) for nm, sub in out]
        want = oracle(chroms, names)
        if got != want:
            bad.append(dict(chromosomes=chroms, genes=names, index_labels=label_pool[:n], got=got, want=want))
    if undecided:
        raise AnalysisError(f"C16-D1b: {len(undecided)} tables undecided, e.g. {undecided[0][:300]}")
    chk.floor("literal by_gene tables", ran, 500)
    tb.cell(not bad, dict(tables=ran, counterexamples=bad[:4], n_counterexamples=len(bad)))
    tb.done("by_gene does not yield each gene's first..last bins and the Antitarget stretches around them, every bin exactly once")


def d3a(chk, prog):
    """get_gene_intervals on literal bins: per chromosome, each named gene with its sorted bin starts and the furthest bin end"""
    fi = prog.fn("cnvlib.reports.get_gene_intervals")
    tb = Table(chk, "breakpoint-predicate", "get_gene_intervals on literal bins (a bin nested in a longer one; rows listed far-to-near; ignored names; two chromosomes)", fi.loc(), fi.qn)
    cases = {"sorted bins, the last one nested in the first": [("chr1", 0, 100, "A"), ("chr1", 10, 50, "A"), ("chr1", 200, 300, "B"), ("chr2", 0, 10, "C")],
             "gene rows listed from the far end": [("chr1", 200, 300, "A"), ("chr1", 100, 200, "A"), ("chr1", 0, 100, "A"), ("chr1", 400, 500, "B")],
             "ignored and antitarget names between genes": [("chr1", 0, 10, "A"), ("chr1", 10, 20, "-"), ("chr1", 20, 30, "Antitarget"), ("chr1", 30, 40, "A"), ("chr1", 50, 60, "B")],
             "genes out of order on the chromosome": [("chr1", 500, 600, "B"), ("chr1", 0, 100, "A")]}
    for label, rows in cases.items():
        W.reset()
        g = make_ga("CopyNumArray", [dict(chromosome=c, start=s_, end=e_, gene=nm, log2=0) for c, s_, e_, nm in rows], {}, exact=True)
        it = Interp(prog)
        out = tb.guard(lambda: it.run(fi.qn, [g]), label)
        if out is None:
            continue
        want = {}
        for c in dict.fromkeys(r[0] for r in rows):
            genes = {}
            for r in rows:
                if r[0] == c and r[3] not in ("-", "Antitarget", ".", "CGH", "Background"):
                    genes.setdefault(r[3], []).append(r)
            want[c] = sorted(((nm, sorted(r[1] for r in rs), max(r[2] for r in rs)) for nm, rs in genes.items()), key=lambda t: t[1])
        got = {c: [(nm, [int(T(x).cval()) for x in st], int(T(en).cval())) for nm, st, en in v] for c, v in dict(out).items()}
        tb.cell(got == want, dict(case=label, got=got, want=want))
    tb.done("a gene's interval is not (sorted starts of its bins, the furthest end of its bins), genes in order of their first bin")


def grp_rows(weights):
    s = [Term.sym(f"s{i}", 0, INF, True) for i in range(3)]
    e = [Term.sym(f"e{i}", 0, INF, True) for i in range(3)]
    lg = [Term.sym(f"v{i}") for i in range(3)]
    dp = [Term.sym(f"d{i}", 0, INF) for i in range(3)]
    rows = [{"chromosome": "chr1", "start": s[i], "end": e[i], "gene": "G,H" if i == 1 else "G", "log2": lg[i], "depth": dp[i], "weight": weights[i]} for i in range(3)]
    return rows, s, e, lg, dp


def d2(chk, prog):
    chk.clause("D2", "gene summary binding (group_by_genes, gene_metrics_by_gene/_by_segment, squash_genes)")
    fi = prog.fn("cnvlib.reports.group_by_genes")
    tb = Table(chk, "gene-summary", "group_by_genes closed forms on a symbolic 3-bin gene", fi.loc(), fi.qn)
    for wkind in ("positive", "absent"):
        W.reset()
        if wkind == "positive":
            w = [Term.sym(f"w{i}", 0, INF, positive=True) for i in range(3)]
            for x in w:
                x.lo = 1e-9
        else:
            w = [0, 0, 0]
        rows, s, e, lg, dp = grp_rows(w)
        if wkind == "absent":
            for r in rows:
                del r["weight"]
        model = Model()
        g = make_ga("CopyNumArray", rows, {"sample_id": "S"}, index="any", exact=True)
        model.method_prims["by_gene"] = lambda it, obj, *a, **k: [("G", g), ("Antitarget", g), ("", g)]
        it = Interp(prog, model)
        old = CTX.atoms
        CTX.atoms = lambda d, op: True
        try:
            out = tb.guard(lambda: list(it.run(fi.qn, [g, False])), f"weights {wkind}")
        finally:
            CTX.atoms = old
        if out is None:
            continue
        ok = len(out) == 1
        got = {}
        if ok:
            r = out[0]
            got = {k: r._d.get(k) for k in ("chromosome", "start", "end", "gene", "log2", "probes", "weight", "depth")}
            sumw = None
            if wkind == "positive":
                sumw = t_add(t_add(w[0], w[1]), w[2])
                wl = t_div(t_add(t_add(t_mul(lg[0], w[0]), t_mul(lg[1], w[1])), t_mul(lg[2], w[2])), sumw)
                wd = t_div(t_add(t_add(t_mul(dp[0], w[0]), t_mul(dp[1], w[1])), t_mul(dp[2], w[2])), sumw)
            else:
                wl = t_div(t_add(t_add(lg[0], lg[1]), lg[2]), Term.const(3))
                wd = t_div(t_add(t_add(dp[0], dp[1]), dp[2]), Term.const(3))
            ok = (got["chromosome"] == "chr1" and same(got["start"], s[0]) and same(got["end"], e[2]) and got["gene"] == "G" and same(got["log2"], wl)
                  and got["probes"] == 3)
            if wkind == "positive":
                ok = ok and same(got["weight"], sumw) and same(got["depth"], wd)
            elif wkind == "absent":
                ok = ok and same(got["depth"], wd)
        tb.cell(ok, dict(weights=wkind, rows_out=len(out), got={k: repr(v) for k, v in got.items()},
                         want="start=s0 end=e2 gene=G probes=len log2=wavg(log2;weight)|mean weight=sum depth=wavg(depth;weight)"))
    # end to end with the real by_gene on literal bins: exactly the named genes are reported -- unnamed ('-', '.', 'CGH') and antitarget bins are no genes
    tbl = Table(chk, "gene-summary", "group_by_genes on literal bins with '-', '.', 'CGH' and Antitarget bins between and inside genes: the genes reported, their span and bin count", fi.loc(), fi.qn + "::genes reported")
    names = ["A", "A", "-", "B", ".", "B", "CGH", "Antitarget", "C", "-"]
    for label, labels in (("default index", None), ("labels that are not positions", [3 * i + 7 for i in range(len(names))])):
        W.reset()
        rows = [dict(chromosome="chr1", start=10 * i, end=10 * i + 10, gene=nm, log2=Fr(i, 8), depth=Fr(i + 1), weight=Fr(1, 2)) for i, nm in enumerate(names)]
        g = make_ga("CopyNumArray", rows, {"sample_id": "S"}, index="any" if labels else "range", exact=True, labels=labels or list(range(len(names))))
        it = Interp(prog)
        out = tbl.guard(lambda: list(it.run(fi.qn, [g, False])), label)
        if out is None:
            continue
        got = [(r._d.get("gene"), int(T(r._d.get("start")).cval()), int(T(r._d.get("end")).cval()), r._d.get("probes")) for r in out]
        want = [("A", 0, 20, 2), ("B", 30, 60, 3), ("C", 80, 90, 1)]
        tbl.cell(got == want, dict(index=label, bin_names=names, got=got, want=want))
    tbl.done("genemetrics reports something other than the named genes (an unnamed or antitarget stretch as a gene, or a gene without the bins between its first and last bin)")
    # skip_low: only the mean ignores null-coverage bins; coordinates, bin count, weight and depth are the gene's own
    W.reset()
    w = [Term.sym(f"w{i}", 0, INF, positive=True) for i in range(3)]
    for x in w:
        x.lo = 1e-9
    rows, s, e, lg, dp = grp_rows(w)
    rows[0]["log2"] = Term.sym("v_low", -INF, -16)
    for i in (1, 2):
        rows[i]["log2"] = Term.sym(f"u{i}", -10, 10)         # (fresh names: a symbol keeps the range it was first declared with)
    dp = [Term.sym(f"dd{i}", 1, INF) for i in range(3)]
    for i in range(3):
        rows[i]["depth"] = dp[i]
    g = make_ga("CopyNumArray", rows, {"sample_id": "S"}, index="any", exact=True)
    model = Model()
    model.method_prims["by_gene"] = lambda it, obj, *a, **k: [("G", g)]
    it = Interp(prog, model)
    old = CTX.atoms
    CTX.atoms = lambda d, op: True
    try:
        out = tb.guard(lambda: list(it.run(fi.qn, [g, True])), "skip_low with a null-coverage first bin")
    finally:
        CTX.atoms = old
    if out is not None:
        ok = len(out) == 1
        got = {}
        if ok:
            r = out[0]
            got = {k: r._d.get(k) for k in ("start", "end", "log2", "probes", "weight", "depth")}
            wl = t_div(t_add(t_mul(rows[1]["log2"], w[1]), t_mul(rows[2]["log2"], w[2])), t_add(w[1], w[2]))
            sumw = t_add(t_add(w[0], w[1]), w[2])
            wd = t_div(t_add(t_add(t_mul(dp[0], w[0]), t_mul(dp[1], w[1])), t_mul(dp[2], w[2])), sumw)
            ok = same(got["start"], s[0]) and same(got["end"], e[2]) and got["probes"] == 3 and same(got["weight"], sumw) and same(got["depth"], wd) and same(got["log2"], wl)
        tb.cell(ok, dict(case="skip_low=True, first bin has null coverage", got={k: repr(v) for k, v in got.items()},
                         want="start=s0 end=e2 probes=3 weight=sum(all) depth=wavg(all) log2=wavg(bins with coverage)"))
    tb.done("per-gene summary is not (first start, last end, bin count, summed weight, weight-averaged depth and log2)")

    # threshold filter of gene_metrics_by_gene: |log2| >= threshold and a non-empty name
    fg = prog.fn("cnvlib.reports.gene_metrics_by_gene")
    tb2 = Table(chk, "gene-summary", "gene_metrics_by_gene keeps a gene <=> |log2| >= threshold (order positions)", fg.loc(), fg.qn)
    thr = Fr(1, 5)
    vals = [Fr(-3, 10), Fr(-1, 5), Fr(-1, 10), Fr(0), Fr(1, 10), Fr(1, 5), Fr(3, 10)]
    model = Model()
    model.prims["cnvlib.reports.group_by_genes"] = lambda it, cn, sk=False, *a_, **k_: [Row({"gene": f"g{i}" if i != 6 else "", "log2": v}) for i, v in enumerate(vals)]
    it = Interp(prog, model)
    out = tb2.guard(lambda: list(it.run(fg.qn, [None, thr, False])), "thresholds")
    if out is not None:
        kept = {r.gene for r in out}
        for i, v in enumerate(vals):
            want = abs(v) >= thr and i != 6
            tb2.cell((f"g{i}" in kept) == want if i != 6 else "" not in kept, dict(log2=str(v), threshold=str(thr), kept=f"g{i}" in kept, want=want))
    tb2.done("a gene is reported although |log2| < threshold, or dropped although it reaches it")

    # gene_metrics_by_segment: the segment's log2 is reported and filtered on
    fs = prog.fn("cnvlib.reports.gene_metrics_by_segment")
    tb3 = Table(chk, "gene-summary", "gene_metrics_by_segment: segment log2 / weight / probes on every gene row; segments below threshold skipped", fs.loc(), fs.qn)
    W.reset()
    segs = [Row({"chromosome": "chr1", "start": 0, "end": 10, "gene": "-", "log2": v, "weight": Term.sym(f"sw{i}"), "probes": Term.sym(f"sp{i}")}) for i, v in enumerate(vals)]
    model = Model()
    model.prims["cnvlib.reports.group_by_genes"] = lambda it, cn, sk=False, *a_, **k_: [Row({"gene": "G", "log2": Term.sym("genelog2"), "probes": 4})]
    rows, *_ = grp_rows([1, 1, 1])
    g = make_ga("CopyNumArray", rows, {"sample_id": "S"})
    segarr = make_ga("CopyNumArray", [{"chromosome": "chr1", "start": 0, "end": 10, "gene": "-", "log2": 0, "weight": 1, "probes": 1}], {})
    model.method_prims["by_ranges"] = lambda it, obj, other, **k: [(sg, g) for sg in segs]
    it = Interp(prog, model)
    out = tb3.guard(lambda: list(it.run(fs.qn, [g, segarr, thr, False])), "segments")
    if out is not None:
        got = [(r.log2, r._d.get("segment_weight"), r._d.get("segment_probes")) for r in out]
        want = [(sg.log2, sg.weight, sg.probes) for sg in segs if abs(sg.log2) >= thr]
        tb3.cell(len(got) == len(want) and all(same(a[0], b[0]) and same(a[1], b[1]) and same(a[2], b[2]) for a, b in zip(got, want)),
                 dict(got=[repr(x) for x in got], want=[repr(x) for x in want]))
    # end to end on literal bins (real by_ranges, group_by_genes, by_gene): every gene inside a segment that reaches the threshold is listed with the segment's log2 --
    # also a gene whose own bins have no usable coverage when low-coverage bins are skipped
    for skip_low in (False, True):
        W.reset()
        names = ["GA", "GA", "GA", "GB", "GB", "GC"]
        brow = [dict(chromosome="chr1", start=10 * i, end=10 * i + 10, gene=nm, log2=(Fr(-25) if nm == "GB" else Fr(i, 8)), depth=(Fr(0) if nm == "GB" else Fr(5)), weight=Fr(1, 2)) for i, nm in enumerate(names)]
        bins_ = make_ga("CopyNumArray", brow, {"sample_id": "S"}, index="range", exact=True, labels=list(range(len(names))))
        seg_ = make_ga("CopyNumArray", [dict(chromosome="chr1", start=0, end=50, gene="-", log2=Fr(1, 2), probes=5, weight=Fr(5, 2)), dict(chromosome="chr1", start=50, end=60, gene="-", log2=Fr(1, 100), probes=1, weight=Fr(1, 2))],
                       {"sample_id": "S"}, index="range", exact=True, labels=[0, 1])
        it = Interp(prog)
        out = tb3.guard(lambda: list(it.run(fs.qn, [bins_, seg_, Fr(1, 5), skip_low])), f"literal bins skip_low={skip_low}")
        if out is None:
            continue
        got = [(r._d.get("gene"), r._d.get("log2"), r._d.get("segment_probes")) for r in out]
        want = [("GA", Fr(1, 2), 5), ("GB", Fr(1, 2), 5)]
        tb3.cell(len(got) == len(want) and all(a[0] == b[0] and same(a[1], b[1]) and same(a[2], b[2]) for a, b in zip(got, want)), dict(skip_low=skip_low, got=[repr(x) for x in got], want=[repr(x) for x in want]))
    tb3.done("gene rows inside a segment do not carry the segment's log2 / are not filtered on it (or a gene inside a reported segment is left out)")
    # do_genemetrics end to end with segments and a minimum bin count: the count that matters is the segment's, so a two-bin gene inside a five-bin segment is listed
    fdg = prog.fn("cnvlib.reports.do_genemetrics")
    tb3b = Table(chk, "gene-summary", "do_genemetrics(bins, segments, min_probes) end to end on literal bins: genes of 3 / 2 bins inside a 5-bin segment, min_probes 3 / 6 / 1", fdg.loc(), fdg.qn + "::with segments")
    for mp in (3, 6, 1):
        W.reset()
        names = ["GA", "GA", "GA", "GB", "GB", "GC"]
        brow = [dict(chromosome="chr1", start=10 * i, end=10 * i + 10, gene=nm, log2=Fr(i, 8), depth=Fr(5), weight=Fr(1, 2)) for i, nm in enumerate(names)]
        bins_ = make_ga("CopyNumArray", brow, {"sample_id": "S"}, index="range", exact=True, labels=list(range(len(names))))
        seg_ = make_ga("CopyNumArray", [dict(chromosome="chr1", start=0, end=50, gene="-", log2=Fr(1, 2), probes=5, weight=Fr(5, 2)), dict(chromosome="chr1", start=50, end=60, gene="-", log2=Fr(1, 100), probes=1, weight=Fr(1, 2))],
                       {"sample_id": "S"}, index="range", exact=True, labels=[0, 1])
        model = Model()
        model.method_prims["guess_xx"] = lambda it, obj, *a, **k: True
        model.method_prims["shift_xx"] = lambda it, obj, *a, **k: obj
        seen_rows = []

        def from_records(it, recs, *a, seen_rows=seen_rows, **k):
            recs = list(it.iterate(recs))
            seen_rows.extend(recs)
            cols_ = list(recs[0]._fields) if recs else []
            d = DF({c: Vec([r._d.get(c) for r in recs], aligned=True) for c in cols_}, len(recs))
            d.exact = True
            for v in d.cols.values():
                v.exact = True
            return d
        model.ext["pd.DataFrame.from_records"] = from_records
        it = Interp(prog, model)
        out = tb3b.guard(lambda: ("v", it.run(fdg.qn, [bins_, seg_], dict(threshold=Fr(1, 5), min_probes=mp))), f"min_probes={mp}")
        if out is None:
            continue
        res = out[1]
        got = list(res.cols["gene"].v) if isinstance(res, DF) and "gene" in res.cols else repr(res)[:80]
        if isinstance(res, DF) and "__keep__" in res.cols:
            got = [g_ for g_, k_ in zip(res.cols["gene"].v, res.cols["__keep__"].v) if k_ is True]
        want = ["GA", "GB"] if mp <= 5 else []
        tb3b.cell(got == want, dict(min_probes=mp, genes_listed=got, want=want, note="GA has 3 bins, GB 2, both inside a segment of 5 bins; the one-bin segment holding GC is below the threshold"))
    tb3b.done("with segments given, a gene is dropped (or kept) by its own bin count instead of its segment's")

    # squash_genes.squash_rows
    fq = prog.fn("cnvlib.cnary.CopyNumArray.squash_genes")
    tb4 = Table(chk, "gene-summary", "squash_genes: one row per gene with first start, last end, summed probes", fq.loc(), fq.qn)
    W.reset()
    rows, s, e, lg, dp = grp_rows([1, 1, 1])
    for r in rows:
        del r["weight"], r["depth"]
        r["probes"] = Term.sym("p" + str(rows.index(r)), 0, INF, True)
    g = make_ga("CopyNumArray", rows, {"sample_id": "S"}, exact=True)
    model = Model()
    model.method_prims["by_gene"] = lambda it, obj, *a, **k: [("G", g)]
    captured = {}

    def as_rows(it, obj, rws):
        captured["rows"] = list(rws)
        return obj
    model.method_prims["as_rows"] = as_rows
    model.prims["cnvlib.core.check_unique"] = lambda it, col, name: col.v[0]
    it = Interp(prog, model)
    summ = lambda v: ("SUMMARY", tuple(repr(x) for x in v.v))
    out = tb4.guard(lambda: it.run_method(g, "squash_genes", [summ, False]), "squash")
    if out is not None:
        rws = captured.get("rows", [])
        ok = len(rws) == 1 and len(rws[0]) >= 5 and rws[0][0] == "chr1" and same(rws[0][1], s[0]) and same(rws[0][2], e[2]) and rws[0][3] == "G" \
            and rws[0][4] == summ(Vec(lg)) and same(rws[0][-1], t_add(t_add(rows[0]["probes"], rows[1]["probes"]), rows[2]["probes"]))
        tb4.cell(ok, dict(got=[repr(x) for x in (rws[0] if rws else [])], want="(chr1, s0, e2, G, summary(log2), sum(probes))"))
    tb4.done("squash_genes does not return the gene's first start / last end / summed probes")


def d3(chk, prog):
    chk.clause("D3", "get_breakpoints: gene reported <=> first start < segment end < gene end and both side counts >= min_probes")
    fi = prog.fn("cnvlib.reports.get_breakpoints")
    tb = Table(chk, "breakpoint-predicate", "get_breakpoints over the order positions of the segment end among a gene's bin starts", fi.loc(), fi.qn)
    gst, gend = [10, 20, 30], 40
    for ce, mp, same_chrom, gap in itertools.product([5, 10, 15, 20, 25, 30, 35, 40, 45], [1, 2], [True, False], [0, 12]):
        W.reset()
        it = Interp(prog)
        l0, l1 = Term.sym("l0"), Term.sym("l1")
        # `gap`: the next segment starts later than this one ends (bins in between were excluded before segmentation)
        segs = [Row({"chromosome": "chr1", "start": 0, "end": ce, "log2": l0}), Row({"chromosome": "chr1" if same_chrom else "chr2", "start": ce + gap, "end": 100, "log2": l1})]
        intervals = {"chr1": [("G", list(gst), gend)], "chr2": []}
        out = tb.guard(lambda: it.run(fi.qn, [intervals, segs, mp]), f"end={ce} min_probes={mp}")
        if out is None:
            continue
        left, right = sum(s < ce for s in gst), sum(s >= ce for s in gst)
        want = same_chrom and gst[0] < ce < gend and left >= mp and right >= mp
        ok = (len(out) == 1) == want
        if ok and want:
            r = out[0]
            ok = r[0] == "G" and r[1] == "chr1" and same(r[2], ce) and same(r[3], t_sub(l1, l0)) and r[4] == left and r[5] == right
        tb.cell(ok, dict(segment_end=ce, next_segment_start=ce + gap, gene_starts=gst, gene_end=gend, min_probes=mp, same_chromosome=same_chrom, got=[repr(x) for x in out], want_reported=want))
    # two genes whose spans overlap (the first gene's last bin is a long tile reaching over the second gene): every gene is examined for every boundary
    two = {"chr1": [("G1", [10, 20, 30], 100), ("G2", [40, 50, 60], 70)]}
    for ce, mp in itertools.product([15, 25, 35, 45, 55, 65, 85], [1, 2]):
        W.reset()
        it = Interp(prog)
        l0, l1 = Term.sym("l0"), Term.sym("l1")
        segs = [Row({"chromosome": "chr1", "start": 0, "end": ce, "log2": Fr(0)}), Row({"chromosome": "chr1", "start": ce, "end": 200, "log2": Fr(1)})]          # literal levels: the result is sorted by them
        out = tb.guard(lambda: it.run(fi.qn, [two, segs, mp]), f"two genes end={ce} min_probes={mp}")
        if out is None:
            continue
        want = sorted(nm for nm, gs, ge in two["chr1"] if gs[0] < ce < ge and sum(s_ < ce for s_ in gs) >= mp and sum(s_ >= ce for s_ in gs) >= mp)
        got = sorted(r[0] for r in out)
        tb.cell(got == want, dict(segment_end=ce, genes={nm: (gs, ge) for nm, gs, ge in two["chr1"]}, min_probes=mp, got=got, want=want))
    tb.done("breaks lists a gene that has too few bins on one side of the boundary, or misses one that has enough")
    # do_breaks end to end on literal tables: chromosomes without any named gene (antitarget / unnamed bins only) that are split into several segments,
    # before, between and after the chromosome whose gene is cut
    fb = prog.fn("cnvlib.reports.do_breaks")
    tbe = Table(chk, "breakpoint-predicate", "do_breaks on literal bins / segments: a gene cut on one chromosome, other chromosomes holding no named gene and split into two segments", fb.loc(), fb.qn)
    for layout in (("chr1",), ("chr0", "chr1"), ("chr1", "chr2"), ("chr0", "chr1", "chr2")):
        W.reset()
        bins, segs = [], []
        for c in layout:
            names = ["G", "G", "G", "G"] if c == "chr1" else ["Antitarget", "-", ".", "Antitarget"]
            for i, nm in enumerate(names):
                bins.append(dict(chromosome=c, start=100 * i, end=100 * i + 50, gene=nm, log2=0))
            segs.append(dict(chromosome=c, start=0, end=200, gene="-", log2=Fr(0), probes=2))
            segs.append(dict(chromosome=c, start=200, end=350, gene="-", log2=Fr(1), probes=2))
        g_bins = make_ga("CopyNumArray", bins, {"sample_id": "S"}, exact=True)
        g_segs = make_ga("CopyNumArray", segs, {"sample_id": "S"}, exact=True)
        model = Model()
        model.ext["pd.DataFrame.from_records"] = lambda it, recs, columns=None, **k: ("RECORDS", list(recs), list(columns) if columns is not None else None)
        it = Interp(prog, model)
        out = tbe.guard(lambda: it.run(fb.qn, [g_bins, g_segs, 1]), f"chromosomes {layout}")
        if out is None:
            continue
        recs = out[1] if isinstance(out, tuple) and out and out[0] == "RECORDS" else None
        ok = recs is not None and len(recs) == 1 and recs[0][0] == "G" and recs[0][1] == "chr1" and same(recs[0][2], 200) and recs[0][4] == 2 and recs[0][5] == 2
        tbe.cell(ok, dict(chromosomes=list(layout), got=repr(recs)[:200], want="one record: G on chr1 at 200, 2 bins on each side"))
    tbe.done("breaks fails or reports the wrong genes when a chromosome without any named gene is split into several segments")
    # do_genemetrics keeps a gene <=> its bin count (the segment's, when segments are given) >= min_probes: interpreted with the per-gene rows stubbed
    fg = prog.fn("cnvlib.reports.do_genemetrics")
    tbm = Table(chk, "breakpoint-predicate", "do_genemetrics: genes of 2, 3, 4 bins against min_probes 3 (and 0 / None: no filter), by gene and by segment", fg.loc(), fg.qn + "::min_probes")
    for mp, by_segment in itertools.product([3, 0, None, 5], [False, True]):
        W.reset()
        model = Model()
        fields = ["gene", "chromosome", "start", "end", "log2", "probes"] + (["segment_probes"] if by_segment else [])
        rows_ = []
        for nm, n_own, n_seg in (("G2", 2, 4), ("G3", 3, 2), ("G4", 4, 3)):
            d_ = dict(gene=nm, chromosome="chr1", start=0, end=10, log2=Fr(1), probes=n_own)
            if by_segment:
                d_["segment_probes"] = n_seg
            r_ = Row(d_, list(fields))
            r_._d["index"] = list(fields)
            rows_.append(r_)
        model.method_prims["guess_xx"] = lambda it, obj, *a, **k: True
        model.method_prims["shift_xx"] = lambda it, obj, *a, **k: obj
        model.prims["cnvlib.reports.gene_metrics_by_gene"] = lambda it, *a, **k: list(rows_)
        model.prims["cnvlib.reports.gene_metrics_by_segment"] = lambda it, *a, **k: list(rows_)

        def from_records(it, recs, *a, **k):
            recs = list(it.iterate(recs))
            d = DF({c: Vec([r._d[c] for r in recs], aligned=True) for c in fields}, len(recs))
            d.exact = True
            for v in d.cols.values():
                v.exact = True
            return d
        model.ext["pd.DataFrame.from_records"] = from_records
        bins = make_ga("CopyNumArray", [dict(chromosome="chr1", start=0, end=10, gene="G2", log2=0)], {"sample_id": "S"}, exact=True)
        segs = make_ga("CopyNumArray", [dict(chromosome="chr1", start=0, end=10, gene="-", log2=0, probes=1)], {"sample_id": "S"}, exact=True)
        it = Interp(prog, model)
        kw = dict(min_probes=mp)
        out = tbm.guard(lambda: ("v", it.run(fg.qn, [bins, segs if by_segment else None], kw)), f"min_probes={mp} by_segment={by_segment}")
        if out is None:
            continue
        res = out[1]
        got = list(res.cols["gene"].v) if isinstance(res, DF) and "gene" in res.cols else repr(res)[:80]
        if isinstance(res, DF) and "__keep__" in res.cols:
            got = [g for g, k_ in zip(res.cols["gene"].v, res.cols["__keep__"].v) if k_ is True]
        counts = {"G2": 4 if by_segment else 2, "G3": 2 if by_segment else 3, "G4": 3 if by_segment else 4}
        want = [g for g in ("G2", "G3", "G4") if not mp or counts[g] >= mp]
        tbm.cell(got == want, dict(min_probes=mp, by_segment=by_segment, bin_counts=counts, kept=got, want=want))
    tbm.done("genemetrics does not keep exactly the genes with at least min_probes bins (the segment's count when segments are given; a gene with exactly min_probes bins is kept)")


def d4(chk, prog):
    chk.clause("D4", "genemetrics adjusts bins and segments for one and the same sample sex: the stated one, else the one inferred from the bins")
    fi = prog.fn("cnvlib.reports.do_genemetrics")
    tb = Table(chk, "gene-summary", "do_genemetrics: the sex handed to shift_xx for the bins and for the segments (stated female / male / not stated) x reference sex x with / without segments", fi.loc(), fi.qn + "::sex adjustment")
    for stated, hap, with_segs in itertools.product([None, True, False], [False, True], [True, False]):
        W.reset()
        model = Model()
        calls = []
        bins = make_ga("CopyNumArray", [dict(chromosome="chrX", start=0, end=10, gene="G", log2=0)], {"sample_id": "S", "role": "bins"}, exact=True)
        segs = make_ga("CopyNumArray", [dict(chromosome="chrX", start=0, end=10, gene="G", log2=0)], {"sample_id": "S", "role": "segments"}, exact=True)
        model.method_prims["guess_xx"] = lambda it, obj, *a, **k: ("inferred from the " + obj.meta["role"])

        def shift(it, obj, hap_=False, is_xx=None, par=None, calls=calls):
            calls.append((obj.meta["role"], hap_, is_xx if is_xx is not None else "inferred from the " + obj.meta["role"] + " (inside shift_xx)", par))
            return obj
        model.method_prims["shift_xx"] = shift
        class Reached(Exception):
            pass

        def metrics(it, *a, **k):
            raise Reached()                        # the adjustment is complete when the gene metrics are computed; the table assembly is D2's subject
        model.prims["cnvlib.reports.gene_metrics_by_segment"] = metrics
        model.prims["cnvlib.reports.gene_metrics_by_gene"] = metrics
        it = Interp(prog, model)

        def go():
            try:
                it.run(fi.qn, [bins, segs if with_segs else None, Fr(1, 5), 3, False, hap, stated, "grch38"])
            except Reached:
                return "reached"
            return "returned without computing metrics"
        out = tb.guard(go, f"stated={stated} male_reference={hap} segments={with_segs}")
        if out is None:
            continue
        sex = stated if stated is not None else "inferred from the bins"
        want = [("bins", hap, sex, "grch38")] + ([("segments", hap, sex, "grch38")] if with_segs else [])
        tb.cell(calls == want and out == "reached", dict(stated_female=stated, male_reference=hap, segments=with_segs, shift_xx_calls=calls, want=want, outcome=out))
    tb.done("bins and segments are not adjusted for the same sex (a sex inferred again from the segment table can differ from the bins'): chrX segments are shifted by a whole copy and their genes reported at the wrong log2")


def run(chk):
    prog = chk.prog
    chk.trust("Python grammar via ast", "pandas: .loc[a:b] closed on labels, .iloc[a:b] half-open on positions; Series.items() yields (label, value)",
              "np.average(x, weights=w) = sum(x w)/sum(w)")
    chk.assume("premise of the property: each gene's bins are consecutive on one chromosome")
    d1b(chk, prog)
    # (an earlier D1 typed the slices and comparisons of by_gene as labels / positions by a flow-insensitive inference keyed on the helper that builds the gene map;
    #  every seeded change and mutant it caught is caught by D1b's interpretation on literal tables whose labels are not the positions, and a renamed or moved helper left it undecided: retired)
    d2(chk, prog)
    d3a(chk, prog)
    d3(chk, prog)
    d4(chk, prog)
    chk.clause("CLI", "the `genemetrics` / `breaks` command lines: bins and segments in their roles, threshold, minimum bin count and sex options reach the report functions")
    from .. import cliglue
    cliglue.check_reports(chk, prog)


_C = "cnvlib/cnary.py"
_R = "cnvlib/reports.py"
MUTANTS = [
    dict(name="cli: breaks reads bins and segments from swapped files", file="cnvlib/commands.py", old="    cnarr = read_cna(args.filename)\n    segarr = read_cna(args.segment)\n    bpoints = do_breaks(", new="    cnarr = read_cna(args.segment)\n    segarr = read_cna(args.filename)\n    bpoints = do_breaks("),
    dict(name="cli: genemetrics ignores -m", file="cnvlib/commands.py", old="        args.threshold,\n        args.min_probes,\n        args.drop_low_coverage,", new="        args.threshold,\n        3,\n        args.drop_low_coverage,"),
    dict(name="twin: breakpoint counts through numpy", expect="silent", file="cnvlib/reports.py", old="                probes_left = sum(s < curr_end for s in gstarts)\n                probes_right = sum(s >= curr_end for s in gstarts)", new="                probes_left = len([s for s in gstarts if s < curr_end])\n                probes_right = len(gstarts) - probes_left"),
    dict(name="seeded C16c: by_gene skips chromosomes without a named gene", file="cnvlib/cnary.py", old="            # Row positions (not index labels) delimit the half-open slices\n", new="            if all(gene in ignore for gene in subgary._get_gene_map()):\n                continue\n"),
    dict(name="twin: by_gene maps labels to positions through a dict", expect="silent", file="cnvlib/cnary.py", old="            positions = pd.Series(np.arange(len(subgary)), index=subgary.data.index)\n", new="            positions = {label: pos for pos, label in enumerate(subgary.data.index)}\n"),
    dict(name="by_gene forgets the telomere stretch", file="cnvlib/cnary.py", old="            if prev_idx < len(subgary):", new="            if prev_idx < len(subgary) - 1:"),
    dict(name="regress: label slices in by_gene (pre-fix code)", edits=[
        (_C, "                    start_idx = positions[gene_idx[0]]\n                    end_idx = positions[gene_idx[-1]] + 1\n", "                    start_idx = gene_idx[0]\n                    end_idx = gene_idx[-1] + 1\n"),
        (_C, "subgary.data.iloc[prev_idx:start_idx]", "subgary.data.loc[prev_idx:start_idx]"),
        (_C, "subgary.data.iloc[start_idx:end_idx]", "subgary.data.loc[start_idx:end_idx]")], mention="by_gene"),
    dict(name="drop + 1 under .iloc", file=_C, old="                    end_idx = positions[gene_idx[-1]] + 1\n", new="                    end_idx = positions[gene_idx[-1]]\n"),
    dict(name="tail test len - 1", file=_C, old="            if prev_idx < len(subgary):", new="            if prev_idx < len(subgary) - 1:"),
    dict(name="positions looked up but .loc used", file=_C, old="subgary.data.iloc[start_idx:end_idx]", new="subgary.data.loc[start_idx:end_idx]"),
    dict(name="gene labelled Antitarget", file=_C, old="                    yield gene, subgary.as_dataframe(", new="                    yield params.ANTITARGET_NAME, subgary.as_dataframe("),
    dict(name="group end from first row", file=_R, old='        outrow["end"] = rows.end.iat[-1]', new='        outrow["end"] = rows.end.iat[0]'),
    dict(name="group weight mean instead of sum", file=_R, old='            outrow["weight"] = rows["weight"].sum()', new='            outrow["weight"] = rows["weight"].mean()'),
    dict(name="group depth unweighted", file=_R, old='                outrow["depth"] = np.average(rows["depth"], weights=rows["weight"])', new='                outrow["depth"] = rows["depth"].mean()'),
    dict(name="threshold strict", file=_R, old="        if abs(row.log2) >= threshold and row.gene:", new="        if abs(row.log2) > threshold and row.gene:"),
    dict(name="threshold one-sided", file=_R, old="        if abs(row.log2) >= threshold and row.gene:", new="        if row.log2 >= threshold and row.gene:"),
    dict(name="segment filter on gene log2 order", file=_R, old="        if abs(segment.log2) >= threshold:", new="        if abs(segment.log2) > threshold:"),
    dict(name="segment log2 not written", file=_R, old='                row["log2"] = segment.log2\n', new=""),
    dict(name="breaks: left count <=", file=_R, old="                probes_left = sum(s < curr_end for s in gstarts)", new="                probes_left = sum(s <= curr_end for s in gstarts)"),
    dict(name="breaks: or instead of and", file=_R, old="                if probes_left >= min_probes and probes_right >= min_probes:", new="                if probes_left >= min_probes or probes_right >= min_probes:"),
    dict(name="breaks: chromosome test dropped", file=_R, old="        if next_row.chromosome != curr_chrom:\n            continue\n", new=""),
    dict(name="genemetrics min_probes strict", file=_R, old="        table = table[n_probes >= min_probes]", new="        table = table[n_probes > min_probes]"),
    dict(name="squash end from first", file=_C, old="            end = rows.end.iat[-1]\n            cvg", new="            end = rows.end.iat[0]\n            cvg"),
    dict(name="seeded C16a: label - first label used as a position", edits=[(_C, "                    start_idx = positions[gene_idx[0]]\n                    end_idx = positions[gene_idx[-1]] + 1\n", "                    start_idx = gene_idx[0] - subgary.data.index[0]\n                    end_idx = gene_idx[-1] - subgary.data.index[0] + 1\n")]),
    dict(name="seeded C16b: gene summarised from the coverage-filtered bins", file=_R, old="        if not rows or gene in ignore:\n            continue\n        segmean = segment_mean(rows, skip_low)", new="        if gene in ignore:\n            continue\n        if skip_low:\n            rows = rows.drop_low_coverage()\n        if not rows:\n            continue\n        segmean = segment_mean(rows)"),
    dict(name="twin: breaks comparison rewritten", file=_R, old="            if gstarts[0] < curr_end < gend:", new="            if curr_end > gstarts[0] and gend > curr_end:", expect="silent"),
    dict(name="twin: by_gene locals renamed", file=_C, old="            prev_idx = 0\n            for gene, gene_idx in subgary._get_gene_map().items():", new="            prev_idx = 0\n            _n_bins = len(subgary)\n            for gene, gene_idx in subgary._get_gene_map().items():", expect="silent"),
]
