"""C12 -- target and antitarget bins partition exactly the space they should.
D1 target pipeline (copy, non-empty baits, split only when asked, later steps write only `gene`, label shortening keeps the count),
D2 antitarget margins and naming, D3 subtrahend may overlap / nest (shared with C06), D4 size filter and chaining (shared with C06),
D5 contig selection."""
import ast
import itertools
from fractions import Fraction as Fr

from ..abstools import *
from ..absint import CTX, GenList
from ..absval import Raised
from ..core import AnalysisError, own_nodes, norm, parents
from . import C06

LEVEL_TEXT = ('static analysis: (D1) do_target interpreted on symbolic baits: works on a copy, keeps a bait <=> start != end, calls '
              'subdivide(avg_size, min_size 0) exactly when do_split, and afterwards stores into no column but `gene` (annotation through '
              "into_ranges(..., 'gene', '-') whose result is labelled the way the real function labels it, so a store into the table that just "
              'lost its zero-width baits is judged by label, shortened labels); shorten_labels, interpreted exhaustively on all label sequences '
              'of length <= 4 over three label shapes, yields one label per input label; (D2) get_antitargets shrinks the accessible regions by '
              '2*INSERT_SIZE = 500, pads the targets by 500 before subtracting them, subdivides by (average, minimum) and names every bin '
              'Antitarget; the default minimum is 2*int(avg*2^MIN_REF_COVERAGE) (constants folded from params.py); (D2b) guess_chromosome_regions'
              " on literal targets (chr2 before chr10): one row per chromosome, in table order, ending at that chromosome's own last target; (D3)"
              " the padded targets overlap by construction: subtract() is decided on literal tables with nested, overlapping and unsorted subtrahends (rule of C06-D1b), and "
              'merge() itself groups by the stated predicate and leaves nothing unmerged on its fast path (rules of C06-D3 / D3b), and subtract()'
              ' itself is exact on literal tables, keeping the accessible regions of untargeted contigs whole (C06-D1b); (D4) a region is binned '
              '<=> span >= minimum, pieces chain from start to end (rule of C06-D5); (D5) drop_noncanonical_contigs keeps an accessible contig '
              '<=> it is targeted or canonically named (when some target is canonical), else <=> targeted or not longer-named than the longest '
              'targeted one. D2 runs get_antitargets for three average bin sizes: without an access file the chromosome extents are guessed '
              'skipping 150 kb, whatever the bin size. (CLI) the `target / antitarget` command line(s), through a model of argparse built from '
              'the declarations in commands.py and the real _cmd_ body interpreted with readers, library step and writers stubbed: annotation, '
              '--short-names, --split, average and minimum sizes reach do_target / do_antitarget and the output is written under the given or the'
              " default name. Does not decide 'at most 1.5x the average size', coverage of every off-target stretch, or the chromosome-length "
              'heuristic.')
TECHNIQUE = "abstract interpretation with recorded method summaries (argument / order capture); column-write-set lint; small-scope exhaustive interpretation of shorten_labels; shared precondition and chaining rules"


def d1(chk, prog):
    chk.clause("D1", "target pipeline: copy, drop empty baits, split iff asked with min_size 0, then only `gene` is written; label count preserved")
    fi = prog.fn("cnvlib.target.do_target")
    tb = Table(chk, "target-pipeline", "do_target (do_split x annotate x short names)", fi.loc(), fi.qn)
    for do_split, annotate, short in itertools.product([False, True], [None, "ann.bed"], [False, True]):
        W.reset()
        s = [Term.sym(f"s{i}", 0, INF, True) for i in range(3)]
        rows = [dict(chromosome="chr1", start=s[0], end=t_add(s[0], Term.const(120)), gene="a|X,b|Y"),
                dict(chromosome="chr1", start=s[1], end=s[1], gene="a|X"),
                dict(chromosome="chr2", start=s[2], end=t_add(s[2], Term.const(7)), gene="c|Z")]
        baits = make_ga("GenomicArray", rows, {"sample_id": "b"}, index="any", exact=True)
        model = Model()
        events = []

        def subdivide(it, obj, avg, mn=0, verbose=False, events=events):
            events.append(("subdivide", avg, mn, obj.data.n))
            return obj
        model.method_prims["subdivide"] = subdivide

        def ann_values(it, obj, other, column, default, summary_func=None, events=events):
            events.append(("into_ranges", column, default, other.data.n))
            return [f"ANN{i}" for i in range(other.data.n)]
        # the Series is labelled the way the real into_ranges labels it: after the zero-width bait was dropped the table's index is not 0..n-1
        model.method_prims["into_ranges"] = into_ranges_stub(prog, ann_values)
        model.prims["skgenome.tabio.read_auto"] = lambda it, f: make_ga("GenomicArray", [dict(chromosome="chr1", start=0, end=10, gene="ANN")], {"filename": f}, exact=True)
        model.prims["cnvlib.antitarget.compare_chrom_names"] = lambda it, a, b: (set(), set())
        it = Interp(prog, model)
        out = tb.guard(lambda: it.run(fi.qn, [baits, annotate, short, do_split, Fr(800, 3)]), f"split={do_split} annotate={annotate} short={short}")
        if out is None:
            continue
        ok = out is not baits and out.data.n == 2 and same(out.data.cols["start"].v[0], s[0]) and same(out.data.cols["start"].v[1], s[2]) and baits.data.n == 3
        ok = ok and same(out.data.cols["end"].v[0], t_add(s[0], Term.const(120))) and same(out.data.cols["end"].v[1], t_add(s[2], Term.const(7)))
        subs = [e for e in events if e[0] == "subdivide"]
        ok = ok and (subs == [("subdivide", Fr(800, 3), 0, 2)] if do_split else subs == [])
        anns = [e for e in events if e[0] == "into_ranges"]
        ok = ok and (anns == [("into_ranges", "gene", "-", 2)] if annotate else anns == [])
        genes = list(out.data.cols["gene"].v)
        if annotate and not short:
            ok = ok and genes == ["ANN0", "ANN1"]
        if not annotate and not short:
            ok = ok and genes == ["a|X,b|Y", "c|Z"]
        tb.cell(ok, dict(do_split=do_split, annotate=annotate, short_names=short, rows_out=out.data.n, events=[e[:3] for e in events], genes=[repr(g) for g in genes]))
    tb.done("do_target does not return the non-empty baits (split only when asked) with untouched coordinates")
    # column-write set after the split
    par = parents(fi.node)
    stores = [n for n in own_nodes(fi.node) if isinstance(n, (ast.Assign, ast.AugAssign)) for t in (n.targets if isinstance(n, ast.Assign) else [n.target]) if isinstance(t, (ast.Subscript, ast.Attribute))]
    bad = [norm(t) for n in stores for t in (n.targets if isinstance(n, ast.Assign) else [n.target]) if isinstance(t, (ast.Subscript, ast.Attribute)) and norm(t) != "tgt_arr['gene']"]
    chk.decide(not bad, "target-pipeline", "after copying, do_target stores only into tgt_arr['gene']", f"{fi.qn}::column writes", fi.loc(), f"annotation / label shortening must not change coordinates or rows; also stores into {bad}")
    # shorten_labels keeps the count
    fs = prog.fn("cnvlib.target.shorten_labels")
    tb2 = Table(chk, "target-pipeline", "shorten_labels yields one label per input label (all sequences of length <= 4 over 3 label shapes)", fs.loc(), fs.qn)
    shapes = ["mRNA|A1,ref|GENE1", "ref|GENE1", "ens|E9,ref|GENE2"]
    it = Interp(prog)
    for n in range(0, 5):
        for seq in itertools.product(shapes, repeat=n):
            W.reset()
            out = tb2.guard(lambda: list(it.run(fs.qn, [list(seq)])), f"labels={seq}")
            if out is None:
                continue
            tb2.cell(len(out) == len(seq) and all(isinstance(x, str) and x for x in out), dict(labels=list(seq), out=out))
    tb2.done("label shortening changes the number of bins")


def d2(chk, prog):
    chk.clause("D2", "antitarget margins: access -500, targets +500, subdivide(avg, min), bins named Antitarget; default minimum")
    pm = prog.module("cnvlib.params")
    ins, mrc, name = ast.literal_eval(pm.assigns["INSERT_SIZE"]), ast.literal_eval(pm.assigns["MIN_REF_COVERAGE"]), ast.literal_eval(pm.assigns["ANTITARGET_NAME"])
    chk.decide((ins, mrc, name) == (250, -5.0, "Antitarget"), "antitarget-margins", f"params: INSERT_SIZE={ins}, MIN_REF_COVERAGE={mrc}, ANTITARGET_NAME={name!r}", "cnvlib.params::antitarget constants", "cnvlib/params.py",
               "stated margin is 500 = 2 x INSERT_SIZE(250); minimum bin = 2*int(avg/32); name Antitarget")
    fi = prog.fn("cnvlib.antitarget.get_antitargets")
    tb = Table(chk, "antitarget-margins", "get_antitargets call structure (with / without accessible regions)", fi.loc(), fi.qn)
    for have_access, avg_size in ((True, 150000), (False, 150000), (False, 50000), (False, 400000), (True, 50000)):
        W.reset()
        model = Model()
        ev = []

        def tag(name, **kw):
            g = make_ga("GenomicArray", [dict(chromosome="chr1", start=0, end=10, gene="-")], dict(kw, tag=name), exact=True)
            return g
        targets, access = tag("targets"), tag("access")

        def resize(it, obj, bp, chrom_sizes=None, ev=ev):
            ev.append(("resize", obj.meta.get("tag"), bp))
            return tag(f"{obj.meta.get('tag')}{'+' if bp > 0 else ''}{bp}")
        model.method_prims["resize_ranges"] = resize

        def subtract(it, obj, other, ev=ev):
            ev.append(("subtract", obj.meta.get("tag"), other.meta.get("tag")))
            return tag("diff")
        model.method_prims["subtract"] = subtract

        def subdivide(it, obj, avg, mn=0, verbose=False, ev=ev):
            ev.append(("subdivide", obj.meta.get("tag"), avg, mn))
            return tag("bins")
        model.method_prims["subdivide"] = subdivide
        model.prims["cnvlib.antitarget.drop_noncanonical_contigs"] = lambda it, a, t, verbose=True: tag("access")
        guessed = []
        model.prims["cnvlib.antitarget.guess_chromosome_regions"] = lambda it, t, size, guessed=guessed: guessed.append((t.meta.get("tag"), size)) or tag("access")
        it = Interp(prog, model)
        out = tb.guard(lambda: it.run(fi.qn, [targets, access if have_access else None, avg_size, 9374]), f"access={have_access} average size={avg_size}")
        if out is None:
            continue
        want = [("resize", "access", -500), ("resize", "targets", 500), ("subtract", "access-500", "targets+500"), ("subdivide", "diff", avg_size, 9374)]
        ok = sorted(ev[:2]) == sorted(want[:2]) and ev[2:] == want[2:] and out.meta.get("tag") == "bins" and list(out.data.cols["gene"].v) == ["Antitarget"]
        # without an access file the extents are guessed from the targets, skipping the first 150 kb of every chromosome whatever the bin size
        ok = ok and guessed == ([] if have_access else [("targets", 150000)])
        tb.cell(ok, dict(accessible_given=have_access, average_bin_size=avg_size, events=ev, extents_guessed_with=guessed, gene=list(out.data.cols["gene"].v)))
    tb.done("antitargets are not (access shrunk by 500) minus (targets padded by 500), subdivided by (average, minimum) and named Antitarget")
    fd = prog.fn("cnvlib.antitarget.do_antitarget")
    tb2 = Table(chk, "antitarget-margins", "do_antitarget default minimum = 2*int(avg * 2^MIN_REF_COVERAGE)", fd.loc(), fd.qn)
    for avg, mn in ((150000, None), (150000, 0), (100000, None), (150000, 5000)):
        W.reset()
        model = Model()
        seen = {}
        model.prims["cnvlib.antitarget.get_antitargets"] = lambda it, t, a, av, m, seen=seen: seen.update(args=(av, m)) or "BINS"
        it = Interp(prog, model)
        out = tb2.guard(lambda: it.run(fd.qn, ["T", "A", avg, mn]), f"avg={avg} min={mn}")
        if out is None:
            continue
        want = mn if mn else 2 * int(avg / 32)
        got = seen.get("args", (None, None))
        tb2.cell(out == "BINS" and same(got[0], avg) and same(got[1], want), dict(avg=avg, min_given=mn, passed=[repr(x) for x in got], want_min=want))
    tb2.done("the default minimum antitarget size is not 2*int(avg/32)")


def d2b(chk, prog):
    chk.clause("D2b", "without an access table every targeted chromosome is taken from the telomere margin to its own last target's end (literal targets)")
    fi = prog.fn("cnvlib.antitarget.guess_chromosome_regions")
    tb = Table(chk, "antitarget-margins", "guess_chromosome_regions on literal targets (chr2 before chr10; chr1, chr9, chr10, chrX): one row per chromosome, in table order, ending at that chromosome's last target", fi.loc(), fi.qn)
    layouts = {"chr2 before chr10": [("chr2", 100, 200), ("chr2", 800, 900), ("chr10", 10, 50), ("chr10", 300, 400)],
               "chr1, chr9, chr10, chrX": [("chr1", 0, 70), ("chr9", 5, 1500), ("chr10", 20, 60), ("chr10", 90, 250), ("chrX", 40, 41)], "one chromosome": [("chr5", 3, 9)]}
    for label, rows in layouts.items():
        W.reset()
        g = make_ga("GenomicArray", [dict(chromosome=c, start=a, end=b, gene="t") for c, a, b in rows], {}, index="range", exact=True, labels=list(range(len(rows))))
        it = Interp(prog)
        out = tb.guard(lambda: it.run(fi.qn, [g, 150]), label)
        if out is None:
            continue
        want = []
        for c in dict.fromkeys(r[0] for r in rows):
            want.append((c, 150, max(r[2] for r in rows if r[0] == c and r is [x for x in rows if x[0] == c][-1])))
        d = out.data if isinstance(out, GA) else out
        got = list(zip(d.cols["chromosome"].v, [int(T(x).cval()) for x in d.cols["start"].v], [int(T(x).cval()) for x in d.cols["end"].v])) if hasattr(d, "cols") and all(k in d.cols for k in ("chromosome", "start", "end")) else repr(out)[:80]
        tb.cell(got == want, dict(targets=label, got=got, want=want))
    tb.done("a chromosome's guessed extent ends at another chromosome's last target (per-chromosome values laid out in another order than the chromosome names)")


def d5(chk, prog):
    chk.clause("D5", "contig selection: keep targeted or canonically named contigs")
    fi = prog.fn("cnvlib.antitarget.drop_noncanonical_contigs")
    tb = Table(chk, "contig-selection", "drop_noncanonical_contigs (targeted x canonical)", fi.loc(), fi.qn)
    configs = [
        ("a canonical contig is targeted", ["chr1", "chr2", "chrUn_gl000220", "chr6_apd_hap1_random", "chrM", "chr17_ctg5_hap1"], ["chr1", "chrUn_gl000220"],
         ["chr1", "chr2", "chrUn_gl000220"]),
        ("bare names, a canonical contig is targeted", ["1", "X", "GL000207.1_random", "MT"], ["1", "MT"], ["1", "X", "MT"]),
        ("no canonical target: name-length rule", ["chrM", "chrUn_x", "chrEBV"], ["chrM"], ["chrM"]),
    ]
    for label, acc, tgt, want in configs:
        W.reset()
        it = Interp(prog)
        a = make_ga("GenomicArray", [dict(chromosome=c, start=0, end=1000, gene="-") for c in acc], {}, index="any", exact=True)
        t = make_ga("GenomicArray", [dict(chromosome=c, start=10, end=20, gene="g") for c in tgt], {}, index="any", exact=True)
        out = tb.guard(lambda: it.run(fi.qn, [a, t, False]), label)
        if out is None:
            continue
        got = list(out.data.cols["chromosome"].v)
        tb.cell(got == want, dict(case=label, accessible=acc, targeted=tgt, kept=got, want=want))
    tb.done("an accessible contig that is targeted or canonically named is dropped (or an untargeted alternative contig is kept)")
    fc = prog.fn("cnvlib.antitarget.is_canonical_contig_name")
    tb2 = Table(chk, "contig-selection", "is_canonical_contig_name on the contig kinds the property names", fc.loc(), fc.qn)
    it = Interp(prog)
    for name, want in (("chr1", True), ("chr22", True), ("chrX", True), ("Y", True), ("7", True), ("chr6_cox_hap2", False), ("chr1_gl000191_random", False), ("chrUn_gl000211", False),
                       ("HLA-A*01:01", False), ("chrEBV", False), ("chrM", False), ("MT", False), ("chr19_KI270866v1_alt", False)):
        W.reset()
        out = tb2.guard(lambda: ("v", it.run(fc.qn, [name])), name)
        if out is not None:
            tb2.cell(bool(out[1]) is want, dict(contig=name, canonical=out[1], want=want))
    tb2.done("the contig-name rule misclassifies alt / random / Un / HLA / EBV / mitochondrial names")


def run(chk):
    prog = chk.prog
    chk.trust("Python grammar via ast", "re: the module-level patterns are compiled and matched by the real `re` engine on constant strings (no repository code runs)",
              "merge() / flatten() are interpreted whole on literal tables (C06-D3b)")
    d1(chk, prog)
    d2(chk, prog)
    d2b(chk, prog)
    C06.d4(chk, prog)            # the margins themselves: resize_ranges moves both ends by the amount asked, clipped, on a copy -- the caller's targets / access table keep their coordinates (C06-D4 rule)
    chk.clause("D3", "the padded targets may overlap or nest: subtract() on literal tables (C06-D1b rule)")
    C06.d1b(chk, prog)          # the subtraction itself on literal tables (targets missing from a contig leave its accessible regions whole)
    C06.d3b(chk, prog)           # ... and merge() itself leaves nothing unmerged on its fast path / groups by the stated predicate (C06-D3, D3b)
    C06.d3(chk, prog)
    chk.clause("D4", "size filter (span >= minimum) and chaining of the pieces (C06-D5 rule)")
    C06.d5(chk, prog, [(10, 4, 6), (1000, 300, 400), (1000, 300, 0), (100, 300, 0), (449, 300, 0), (450, 300, 0), (751, 300, 0), (1798, Fr(800, 3), 0), (299, 300, 300), (300, 300, 300), (9373, 150000, 9374), (9374, 150000, 9374), (250, 100, 0), (350, 100, 0), (450, 100, 0),
                       (975001, 150000, 9374), (7, 2, 0)])
    d5(chk, prog)
    chk.clause("CLI", "the `target` / `antitarget` command lines: options reach do_target / do_antitarget, the output is written under the given or the default name")
    from .. import cliglue
    cliglue.check_target_antitarget(chk, prog)


_T = "cnvlib/target.py"
_A = "cnvlib/antitarget.py"
MUTANTS = [
    dict(name="regress: antitarget default output from args.interval (pre-fix code)", file="cnvlib/commands.py", old='        base, ext = args.targets.rsplit(".", 1)', new='        base, ext = args.interval.rsplit(".", 1)'),
    dict(name="cli: antitarget passes avg size as min size", file="cnvlib/commands.py", old="antitarget.do_antitarget(targets, access, args.avg_size, args.min_size)", new="antitarget.do_antitarget(targets, access, args.avg_size, args.avg_size)"),
    dict(name="regress: into_ranges returns its values on a fresh 0..n-1 index (pre-fix code)", edits=[("skgenome/intersect.py", "        return pd.Series([default] * len(dest), index=dest.index)", "        return pd.Series([default] * len(dest))"), ("skgenome/intersect.py", "    return pd.Series(result, index=dest.index)", "    return pd.Series(result)")]),
    dict(name="twin: empty baits dropped before the copy", expect="silent", file="cnvlib/target.py", old="    tgt_arr = bait_arr.copy()\n    # Drop zero-width regions\n    tgt_arr = tgt_arr[tgt_arr.start != tgt_arr.end]", new="    tgt_arr = bait_arr[bait_arr.start != bait_arr.end].copy()"),
    dict(name="target: copy dropped", file=_T, old="    tgt_arr = bait_arr.copy()\n    # Drop zero-width regions\n    tgt_arr = tgt_arr[tgt_arr.start != tgt_arr.end]", new="    tgt_arr = bait_arr\n    tgt_arr.data = tgt_arr.data[tgt_arr.start != tgt_arr.end]"),
    dict(name="target: zero-width baits kept", file=_T, old="    tgt_arr = tgt_arr[tgt_arr.start != tgt_arr.end]\n", new=""),
    dict(name="target: split with a minimum size", file=_T, old="        tgt_arr = tgt_arr.subdivide(avg_size, 0)", new="        tgt_arr = tgt_arr.subdivide(avg_size, int(avg_size // 4))"),
    dict(name="target: always split", file=_T, old="    if do_split:\n", new="    if True:\n"),
    dict(name="target: annotation rewrites start", file=_T, old='        tgt_arr["gene"] = annotation.into_ranges(tgt_arr, "gene", "-")', new='        tgt_arr["gene"] = annotation.into_ranges(tgt_arr, "gene", "-")\n        tgt_arr["start"] = tgt_arr["start"] + 0'),
    dict(name="shorten_labels loses the final group", file=_T, old="    # Final emission\n    for _i in range(curr_gene_count):", new="    # Final emission\n    for _i in range(curr_gene_count - 1):"),
    dict(name="antitarget: targets shrunk instead of padded", file=_A, old="        .subtract(targets.resize_ranges(pad_size))", new="        .subtract(targets.resize_ranges(-pad_size))"),
    dict(name="antitarget: access not shrunk", file=_A, old="        accessible.resize_ranges(-pad_size)\n", new="        accessible\n"),
    dict(name="antitarget: pad = INSERT_SIZE", file=_A, old="    pad_size = 2 * INSERT_SIZE", new="    pad_size = INSERT_SIZE"),
    dict(name="antitarget: bins not named", file=_A, old='    bg_arr["gene"] = ANTITARGET_NAME\n', new=""),
    dict(name="antitarget: default minimum without factor 2", file=_A, old="        min_bin_size = 2 * int(avg_bin_size * (2**MIN_REF_COVERAGE))", new="        min_bin_size = int(avg_bin_size * (2**MIN_REF_COVERAGE))"),
    dict(name="seeded C12a: skip list from all accessible contigs", file=_A, old="        chroms_to_skip = [c for c in untgt_chroms if not is_canonical_contig_name(c)]", new="        chroms_to_skip = [c for c in access_chroms if not is_canonical_contig_name(c)]"),
    dict(name="contig rule: mitochondria canonical", file=_A, old='            r"chrM",\n            r"MT",\n', new=""),
    dict(name="regress: subtract without merge", file="skgenome/subtract.py", old="    other = merge(other)\n", new=""),
    dict(name="seeded C12b: last piece end from the float product", edits=[("skgenome/subdivide.py", "                for i in range(1, nbins):", "                for i in range(1, nbins + 1):"), ("skgenome/subdivide.py", "                yield row._replace(start=bin_start)\n", "")]),
    dict(name="twin: pad computed once, reused", file=_A, old="        .subtract(targets.resize_ranges(pad_size))", new="        .subtract(targets.resize_ranges(+pad_size))", expect="silent"),
]
