"""C07 -- range queries return exactly the overlapping / contained / clipped rows.
D1 search side <-> half-open overlap predicate (simple and nested path), D2 the bisection of `end` is guarded by monotone ends,
D3 positions go to .iloc and labels to .loc / Series getitem, D4 into_ranges returns one value per query range (Series on every
path; dispatch of the summary), D5 trim clipping on a copy."""
import ast
import itertools
from fractions import Fraction as Fr

from ..abstools import *
from ..absint import GenList, CTX
from ..absval import Raised, BoundMethod
from ..core import AnalysisError, own_nodes, norm, parents
from ..effects import Resolver
from .. import flow
from .. import pdrules

LEVEL_TEXT = ('static analysis: (D1+D2) skgenome.intersect.idx_ranges is abstractly interpreted, through the real bodies of _irange_simple / '
              '_irange_nested, on a table whose start / end columns are symbolic sorted-column objects: every searchsorted(q, side) becomes the '
              'count #{col < q} / #{col <= q}, position slices and boolean masks are normalised to the set of row predicates they select, and for'
              ' every combination of mode (outer, inner) x starts given/None x ends given/None x ends monotone / nested that set must equal the '
              'half-open predicates (outer: end > qs and start < qe; inner: start >= qs and end <= qe); a result obtained by bisecting the `end` '
              'column when ends are not monotone is a violation (rows nested in a longer row would be lost); (D3) positions from idx_ranges are '
              'consumed by .iloc only, index labels from iter_slices by .loc / Series getitem only; (D4) into_ranges (function and GenomicArray '
              'method), interpreted on literal tables with index labels that are not positions, empty source / destination, a chromosome missing '
              'from the source and a missing column: one value per destination row, labelled like the destination rows; the per-range value is '
              'default / the value / summary(str -> join_strings, float -> nanmedian, else first_of, non-callable -> constant), and the default '
              'combiners do what their names say (join_strings: each distinct string once, in first-seen order); (D5) trim mode clips start from '
              'below by the query start and end from above by the query end on a copy, other modes return rows unchanged; (D6) by_shared_chroms '
              "interpreted on 84 literal table pairs: every chromosome of the query table is paired with exactly the other table's rows on that "
              'chromosome, or with nothing (kept iff keep_empty); (D7) by_ranges (outer / inner / trim) and iter_slices on literal tables with '
              'chromosomes absent from either side and index labels that are not positions: one result per query range, in order, holding exactly'
              ' the overlapping / contained rows (clipped to the query range in trim mode) (their labels for iter_slices). A second literal '
              "layout has rows nested inside a long one (ends not monotone, queries starting past the last row's end). Several query ranges start"
              ' at 0 (each starts from all rows again); D4 includes equal-valued hits (the summary still sees both) and the no-summary-function '
              'dispatch on an empty source. D7 also runs the method GenomicArray.by_ranges on the literal layouts: a query range that selects no '
              'row is listed iff keep_empty. (The former count of searchsorted call sites and the yield-shape rule of D3 were retired as '
              'structural.) Does not decide the row sets of arbitrary tables beyond predicate/side agreement (start column sorted, each '
              "chromosome's rows contiguous, is the premise).")
TECHNIQUE = "abstract interpretation with symbolic sorted columns (searchsorted as counting atoms, masks as predicate sets); index-kind lint; return-kind rule"

IDX = "skgenome.intersect.idx_ranges"
OPS = {"Lt": "<", "LtE": "<=", "Gt": ">", "GtE": ">="}
FLIP = {"<": ">", "<=": ">=", ">": "<", ">=": "<="}
NEG = {"<": ">=", "<=": ">", ">": "<=", ">=": "<"}


class World7:
    def __init__(self):
        self.counts = {}          # term key -> (col, "lt"|"le", q term)
        self.bisected = set()


class Col:
    def __init__(self, w, name, mono):
        self.w, self.name, self.is_monotonic_increasing = w, name, mono
        self.values = self

    def _count(self, q, side):
        kind = "le" if side == "right" else "lt"
        t = fatom(f"n_{self.name}_{kind}", [T(q)], 0, INF, True)
        self.w.counts[t.key()] = (self.name, kind, T(q))
        return t

    def searchsorted(self, q, side="left", sorter=None):
        if side not in ("left", "right"):
            raise Undecided(f"searchsorted side {side!r}")
        if isinstance(q, Vec):
            return Vec([self._count(x, side) for x in q.v])
        if isinstance(q, (list, tuple)):
            return Vec([self._count(x, side) for x in q])
        return self._count(q, side)

    def abs_compare(self, op, other, reflected):
        o = OPS.get(type(op).__name__)
        if o is None:
            raise Undecided("column comparison " + type(op).__name__)
        if reflected:
            o = FLIP[o]
        return Mask(self.w, {(self.name, o, T(other).key())})

    def __repr__(self):
        return f"<col {self.name}>"


class Mask:
    def __init__(self, w, preds=()):
        self.w, self.preds = w, set(preds)

    def abs_binop(self, op, other, reflected):
        if isinstance(op, ast.BitAnd) and isinstance(other, Mask):
            return Mask(self.w, self.preds | other.preds)
        raise Undecided("mask operation " + type(op).__name__)

    def abs_setitem(self, it, k, v, aug):
        if not (isinstance(k, slice) and k.step is None and (v == 0 or v is False)):
            raise Undecided(f"mask store {k!r} = {v!r}")
        self.preds |= slice_preds(self.w, k.stop, k.start, negate=False, zeroing=True)

    def __repr__(self):
        return f"<mask {sorted(self.preds)}>"


class Positions:
    """np.arange(len(table)): the row positions.  `positions >= #{col < q}` holds exactly on the rows with col >= q (the column is sorted),
    `positions < #{col < q}` exactly on those with col < q"""

    def __init__(self, w):
        self.w = w

    def abs_compare(self, op, other, reflected):
        o = OPS.get(type(op).__name__)
        if o is None:
            raise Undecided("row-position comparison " + type(op).__name__)
        if reflected:
            o = FLIP[o]
        if o == ">=":
            return Mask(self.w, slice_preds(self.w, other, None))
        if o == "<":
            return Mask(self.w, slice_preds(self.w, None, other))
        raise Undecided(f"row positions {o} a bound: not a half-open cut of the sorted column")

    def __repr__(self):
        return "<row positions>"


def _arange(w):
    def f(it, n, *a, **k):
        if isinstance(n, NRows) and not a:
            return Positions(w)
        raise Undecided(f"np.arange({n!r})")
    return f


def count_info(w, t):
    if isinstance(t, Term):
        return w.counts.get(t.key())
    return None


def slice_preds(w, lo, hi, negate=False, zeroing=False):
    """predicates satisfied by the rows at positions [lo:hi] of a table whose referenced column is sorted.
    zeroing=True: the rows [None:lo_] / [hi_:None] are removed (mask[:a] = 0 passes (stop=a) as `lo`)."""
    preds = set()
    if zeroing:
        # called with (k.stop, k.start): mask[:stop] = 0 keeps rows at positions >= stop; mask[start:] = 0 keeps rows < start
        keep_from, keep_to = lo, hi
    else:
        keep_from, keep_to = lo, hi
    if keep_from is not None and not _is_zero(keep_from):
        ci = count_info(w, keep_from)
        if ci is None:
            raise Undecided(f"slice bound {keep_from!r} is not a searchsorted count")
        col, kind, q = ci
        if col == "end":
            w.bisected.add("end")
        preds.add((col, ">=" if kind == "lt" else ">", q.key()))       # rows from #{col < q} on satisfy col >= q
    if keep_to is not None and not isinstance(keep_to, NRows):
        ci = count_info(w, keep_to)
        if ci is None:
            raise Undecided(f"slice bound {keep_to!r} is not a searchsorted count")
        col, kind, q = ci
        if col == "end":
            w.bisected.add("end")
        preds.add((col, "<" if kind == "lt" else "<=", q.key()))       # the first #{col < q} rows satisfy col < q
    return preds


def _is_zero(x):
    try:
        return same(x, 0)
    except Exception:
        return False


class Tbl:
    def __init__(self, w, mono, empty=False):
        self.start, self.end = Col(w, "start", True), Col(w, "end", mono)
        self._empty = empty
        self.pop = object()

    def abs_len(self):
        return 0 if self._empty else NRows(1, self.pop)

    def abs_getitem(self, it, k):
        if k in ("start", "end"):
            return getattr(self, k)               # table["start"] is table.start
        raise Undecided(f"subscript of Tbl: {k!r}")


def run_idx(prog, mode, have_s, have_e, mono):
    W.reset()
    w = World7()
    model = Model()
    model.ext["np.ones"] = lambda it, n, **k: Mask(w)
    model.ext["np.arange"] = _arange(w)
    it = Interp(prog, model)
    qs, qe = Term.sym("qs", 0, INF, True), Term.sym("qe", 0, INF, True)
    starts = Vec([qs]) if have_s else None
    ends = Vec([qe]) if have_e else None
    old = CTX.atoms
    CTX.atoms = lambda d, op: True                 # `if start_val:` -- the non-zero case
    try:
        out = it.run(IDX, [Tbl(w, mono), starts, ends, mode])
    finally:
        CTX.atoms = old
    out = list(out)
    if len(out) != 1:
        raise Undecided(f"idx_ranges yielded {len(out)} regions for one query")
    region, sv, ev = out[0]
    if isinstance(region, slice):
        if region.start is None and region.stop is None:
            preds = set()
        else:
            preds = slice_preds(w, region.start, region.stop)
    elif isinstance(region, Mask):
        preds = set(region.preds)
    else:
        raise Undecided(f"region index of unexpected kind {region!r}")
    want = set()
    if have_s:
        want.add(("end", ">", qs.key()) if mode == "outer" else ("start", ">=", qs.key()))
    if have_e:
        want.add(("start", "<", qe.key()) if mode == "outer" else ("end", "<=", qe.key()))
    vals_ok = (sv is None and not have_s or have_s and sv is not None and same(sv, qs) or (not have_s and _is_zero(sv))) and \
              (ev is None and not have_e or have_e and ev is not None and same(ev, qe))
    return preds, want, ("end" in w.bisected), vals_ok


def show(preds):
    return sorted(f"{c} {o} {'qs' if 'qs' in repr(k) else 'qe'}" for c, o, k in preds)


def d12(chk, prog):
    chk.clause("D1", "searchsorted column/side and nested-path masks equal the half-open predicates of outer / inner mode")
    chk.clause("D2", "the `end` column is bisected only when ends are monotone (nested rows take the mask path)")
    chk.rule("range-predicate", "idx_ranges interpreted on symbolic sorted columns; region normalised to the predicate set it selects; compared with "
             "outer: {end > qs, start < qe}, inner: {start >= qs, end <= qe} restricted to the bounds given")
    chk.rule("guarded-bisection", "a region computed by searchsorted on `end` while table.end is not monotone is a violation")
    fi = prog.fn(IDX)
    # (no count of searchsorted call sites: the twelve configurations below are interpreted whichever helpers do the bisection, and each must select its predicate set)
    tb = Table(chk, "range-predicate", "idx_ranges: selected rows == half-open predicate (12 configurations)", fi.loc(), fi.qn)
    guard_bad = []
    for mode, have_s, have_e, mono in itertools.product(["outer", "inner"], [True, False], [True, False], [True, False]):
        if not have_s and not have_e:
            continue
        label = f"mode={mode} starts={'given' if have_s else None} ends={'given' if have_e else None} ends_monotone={mono}"
        r = tb.guard(lambda: run_idx(prog, mode, have_s, have_e, mono), label)
        if r is None:
            continue
        preds, want, bisected_end, vals_ok = r
        tb.cell(preds == want and vals_ok, dict(config=label, selects=show(preds), want=show(want), boundary_values_passed_on=vals_ok))
        if bisected_end and not mono:
            guard_bad.append(label)
    tb.done("a range query does not select exactly the rows that overlap / are contained in the range")
    chk.decide(not guard_bad, "guarded-bisection", "end column bisected only under monotone ends", f"{fi.qn}::_irange_simple on non-monotone ends", fi.loc(),
               "idx_ranges bisects table.end (searchsorted) although table.end is not monotone -- rows nested inside a longer row are lost: " + "; ".join(guard_bad),
               witness=dict(configs=guard_bad, example="in_range('1', 25, None) on {[0,100),[10,20),[30,40)} loses [0,100)"))
    # the whole-table shortcut
    W.reset()
    it = Interp(prog)
    w = World7()
    for args, label in (([Tbl(w, True), None, None, "outer"], "both None"), ([Tbl(w, True, empty=True), Vec([Term.sym("qs")]), Vec([Term.sym("qe")]), "outer"], "empty table")):
        out = list(it.run(IDX, args))
        ok = len(out) == 1 and isinstance(out[0][0], slice) and out[0][0] == slice(None)
        chk.decide(ok, "range-predicate", f"idx_ranges({label}) selects the whole table", f"{fi.qn}::{label}", fi.loc(), f"got {out!r}")


def d3(chk, prog):
    chk.clause("D3", "positions (idx_ranges) -> .iloc; index labels (iter_slices) -> .loc / Series getitem")
    chk.rule("index-kind", "idx_ranges yields positions, iter_slices converts them to labels through `.index[...]`; a position used with "
             ".loc / Series getitem or a label used with .iloc / ndarray indexing selects the wrong rows on any table whose index is not 0..n-1")
    res = Resolver(prog)
    n = 0
    for fi, use, kind, why in pdrules.position_label_uses(prog, res, modules=("skgenome.intersect", "skgenome.gary")):
        n += 1
        chk.decide(why is None, "index-kind", f"{fi.qn}: {kind} used as `{norm(use)[:60]}`", f"{fi.qn}::{norm(use)[:80]}", fi.loc(use), why or "")
    chk.floor("position/label uses", n, 1)
    # (that iter_slices hands out index labels, not positions, is decided on literal tables whose labels are not their positions -- D7 -- not by
    #  matching the shape of its yield expressions)


def d4(chk, prog):
    chk.clause("D4", "into_ranges returns a Series with one value per query range on every path; summary dispatch")
    chk.rule("return-kind", "into_ranges interpreted on literal tables: the result is a Series with one value per row of `dest`, labelled like `dest`")
    fi = prog.fn("skgenome.intersect.into_ranges")
    tbk = Table(chk, "return-kind", "into_ranges on literal tables (index labels that are not positions; empty source / empty dest; a chromosome missing from the source; nested source rows)", fi.loc(), fi.qn)

    def mkt(rows, labels):
        df = DF({"chromosome": Vec([r[0] for r in rows], aligned=True), "start": Vec([r[1] for r in rows], aligned=True), "end": Vec([r[2] for r in rows], aligned=True),
                 "v": Vec([r[3] for r in rows], aligned=True)}, len(rows), "any")
        df.exact, df.labels = True, list(labels)
        return df
    # (two source rows carry the same value: the summary still sees both -- a sum or a count is not idempotent)
    src_full = [("a", 0, 10, "s0"), ("a", 10, 20, "dup"), ("a", 12, 15, "dup"), ("a", 30, 40, "s3"), ("c", 0, 5, "s4")]
    dests = {"three hits / two equal hits / one hit / none / other chromosome": [("a", 5, 14, 0), ("a", 11, 16, 0), ("a", 35, 36, 0), ("a", 20, 30, 0), ("b", 0, 100, 0), ("c", 0, 1, 0)],
             "single destination row": [("a", 0, 100, 0)], "empty destination": []}
    for (dlabel, drows), (slabel, srows), summ in itertools.product(dests.items(), (("five source rows", src_full), ("empty source", [])), ("given function", "none given")):
        W.reset()
        it = Interp(prog)
        dl = [7, 3, 11, 2, 5, 13][:len(drows)]
        dest = mkt(drows, dl)
        src = mkt(srows, [20 + i for i in range(len(srows))])
        # (no summary function given: chosen from the first element's type -- a string column is comma-joined; an empty source has no first element)
        out = tbk.guard(lambda: it.run(fi.qn, [src, dest, "v", "DEFAULT", (lambda ser: ("SUMMARY",) + tuple(ser.v)) if summ == "given function" else None]), f"{dlabel} / {slabel} / summary {summ}")
        if out is None:
            continue
        want = []
        for c, s_, e_, _ in drows:
            hits = [r[3] for r in srows if r[0] == c and r[2] > s_ and r[1] < e_]
            want.append("DEFAULT" if not hits else (hits[0] if len(hits) == 1 else (("SUMMARY",) + tuple(hits) if summ == "given function" else ",".join(dict.fromkeys(hits)))))
        ok = isinstance(out, Vec) and list(out.v) == want and (out.fresh or out.aligned)
        labelled = isinstance(out, Vec) and (out.labels == dl or (not drows and not out.v))
        tbk.cell(ok and labelled, dict(destination=dlabel, source=slabel, summary=summ, values=list(out.v) if isinstance(out, Vec) else repr(out)[:80], want=want,
                                       result_labels=getattr(out, "labels", None), destination_labels=dl))
    # the GenomicArray method: same contract, also when the column is missing (every range gets the default)
    fm = prog.fn("skgenome.gary.GenomicArray.into_ranges")
    for col in ("v", "absent"):
        W.reset()
        it = Interp(prog)
        drows = dests["three hits / two equal hits / one hit / none / other chromosome"]
        dl = [7, 3, 11, 2, 5, 13]
        dga, sga = GA("GenomicArray", mkt(drows, dl), len(drows), {}), GA("GenomicArray", mkt(src_full, [20 + i for i in range(len(src_full))]), len(src_full), {})
        out = tbk.guard(lambda: it.run_method(sga, "into_ranges", [dga, col, "DEFAULT", (lambda ser: ("SUMMARY",) + tuple(ser.v))]), f"method, column {col}")
        if out is None:
            continue
        want = []
        for c, s_, e_, _ in drows:
            hits = [r[3] for r in src_full if r[0] == c and r[2] > s_ and r[1] < e_] if col == "v" else []
            want.append("DEFAULT" if not hits else (hits[0] if len(hits) == 1 else ("SUMMARY",) + tuple(hits)))
        ok = isinstance(out, Vec) and list(out.v) == want and out.labels == dl and bool(out.aligned)
        tbk.cell(ok, dict(method="GenomicArray.into_ranges", column=col, values=list(out.v) if isinstance(out, Vec) else repr(out)[:80], want=want,
                          result_labels=getattr(out, "labels", None), fresh_index=getattr(out, "fresh", None), destination_labels=dl))
    tbk.done("into_ranges does not return one value per destination row (default / the value / the summary), as a Series labelled like the destination rows")
    # dispatch table by abstract interpretation
    W.reset()
    tb = Table(chk, "summary-dispatch", "into_ranges: default / single value / summary by element type", fi.loc(), fi.qn + "::dispatch")

    class Ser:
        def __init__(self, vals):
            self.vals = list(vals)
            self.iat = self

        def abs_getitem(self, it, k):
            if isinstance(k, int):
                return self.vals[k]
            return Ser([self.vals[i] for i in k])

        def abs_len(self):
            return len(self.vals)

    class Frame:
        def __init__(self, col):
            self.col = col
            self.index = ("INDEX-OF", id(self))

        def abs_getitem(self, it, k):
            return self.col

        def abs_len(self):
            return len(self.col.vals)

    for elem, want in (("g", "join_strings"), (Fr(3, 2), "nanmedian"), (7, "first_of")):
        for func in (None, "const", "callable"):
            model = Model()
            model.prims["skgenome.intersect.iter_slices"] = lambda it, *a, **k: [[], [1], [0, 2]]
            model.prims["skgenome.combiners.join_strings"] = lambda it, ser, *a: ("join_strings", tuple(ser.vals))
            model.prims["skgenome.combiners.first_of"] = lambda it, ser: ("first_of", tuple(ser.vals))
            model.ext["np.nanmedian"] = lambda it, ser, **k: ("nanmedian", tuple(ser.vals))
            it = Interp(prog, model)
            vals = [elem, elem, elem] if not isinstance(elem, int) else [7, 8, 9]
            if isinstance(elem, Fr):
                vals = [Fr(3, 2), Fr(5, 2), Fr(7, 2)]
            if elem == "g":
                vals = ["g", "h", "i"]
            src, dest = Frame(Ser(vals)), Frame(Ser([0, 0, 0]))
            sf = None if func is None else ("K" if func == "const" else (lambda s: ("user", tuple(s.vals))))
            captured = {}
            model.ext["pd.Series"] = lambda it, data=None, **k: captured.setdefault("v", data)
            out = tb.guard(lambda: it.run(fi.qn, [src, dest, "col", "DEFAULT", sf]), f"elem={elem!r} func={func}")
            if out is None:
                continue
            if func is None:
                want3 = (want, (vals[0], vals[2]))
            elif func == "const":
                want3 = "K"
            else:
                want3 = ("user", (vals[0], vals[2]))
            ok = isinstance(out, list) and len(out) == 3 and out[0] == "DEFAULT" and same(out[1], vals[1]) and out[2] == want3
            tb.cell(ok, dict(element=repr(elem), summary_func=func, got=repr(out), want=["DEFAULT", repr(vals[1]), repr(want3)]))
    tb.done("into_ranges does not give default / the value / the type-appropriate summary")
    # the default summaries themselves
    tbc = Table(chk, "summary-dispatch", "default combiners on literal Series: join_strings = distinct names in first-seen order, first_of / last_of", "skgenome/combiners.py", "skgenome.combiners")
    for vals, want in ((["A", "B", "A"], "A,B"), (["A", "A", "B"], "A,B"), (["B", "A", "B", "C", "A"], "B,A,C"), (["A"], "A")):
        W.reset()
        it = Interp(prog)
        ser = Vec(list(vals), aligned=True)
        ser.exact = True
        out = tbc.guard(lambda: ("v", it.run("skgenome.combiners.join_strings", [ser])), f"join_strings{vals}")
        if out is not None:
            tbc.cell(out[1] == want, dict(combiner="join_strings", values=vals, got=repr(out[1]), want=want))
    for name, want in (("first_of", "A"), ("last_of", "C")):
        W.reset()
        it = Interp(prog)
        ser = Vec(["A", "B", "C"], aligned=True)
        ser.exact = True
        out = tbc.guard(lambda: ("v", it.run(f"skgenome.combiners.{name}", [ser])), name)
        if out is not None:
            tbc.cell(out[1] == want, dict(combiner=name, got=repr(out[1]), want=want))
    tbc.done("a default summary of into_ranges / merge is not what its name says (join_strings: each distinct string once, in order)")


def d5(chk, prog):
    chk.clause("D5", "trim clips start from below and end from above on a copy; outer/inner return rows unchanged")
    fi = prog.fn("skgenome.intersect.iter_ranges")
    tb = Table(chk, "trim-clipping", "iter_ranges(mode) closed forms", fi.loc(), fi.qn)
    for mode, have_s, have_e in itertools.product(["trim", "outer", "inner"], [True, False], [True, False]):
        W.reset()
        qs, qe = Term.sym("qs", 0, INF, True), Term.sym("qe", 0, INF, True)
        model = Model()
        seen_mode = []

        def idx(it, table, starts, ends, m, seen_mode=seen_mode):
            seen_mode.append(m)
            return [(Vec([True, False]), qs if have_s else None, qe if have_e else None)]
        model.prims[IDX] = idx
        it = Interp(prog, model)
        s0, e0, s1, e1 = (Term.sym(x, 0, INF, True) for x in ("s0", "e0", "s1", "e1"))
        df = DF({"chromosome": Vec(["c", "c"]), "start": Vec([s0, s1]), "end": Vec([e0, e1])}, 2)
        old = CTX.atoms
        CTX.atoms = lambda d, op: True
        try:
            out = tb.guard(lambda: list(it.run(fi.qn, [df, None, Vec([qs]) if have_s else None, Vec([qe]) if have_e else None, mode])), f"mode={mode}")
        finally:
            CTX.atoms = old
        if out is None:
            continue
        sub = out[0]
        ws = f_max(s0, qs) if (mode == "trim" and have_s) else s0
        we = f_min(e0, qe) if (mode == "trim" and have_e) else e0
        ok = len(out) == 1 and same(sub.cols["start"].v[0], ws) and same(sub.cols["end"].v[0], we) and [k is True for k in sub.cols["__keep__"].v] == [True, False]
        ok = ok and same(df.cols["start"].v[0], s0) and same(df.cols["end"].v[0], e0)
        ok = ok and seen_mode == ["inner" if mode == "inner" else "outer"]
        tb.cell(ok, dict(mode=mode, starts=have_s, ends=have_e, start=repr(sub.cols["start"].v[0]), end=repr(sub.cols["end"].v[0]), want=(repr(ws), repr(we)),
                         index_mode=seen_mode, input_start=repr(df.cols["start"].v[0])))
    tb.done("trim mode does not clip to the query range on a copy (or another mode alters rows)")


def exact_df(chroms, tag):
    df = DF({"chromosome": Vec(list(chroms), aligned=True), "start": Vec([10 * i for i in range(len(chroms))], aligned=True),
             "end": Vec([10 * i + 5 for i in range(len(chroms))], aligned=True), "id": Vec([f"{tag}{i}" for i in range(len(chroms))], aligned=True)}, len(chroms))
    df.exact = True
    return df


def d6(chk, prog):
    chk.clause("D6", "chromosome pairing: every chromosome of the query table is paired with exactly the other table's rows on that chromosome (or nothing)")
    fi = prog.fn("skgenome.intersect.by_shared_chroms")
    tb = Table(chk, "chromosome-pairing", "by_shared_chroms on small tables (one / several chromosomes on either side; absent chromosomes; keep_empty)", fi.loc(), fi.qn)
    tables = [["a"], ["a", "a"], ["a", "a", "b"], ["b", "a", "a"], ["b"], ["a", "c"]]
    others = [["a"], ["a", "a"], ["a", "b"], ["b", "a", "b"], ["b"], ["c", "b"], ["a", "b", "c"]]
    for tc, oc, keep in itertools.product(tables, others, [True, False]):
        W.reset()
        t, o = exact_df(tc, "t"), exact_df(oc, "o")
        it = Interp(prog)
        out = tb.guard(lambda: list(it.run(fi.qn, [t, o, keep])), f"table={tc} other={oc} keep_empty={keep}")
        if out is None:
            continue
        want = []
        for c in dict.fromkeys(tc):
            trows = [f"t{i}" for i, x in enumerate(tc) if x == c]
            orows = [f"o{i}" for i, x in enumerate(oc) if x == c]
            if orows:
                want.append((c, trows, orows))
            elif keep:
                want.append((c, trows, None))
        got = []
        for trip in out:
            c, tt, oo = trip
            got.append((c, list(tt.cols["id"].v) if isinstance(tt, DF) else repr(tt), (list(oo.cols["id"].v) if isinstance(oo, DF) else repr(oo)) if oo is not None else None))
        tb.cell(got == want, dict(table=tc, other=oc, keep_empty=keep, got=got, want=want))
    tb.done("by_shared_chroms pairs a chromosome's rows with rows of another chromosome (or drops / duplicates a chromosome)")


def d7(chk, prog):
    chk.clause("D7", "by_ranges / iter_slices: one result per query range, in order, also for a chromosome missing from the queried table")
    for layout, lits, queries in (("overlapping rows", [("a", 0, 10), ("a", 10, 30), ("a", 25, 40), ("a", 50, 60), ("c", 5, 15)],
                                   [("a", 5, 12), ("a", 28, 55), ("b", 0, 10), ("b", 20, 30), ("b", 40, 50), ("c", 0, 5), ("a", 70, 80)]),
                                  # rows nested inside a long one: the last row (by start) ends before the long row does, ends are not monotone
                                  ("nested rows", [("a", 0, 100), ("a", 10, 20), ("a", 30, 35), ("c", 0, 50), ("c", 5, 15)],
                                   # (several query ranges start at 0, "no lower bound" to the code: each starts from all rows again)
                                   [("a", 0, 5), ("a", 0, 15), ("a", 0, 200), ("a", 12, 18), ("a", 33, 99), ("a", 40, 60), ("a", 100, 120), ("c", 0, 3), ("c", 0, 60), ("c", 20, 30), ("c", 50, 60)]),
                                  # one chromosome on both sides (the shortcut of the chromosome pairing), and a queried table without any row
                                  ("one chromosome on both sides", [("a", 0, 10), ("a", 10, 30), ("a", 25, 40)], [("a", 5, 12), ("a", 28, 55), ("a", 70, 80)]),
                                  ("empty table, queries on one chromosome", [], [("a", 5, 12), ("a", 28, 55), ("a", 70, 80)]),
                                  ("empty table, queries on two chromosomes", [], [("a", 5, 12), ("b", 28, 55), ("a", 70, 80)])):
        _d7_layout(chk, prog, layout, lits, queries)
    d7b(chk, prog)


def d7b(chk, prog):
    """in_range / in_ranges on a literal table: the rows of the named chromosome the range selects -- none, as an empty table, for a chromosome the table has no row on"""
    fi = prog.fn("skgenome.gary.GenomicArray.in_range")
    tb = Table(chk, "one-per-query", "in_range / in_ranges on a literal table (chromosomes a, c; nested rows): present chromosome, absent chromosome, open ends; three modes", fi.loc(), fi.qn)
    lits = [("a", 0, 100), ("a", 10, 20), ("a", 30, 35), ("c", 0, 50), ("c", 5, 15)]
    for chrom_, lo, hi, mode in itertools.product(["a", "c", "b"], [None, 12], [None, 33], ["outer", "inner", "trim"]):
        W.reset()
        df = DF({"chromosome": Vec([r[0] for r in lits], aligned=True), "start": Vec([r[1] for r in lits], aligned=True), "end": Vec([r[2] for r in lits], aligned=True),
                 "id": Vec([f"t{i}" for i in range(len(lits))], aligned=True)}, len(lits), "any")
        df.exact, df.labels = True, [7, 3, 9, 11, 2]
        g = GA("GenomicArray", df, len(lits), {})
        it = Interp(prog)
        out = tb.guard(lambda: it.run_method(g, "in_range", [chrom_, lo, hi, mode]), f"in_range({chrom_!r}, {lo}, {hi}, {mode})")
        if out is None:
            continue
        if mode == "inner":
            want = [(f"t{i}", r[1], r[2]) for i, r in enumerate(lits) if r[0] == chrom_ and (lo is None or r[1] >= lo) and (hi is None or r[2] <= hi)]
        else:
            want = [(f"t{i}", (max(r[1], lo) if (mode == "trim" and lo) else r[1]), (min(r[2], hi) if (mode == "trim" and hi) else r[2]))
                    for i, r in enumerate(lits) if r[0] == chrom_ and (lo is None or r[2] > lo) and (hi is None or r[1] < hi)]
        c = out.data.cols if isinstance(out, GA) else {}
        got = [(a, int(T(b).cval()), int(T(e_).cval())) for a, b, e_ in zip(c["id"].v, c["start"].v, c["end"].v)] if all(k in c for k in ("id", "start", "end")) else repr(out)[:60]
        tb.cell(got == want, dict(chromosome=chrom_, start=lo, end=hi, mode=mode, got=got, want=want))
    tb.done("in_range does not return exactly the named chromosome's rows the range selects (an empty table for a chromosome without rows)")


def _d7_layout(chk, prog, layout, lits, queries):

    def mk(rows, tag, labels=None):
        df = DF({"chromosome": Vec([r[0] for r in rows], aligned=True), "start": Vec([r[1] for r in rows], aligned=True), "end": Vec([r[2] for r in rows], aligned=True),
                 "id": Vec([f"{tag}{i}" for i in range(len(rows))], aligned=True)}, len(rows), "any")
        df.exact = True
        df.labels = labels if labels is not None else list(range(len(rows)))
        return df
    fi = prog.fn("skgenome.intersect.by_ranges")
    tb = Table(chk, "one-per-query", f"by_ranges on literal tables ({layout}): (query row, overlapping / contained rows) per query range; chromosomes b (absent from the table) and c; modes x keep_empty", fi.loc(), fi.qn)
    for mode, keep in itertools.product(["outer", "inner", "trim"], [True, False]):
        W.reset()
        t, o = mk(lits, "t"), mk(queries, "q")
        it = Interp(prog)
        out = tb.guard(lambda: list(it.run(fi.qn, [t, o, mode, keep])), f"mode={mode} keep_empty={keep}")
        if out is None:
            continue
        want = []
        for c in dict.fromkeys(q[0] for q in queries):
            present = any(r[0] == c for r in lits)
            for qi, q in enumerate(queries):
                if q[0] != c:
                    continue
                if not present:
                    if keep:
                        want.append((f"q{qi}", []))
                    continue
                if mode == "inner":
                    hit = [(f"t{i}", r[1], r[2]) for i, r in enumerate(lits) if r[0] == c and r[1] >= q[1] and r[2] <= q[2]]
                elif mode == "outer":
                    hit = [(f"t{i}", r[1], r[2]) for i, r in enumerate(lits) if r[0] == c and r[2] > q[1] and r[1] < q[2]]
                else:
                    # trim: every overlapping row, clipped to the query range (a start / end of 0 means "unbounded" to the code)
                    hit = [(f"t{i}", max(r[1], q[1]) if q[1] else r[1], min(r[2], q[2]) if q[2] else r[2]) for i, r in enumerate(lits) if r[0] == c and r[2] > q[1] and r[1] < q[2]]
                want.append((f"q{qi}", hit))
        got = []
        for brow, sub in out:
            got.append((getattr(brow, "id", None), [(a, int(T(b).cval()), int(T(e_).cval())) for a, b, e_ in zip(sub.cols["id"].v, sub.cols["start"].v, sub.cols["end"].v)] if isinstance(sub, DF) else list(sub)))
        tb.cell(got == want, dict(layout=layout, mode=mode, keep_empty=keep, got=got, want=want))
    tb.done("by_ranges does not give one (query, rows) pair per query range in order (a chromosome missing from the table must yield empty results when keep_empty)")
    # the method on the table class: the same pairs, a query range that selects nothing being listed iff keep_empty (whether its chromosome is in the table or not)
    fm = prog.fn("skgenome.gary.GenomicArray.by_ranges")
    tbm = Table(chk, "one-per-query", f"GenomicArray.by_ranges on literal tables ({layout}): query ranges without any row are listed iff keep_empty", fm.loc(), fm.qn)
    for mode, keep in itertools.product(["outer", "inner", "trim"], [True, False]):
        W.reset()
        ga_t = GA("GenomicArray", mk(lits, "t"), len(lits), {})
        ga_o = GA("GenomicArray", mk(queries, "q"), len(queries), {})
        it = Interp(prog)
        out = tbm.guard(lambda: list(it.run_method(ga_t, "by_ranges", [ga_o], dict(mode=mode, keep_empty=keep))), f"method mode={mode} keep_empty={keep}")
        if out is None:
            continue
        want = []
        for c in dict.fromkeys(q[0] for q in queries):
            for qi, q in enumerate(queries):
                if q[0] != c:
                    continue
                if mode == "inner":
                    hit = [f"t{i}" for i, r in enumerate(lits) if r[0] == c and r[1] >= q[1] and r[2] <= q[2]]
                else:
                    hit = [f"t{i}" for i, r in enumerate(lits) if r[0] == c and r[2] > q[1] and r[1] < q[2]]
                if hit or keep:
                    want.append((f"q{qi}", hit))
        got = [(getattr(brow, "id", None), list(sub.data.cols["id"].v) if isinstance(sub, GA) else repr(sub)[:40]) for brow, sub in out]
        tbm.cell(got == want, dict(layout=layout, mode=mode, keep_empty=keep, got=got, want=want))
    tbm.done("GenomicArray.by_ranges lists a query range that selects no row although keep_empty is off (or drops one although it is on)")
    fs = prog.fn("skgenome.intersect.iter_slices")
    tb2 = Table(chk, "one-per-query", f"iter_slices on literal tables ({layout}) with index labels that are not positions: label arrays per query range", fs.loc(), fs.qn)
    labels = [40, 31, 22, 13, 4]
    for mode, keep in itertools.product(["outer", "inner"], [True, False]):
        W.reset()
        t, o = mk(lits, "t", labels), mk(queries, "q")
        it = Interp(prog)
        out = tb2.guard(lambda: [list(x.v) if isinstance(x, Vec) else list(it.iterate(x)) for x in it.run(fs.qn, [t, o, mode, keep])], f"mode={mode} keep_empty={keep}")
        if out is None:
            continue
        want = []
        for c in dict.fromkeys(q[0] for q in queries):
            present = any(r[0] == c for r in lits)
            for q in queries:
                if q[0] != c:
                    continue
                if not present:
                    if keep:
                        want.append([])
                    continue
                if mode == "inner":
                    hit = [labels[i] for i, r in enumerate(lits) if r[0] == c and r[1] >= q[1] and r[2] <= q[2]]
                else:
                    hit = [labels[i] for i, r in enumerate(lits) if r[0] == c and r[2] > q[1] and r[1] < q[2]]
                if keep or hit:
                    want.append(hit)
        tb2.cell(out == want, dict(layout=layout, mode=mode, keep_empty=keep, got=out, want=want))
    tb2.done("iter_slices does not yield the index labels of each query range's rows, one array per query range")


def run(chk):
    prog = chk.prog
    chk.trust("Python grammar via ast", "Series.searchsorted(q, side): 'left' = #{x < q}, 'right' = #{x <= q} on a sorted column; .loc label-based, .iloc position-based",
              "premise of the property's tables: start column sorted within a chromosome")
    d12(chk, prog)
    d3(chk, prog)
    d4(chk, prog)
    d5(chk, prog)
    d6(chk, prog)
    d7(chk, prog)


_I = "skgenome/intersect.py"
MUTANTS = [
    dict(name="regress: method default path on a fresh index (pre-fix code)", file="skgenome/gary.py", old="            return pd.Series(np.repeat(default, len(other)), index=other.data.index)", new="            return pd.Series(np.repeat(default, len(other)))"),
    dict(name="regress: into_ranges returns its values on a fresh 0..n-1 index (pre-fix code)", edits=[("skgenome/intersect.py", "        return pd.Series([default] * len(dest), index=dest.index)", "        return pd.Series([default] * len(dest))"), ("skgenome/intersect.py", "    return pd.Series(result, index=dest.index)", "    return pd.Series(result)")]),
    dict(name="twin: trim clips through assign", expect="silent", file=_I, old="            if start_val:\n                subtable.start = subtable.start.clip(lower=start_val)", new="            if start_val:\n                subtable = subtable.assign(start=subtable.start.clip(lower=start_val))"),
    dict(name="seeded C07c: one-chromosome shortcut when the other table merely covers it", file=_I, old="    if len(table_chr) == 1 and table_chr == other_chr:", new="    if len(table_chr) == 1 and table_chr <= other_chr:"),
    dict(name="seeded C13d: shortcut by .any() instead of set equality", file=_I, old="""    table_chr, other_chr = set(table["chromosome"]), set(other["chromosome"])
    if len(table_chr) == 1 and table_chr == other_chr:
        yield table["chromosome"].iat[0], table, other""", new="""    table_chr = table["chromosome"].unique()
    if len(table_chr) == 1 and (other["chromosome"] == table_chr[0]).any():
        yield table_chr[0], table, other"""),
    # (kept as a twin until round 11: with an EMPTY data table `(other == c).all()` is vacuously true, the shortcut is taken and one result comes back for all the query ranges --
    #  the same slip as seed C07q; the empty-table layouts of D7 showed that the "twin" was never behaviour-preserving)
    dict(name="shortcut by .all() on unique(): vacuously true for an empty table", file=_I, old="""    table_chr, other_chr = set(table["chromosome"]), set(other["chromosome"])
    if len(table_chr) == 1 and table_chr == other_chr:
        yield table["chromosome"].iat[0], table, other""", new="""    table_chr = table["chromosome"].unique()
    if len(table_chr) == 1 and (other["chromosome"] == table_chr[0]).all():
        yield table_chr[0], table, other"""),
    dict(name="twin: shortcut tested with nunique and set equality", expect="silent", file=_I, old="    table_chr, other_chr = set(table[\"chromosome\"]), set(other[\"chromosome\"])\n    if len(table_chr) == 1 and table_chr == other_chr:", new="    table_chr, other_chr = set(table[\"chromosome\"].unique()), set(other[\"chromosome\"].unique())\n    if table[\"chromosome\"].nunique() == 1 and table_chr == other_chr:"),
    dict(name="keep_empty ignored for absent chromosomes", file=_I, old="            elif keep_empty:\n                yield chrom, ctable, None", new="            else:\n                yield chrom, ctable, None"),
    dict(name="regress: bisect end on nested rows when ends missing", file=_I, old="        if not table.end.is_monotonic_increasing:", new="        if ((ends is not None and len(ends)) and (starts is not None and len(starts))) and not table.end.is_monotonic_increasing:"),
    dict(name="regress: into_ranges returns dest", file=_I, old="        return pd.Series([default] * len(dest), index=dest.index)", new="        return dest"),
    dict(name="outer start: side right dropped", file=_I, old='            start_idxs = table.end.searchsorted(starts, "right")', new="            start_idxs = table.end.searchsorted(starts)"),
    dict(name="inner end: side right dropped", file=_I, old='            end_idxs = table.end.searchsorted(ends, "right")', new="            end_idxs = table.end.searchsorted(ends)"),
    dict(name="outer end searches end column", file=_I, old="            end_idxs = table.start.searchsorted(ends)\n", new="            end_idxs = table.end.searchsorted(ends)\n"),
    dict(name="nested mask > -> >=", file=_I, old="                region_mask = table.end.values > start_val", new="                region_mask = table.end.values >= start_val"),
    dict(name="nested inner <= -> <", file=_I, old="                region_mask &= table.end.values <= end_val", new="                region_mask &= table.end.values < end_val"),
    dict(name="nested outer end: side right", file=_I, old="                end_idx = table.start.searchsorted(end_val)\n", new='                end_idx = table.start.searchsorted(end_val, "right")\n'),
    dict(name="iter_ranges uses .loc with positions", file=_I, old="        subtable = table.iloc[region_idx]", new="        subtable = table.loc[region_idx]"),
    dict(name="intersection uses .iloc with labels", file="skgenome/gary.py", old="        return self.as_dataframe(self.data.loc[indices])", new="        return self.as_dataframe(self.data.iloc[indices])"),
    dict(name="iter_slices yields positions", file=_I, old="                indices = src_rows.index[slc].values", new="                indices = np.arange(len(src_rows))[slc]"),
    dict(name="trim clips end from below", file=_I, old="                subtable.end = subtable.end.clip(upper=end_val)", new="                subtable.end = subtable.end.clip(lower=end_val)"),
    dict(name="equivalent under pandas>=3 copy-on-write: trim without copy", file=_I, old="            subtable = subtable.copy()\n", new="", expect="silent"),
    dict(name="trim passes inner to idx_ranges", file=_I, old='table, starts, ends, "inner" if mode == "inner" else "outer"', new='table, starts, ends, "outer" if mode == "outer" else "inner"'),
    dict(name="into_ranges: keep_empty False", file=_I, old='for slc in iter_slices(source, dest, "outer", True)', new='for slc in iter_slices(source, dest, "outer", False)'),
    dict(name="into_ranges: single value summarised", file=_I, old="        if len(ser) == 1:\n            return ser.iat[0]\n", new=""),
    dict(name="into_ranges: float -> first_of", file=_I, old="            summary_func = np.nanmedian", new="            summary_func = first_of"),
    dict(name="twin: nested mask operands swapped", file=_I, old="                region_mask = table.end.values > start_val", new="                region_mask = start_val < table.end.values", expect="silent"),
    dict(name="twin: explicit side left", file=_I, old="            end_idxs = table.start.searchsorted(ends)\n", new='            end_idxs = table.start.searchsorted(ends, "left")\n', expect="silent"),
]
