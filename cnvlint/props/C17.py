"""C17 -- segment statistics and bin tests match their definitions on the right bins.
D1 right bins / right operand / registry, D2 interval closed forms, D3 reproducible CI, D4 the segments' own columns unchanged,
D5 bintest closed form, alignment, selection and exact Benjamini-Hochberg."""
import ast
import itertools
from fractions import Fraction as Fr

from ..abstools import *
from ..absint import CTX, GenList
from ..absval import Raised, Closure, f_sqrt
from ..core import AnalysisError, own_nodes, norm, parents
from ..effects import Effects, Resolver
from .. import rules, estyping

LEVEL_TEXT = ('static analysis: (D1) do_segmetrics interpreted with tagged statistics, for every statistic requested at once and for three smaller requests (one / two statistics of a class: a one-shot iterator shared by two statistics serves only the first): every location statistic is applied to exactly the bins '
              "iter_ranges_of(segments, 'log2', 'outer', keep_empty) yields for that segment, every spread statistic to those bins minus the "
              "segment's log2, every interval to all of the segment's bins and their weights selected by the bins' own index (a filtered subset "
              'is a wrong operand); the statistic names are bound to the named functions, each CLI flag names an implemented statistic of its '
              'class, skip_low drops null-coverage bins first; (D2) the prediction interval is the 100*alpha/2 and 100*(1 - alpha/2) percentiles '
              '(exact terms in alpha); the bootstrap CI takes the same percentiles of the resampled weighted means, raises the number of '
              'bootstraps to ceil(2/alpha) when too few, returns the value itself for fewer than two bins and rejects alpha outside (0, 1); (D3) '
              "every random draw of segmetrics.py is dominated by a constant seed (through the private helper's only caller) and no draw comes "
              'from a generator object shared between calls; (D4) all stores go to a copy of the segments and only to new column names; (D5) '
              'z_prob = BH(2*cdf(-|log2 / sqrt(1 - weight)|)); do_bintest stores the residuals as an index-aligned Series (not positionally), '
              'drops off-target bins before the adjustment when asked, and returns exactly the bins with adjusted p < alpha; a bin covered by two'
              ' overlapping segments is tested once, with its first residual; p_adjust_bh, interpreted on all orderings of four p-values with and'
              ' without ties (tied p-values share the largest rank), equals the Benjamini-Hochberg step-up formula min(1, min_{j>=i} n p_(j) / '
              'j). The per-segment bins are looked up per chromosome (by_shared_chroms pairing, C07-D6 rule) and the estimators behind --bivar / '
              '--mad / --iqr equal their formulas on literal vectors (C19-D6 rule). Which bins --drop-low-coverage leaves out: drop_low_coverage '
              'on literal tables (C15 LOW rule). (CLI) the `segmetrics / bintest` command line(s), through a model of argparse built from the '
              'declarations in commands.py and the real _cmd_ body interpreted with readers, library step and writers stubbed: each of the twelve'
              " statistic flags lands in its own list alone, alpha / bootstrap count / smoothing / --drop-low-coverage and bintest's -a / -t "
              'reach the statistics functions as given. Does not decide numerical agreement of the remaining statistics with reference '
              "implementations, nor that the CI lies inside the bins' range.")
TECHNIQUE = "abstract interpretation with tagged statistic summaries (argument provenance), exact rational terms in alpha, seed-dominance rule, exact small-scope evaluation of Benjamini-Hochberg"

SM = "cnvlib.segmetrics"
LOC = {"mean": "np.mean", "median": "np.median", "mode": "descriptives.modal_location", "p_ttest": None}
SPR = {"stdev": "np.std", "mad": "descriptives.median_absolute_deviation", "mse": "descriptives.mean_squared_error", "iqr": "descriptives.interquartile_range",
       "bivar": "descriptives.biweight_midvariance", "sem": "stats.sem"}
INT = {"ci": None, "pi": None}


class Idx:
    def __init__(self, key):
        self.key = key
        self.is_unique = True

    def __eq__(self, other):
        return AllTrue(isinstance(other, Idx) and other.key == self.key)

    def __hash__(self):
        return hash(self.key)


class AllTrue:
    def __init__(self, v):
        self.v = v

    def all(self):
        return self.v

    def __bool__(self):
        return bool(self.v)


class TagArr(tuple):
    """a tagged array (one segment's values or weights): comparisons give a mask, masking gives a differently tagged array,
    so an interval statistic fed a filtered subset of the segment's bins is visible as a wrong operand"""

    def abs_compare(self, op, other, reflected=False):
        return TagMask(self)

    def abs_getitem(self, it, k):
        if isinstance(k, TagMask):
            return TagArr(tuple(self) + ("SUBSET-BY", tuple(k.of)))
        raise Undecided(f"subscript {k!r} of a tagged array")


class TagMask:
    def __init__(self, of):
        self.of = of

    def any(self):
        return True

    def all(self):
        return False

    def sum(self):
        raise Undecided("size of a tagged mask")


class Bins:
    """the log2 Series of one segment's bins"""

    def __init__(self, seg, vals, wts):
        self.seg, self.vals, self.wts = seg, list(vals), list(wts)
        self.index = Idx(seg)
        self.values = TagArr(("VALUES", seg))

    ANY = True           # what `.any()` of a non-empty run answers: the log2 values are arbitrary reals, all of them may be exactly 0 (the clause is run under both answers)

    def abs_len(self):
        return len(self.vals)

    def any(self, *a, **k):
        return bool(self.vals) and Bins.ANY

    def abs_binop(self, op, other, reflected):
        if isinstance(op, ast.Sub) and not reflected:
            return ("DEV", self.seg, repr(other))
        raise Undecided("bins arithmetic")

    def abs_compare(self, op, other, reflected):
        return ("MASK", self.seg, type(op).__name__, repr(other))

    def abs_getitem(self, it, k):
        if isinstance(k, tuple) and k and k[0] == "MASK":
            # a selection among the segment's bins by their values: other bins than the ones handed over
            return Bins(("FILTERED-BY-VALUE", self.seg) + k[2:], self.vals, self.wts)
        raise Undecided(f"bins[{k!r}]")


class Weights:
    def abs_getitem(self, it, k):
        if isinstance(k, Idx):
            w = Row({"index": k, "values": TagArr(("WEIGHTS", k.key))})
            return w
        raise Raised("IndexMisalignment", f"the weight column is indexed by {k!r} instead of the bins' own index labels: a segment's bins get other bins' weights")


def d1(chk, prog):
    chk.clause("D1", "right bins, right operand; statistic registry and CLI classes; skip_low")
    fi = prog.fn(f"{SM}.do_segmetrics")
    # which function each statistic name is bound to is decided by the tagged interpretation below (every name is requested there)
    cmds = prog.module("cnvlib.commands")
    flags = []
    for n in ast.walk(cmds.tree):
        if isinstance(n, ast.Call) and isinstance(n.func, ast.Attribute) and n.func.attr == "add_argument":
            kw = {k.arg: k.value for k in n.keywords}
            if "dest" in kw and "const" in kw and norm(kw["dest"]).strip("'") in ("location_stats", "spread_stats", "interval_stats"):
                flags.append((ast.literal_eval(kw["dest"]), ast.literal_eval(kw["const"])))
    chk.floor("segmetrics statistic flags", len(flags), 12)
    cls_of = {**{k: "location_stats" for k in LOC}, **{k: "spread_stats" for k in SPR}, **{k: "interval_stats" for k in INT}}
    wrong = [(dst, c) for dst, c in flags if cls_of.get(c) != dst]
    chk.decide(not wrong and {c for _, c in flags} == set(cls_of), "statistic-registry", f"{len(flags)} CLI flags name an implemented statistic of their class", "cnvlib.commands::segmetrics flags", "cnvlib/commands.py",
               f"flags in the wrong class or unknown: {wrong}; missing: {sorted(set(cls_of) - {c for _, c in flags})}")
    # interpretation with tagged statistics
    tb = Table(chk, "right-bins", "do_segmetrics: arguments of every statistic (location / spread / interval)", fi.loc(), fi.qn)
    # every statistic requested at once, and smaller requests (one / two of a class): the order and number of statistics asked for must not
    # change what each one is computed on (a one-shot iterator shared between two statistics serves only the first)
    requests = [(list(LOC), list(SPR), ['ci', 'pi']), (list(LOC)[:1], list(SPR)[:2], ['pi']), (list(LOC)[-2:], list(SPR)[-1:], ['ci']), ([], list(SPR)[1:3], [])]
    for loc_req, spr_req, int_req in requests:
      for skip_low, any_answer in (((False, True), (True, True), (False, False)) if len(loc_req) == len(LOC) else ((False, True),)):
          W.reset()
          Bins.ANY = any_answer
          model = Model()
          seglog = [Term.sym("L0"), Term.sym("L1"), Term.sym("L2")]
          segs = make_ga("CopyNumArray", [dict(chromosome="chr1", start=i * 100, end=i * 100 + 100, gene="-", log2=seglog[i], probes=2) for i in range(3)], {"sample_id": "S"}, index="any", exact=True)
          bins = make_ga("CopyNumArray", [dict(chromosome="chr1", start=i * 10, end=i * 10 + 10, gene="g", log2=Term.sym(f"b{i}"), weight=Term.sym(f"w{i}")) for i in range(4)], {"sample_id": "S", "tag": "raw"}, exact=True)
          ev = {}

          def iro(it, obj, other, column, mode="outer", keep_empty=True, ev=ev):
              ev["iter_ranges_of"] = (obj.meta.get("tag"), other is segs, column, mode, keep_empty)
              return [Bins(0, ["b0", "b1"], ["w0", "w1"]), Bins(1, [], []), Bins(2, ["b3"], ["w3"])]
          model.method_prims["iter_ranges_of"] = iro

          def dlc(it, obj, *a, **k):
              g = GA(obj.cls, obj.data.copy(), obj.data.n, dict(obj.meta, tag="low-dropped"))
              return g
          model.method_prims["drop_low_coverage"] = dlc

          def tagger(name):
              def f(it, a, *rest, **k):
                  return ("STAT", name, a.seg if isinstance(a, Bins) else a)
              return f
          for nm in ("np.mean", "np.median", "np.std", "scipy.stats.sem"):
              model.ext[nm] = tagger(nm)
          model.ext["scipy.stats.ttest_1samp"] = lambda it, a, popmean, **k: (("T", a.seg if isinstance(a, Bins) else a, popmean), ("STAT", "p_ttest", a.seg if isinstance(a, Bins) else a, popmean))
          for nm in ("modal_location", "median_absolute_deviation", "mean_squared_error", "interquartile_range", "biweight_midvariance"):
              model.prims[f"cnvlib.descriptives.{nm}"] = tagger(nm)
          model.ext["np.fromiter"] = fromiter
          model.ext["np.repeat"] = lambda it, v, n: Vec([v] * (n if isinstance(n, int) else n.n))
          model.prims[f"{SM}.confidence_interval_bootstrap"] = lambda it, v, w, alpha, boots, smoothed: (("CI_LO", v, w, repr(alpha), boots, smoothed), ("CI_HI", v, w, repr(alpha), boots, smoothed))
          model.ext["np.percentile"] = lambda it, ser, q: (("PI_LO", ser, repr(q[0])), ("PI_HI", ser, repr(q[1])))
          model.ext["warnings.simplefilter"] = lambda it, *a, **k: None
          # the weight column is looked up by the bins' index labels
          orig_w = bins.data.cols["weight"]
          it = Interp(prog, model)

          def attr_hook(it_, obj, attr):
              return NotImplemented
          wobj = Weights()

          def ld(it_, obj, name, args, kw):
              return NotImplemented
          # route cnarr["weight"] to the Weights object: replace the column by a one-element holder understood by GA getitem
          bins.data.cols["weight"] = wobj
          bins2 = bins
          alpha = Term.sym("alpha", 0, 1)
          out = tb.guard(lambda: it.run(fi.qn, [bins2, segs, list(loc_req), list(spr_req), list(int_req), alpha, 77, True, skip_low]), f"skip_low={skip_low} location={loc_req} spread={spr_req} interval={int_req}")
          if out is None:
              continue
          c = out.data.cols
          ok = ev.get("iter_ranges_of") == ("low-dropped" if skip_low else "raw", True, "log2", "outer", True)
          names = {"mean": "np.mean", "median": "np.median", "mode": "modal_location", "stdev": "np.std", "sem": "scipy.stats.sem", "mad": "median_absolute_deviation",
                   "mse": "mean_squared_error", "iqr": "interquartile_range", "bivar": "biweight_midvariance"}
          problems = []
          for st in loc_req:
              for sgi in range(3):
                  v = c[st].v[sgi] if st in c else None
                  w = ("STAT", "p_ttest", sgi, 0.0) if st == "p_ttest" else ("STAT", names[st], sgi)
                  if v != w:
                      problems.append(f"{st}[{sgi}] = {v!r}")
          for st in spr_req:
              for sgi in range(3):
                  v = c[st].v[sgi] if st in c else None
                  w = ("STAT", names[st], ("DEV", sgi, repr(seglog[sgi])))
                  if v != w:
                      problems.append(f"{st}[{sgi}] = {v!r}")
          for lo, hi, tagl, tagh in [x for x in (("ci_lo", "ci_hi", "CI_LO", "CI_HI"), ("pi_lo", "pi_hi", "PI_LO", "PI_HI")) if x[0][:2] in int_req]:
              for sgi in (0, 2):
                  vl, vh = (c[lo].v[sgi], c[hi].v[sgi]) if lo in c and hi in c else (None, None)
                  okv = isinstance(vl, tuple) and isinstance(vh, tuple) and vl[0] == tagl and vh[0] == tagh and vl[1] == ("VALUES", sgi) and vh[1] == ("VALUES", sgi)
                  if tagl == "CI_LO":
                      okv = okv and vl[2] == ("WEIGHTS", sgi) and vl[3] == "alpha" and vl[4] == 77 and vl[5] is True
                  if not okv:
                      problems.append(f"{lo}/{hi}[{sgi}] = {vl!r} / {vh!r}")
              if lo in c and not is_nan_like(c[lo].v[1]):
                  problems.append(f"{lo}[1] (segment without bins) = {c[lo].v[1]!r}, expected missing")
          keep_cols = all(same(c["log2"].v[i], seglog[i]) for i in range(3)) and list(segs.data.cols) == ["chromosome", "start", "end", "gene", "log2", "probes"] and out is not segs
          Bins.ANY = True
          tb.cell(ok and not problems and keep_cols, dict(skip_low=skip_low, location_stats=loc_req, spread_stats=spr_req, interval_stats=int_req, bins_all_zero=not any_answer, iter_ranges_of=ev.get("iter_ranges_of"), problems=problems[:6], input_segments_untouched=keep_cols))

    tb.done("a segment statistic is computed on the wrong bins / operand (or the input segments are altered)")


def fromiter(it, iterable, dtype=None, count=-1):
    items = list(it.iterate(iterable))
    if isinstance(count, int) and count >= 0:
        if len(items) < count:
            raise Raised("ValueError", f"np.fromiter: iterator too short: {len(items)} of the {count} items asked for")
        items = items[:count]
    return Vec(items)


def is_nan_like(x):
    return x is None or (isinstance(x, float) and x != x)


def d2(chk, prog):
    chk.clause("D2", "interval closed forms: PI / CI percentiles, bootstrap count, degenerate cases")
    fi = prog.fn(f"{SM}.make_pi_func")
    tb = Table(chk, "interval-forms", "prediction / confidence interval percentiles as terms in alpha", fi.loc(), fi.qn)
    W.reset()
    model = Model()
    seen = {}
    model.ext["np.percentile"] = lambda it, ser, q, seen=seen: seen.setdefault("q", (ser, list(it.iterate(q)))) and ("LO", "HI")
    it = Interp(prog, model)
    a = Term.sym("alpha", 0, 1)
    f = tb.guard(lambda: it.run(fi.qn, [a]), "make_pi_func")
    if f is not None:
        out = tb.guard(lambda: it.call(f, ["SER", "WT"], {}), "pi_func")
        q = seen.get("q", (None, [None, None]))
        lo, hi = t_div(t_mul(Term.const(100), a), Term.const(2)), t_mul(Term.const(100), t_sub(Term.const(1), t_div(a, Term.const(2))))
        tb.cell(q[0] == "SER" and same(q[1][0], lo) and same(q[1][1], hi), dict(interval="pi", percentiles=[repr(x) for x in q[1]], want=[repr(lo), repr(hi)], of=q[0]))
    fc = prog.fn(f"{SM}.confidence_interval_bootstrap")
    for alpha, boots, smoothed in itertools.product([Fr(1, 20), Fr(1, 2), Fr(1, 100)], [10, 100, 1000], [False, True]):
        W.reset()
        model = Model()
        seen = {}
        model.ext["np.random.seed"] = lambda it, s, seen=seen: seen.setdefault("seed", s)
        model.ext["np.random.randint"] = lambda it, lo, hi, size=None, seen=seen: seen.setdefault("size", size) and ["IDX0", "IDX1"]

        class Gen:
            def __init__(self, seed):
                seen.setdefault("seed", seed)

            def integers(self, lo, hi=None, size=None, **k):
                seen.setdefault("size", size)
                return ["IDX0", "IDX1"]
        model.ext["np.random.default_rng"] = lambda it, seed=None: Gen(seed)
        # (np.take with the whole matrix of drawn indices gives one row per replicate: the same resamples as taking row by row)
        model.ext["np.take"] = lambda it, arr, idx, **k: [("TAKE", arr, r) for r in idx] if isinstance(idx, list) else ("TAKE", arr, idx)
        model.ext["np.average"] = lambda it, v, weights=None, **k: ("AVG", v, weights)
        model.ext["np.fromiter"] = lambda it, gen, dtype=None, count=-1, seen=seen, **k: seen.setdefault("dist", (list(it.iterate(gen)), count)) and "DIST"
        model.ext["np.array"] = lambda it, x: Vec(list(x))
        model.ext["np.percentile"] = lambda it, d, q, seen=seen: seen.setdefault("q", (d, list(it.iterate(q)))) and ("LO", "HI")
        # the smoothing step: whichever repository function confidence_interval_bootstrap calls that draws Gaussian noise (found by that effect, not by its name or
        # module); it is summarised as "noise added to every replicate's values, weights unchanged" -- the replicates are its argument that holds (values, weights) pairs
        def smooth(it, *a, seen=seen, **k):
            seen.setdefault("smoothed", True)
            for cand in list(a) + list(k.values()):
                try:
                    pairs = [tuple(p_) for p_ in it.iterate(cand)]
                except Exception:
                    continue
                if pairs and all(isinstance(p_, tuple) and len(p_) == 2 for p_ in pairs):
                    return [(("SM", v), w) for v, w in pairs]
            raise Undecided("smoothing helper called without a list of (values, weights) replicates")
        for helper in _noise_helpers(prog, fc):
            model.prims[helper.qn] = smooth

        class Vals:
            def abs_len(self):
                return 5
        it = Interp(prog, model)
        vals = Vals()
        out = tb.guard(lambda: it.run(fc.qn, [vals, "WTS", alpha, boots, smoothed]), f"alpha={alpha} boots={boots} smoothed={smoothed}")
        if out is None:
            continue
        nb = boots if boots > 2 / alpha else int(-(-2 // alpha)) if (2 / alpha).denominator != 1 else int(2 / alpha)
        import math
        nb = boots if boots > 2 / alpha else math.ceil(2 / alpha)
        q = seen.get("q", (None, [None, None]))
        dist = seen.get("dist", ([], None))
        ok = seen.get("size") == (nb, 5) and dist[1] == nb and q[0] == "DIST" and same(q[1][0], 100 * alpha / 2) and same(q[1][1], 100 * (1 - alpha / 2)) and isinstance(seen.get("seed"), int)
        ok = ok and bool(seen.get("smoothed")) == smoothed
        first = dist[0][0] if dist[0] else None
        if smoothed:
            ok = ok and first == ("AVG", ("SM", ("TAKE", vals, "IDX0")), ("TAKE", "WTS", "IDX0"))
        else:
            ok = ok and first == ("AVG", ("TAKE", vals, "IDX0"), ("TAKE", "WTS", "IDX0"))
        tb.cell(ok, dict(alpha=str(alpha), bootstraps=boots, smoothed=smoothed, resamples=seen.get("size"), percentiles=[repr(x) for x in q[1]], first_mean=repr(first)[:80], want_bootstraps=nb))
    # degenerate cases
    for k in (1,):
        W.reset()
        model = Model()
        model.ext["np.repeat"] = lambda it, v, n: ("REPEAT", v, n)

        class One:
            def abs_len(self):
                return 1

            def abs_getitem(self, it, i):
                return ("ELEM", i)
        it = Interp(prog, model)
        out = tb.guard(lambda: it.run(fc.qn, [One(), "W", Fr(1, 20), 100, False]), "single bin")
        tb.cell(out == ("REPEAT", ("ELEM", 0), 2), dict(case="one bin", got=repr(out), want="(value, value)"))
    for bad_alpha in (0, 1, Fr(3, 2), Fr(-1, 10)):
        W.reset()
        it = Interp(prog)
        try:
            it.run(fc.qn, ["V", "W", bad_alpha, 100, False])
            tb.cell(False, dict(alpha=str(bad_alpha), raised=None))
        except Raised as e:
            tb.cell("ValueError" in str(e), dict(alpha=str(bad_alpha), raised=str(e)[:40]))
        except Undecided as e:
            raise AnalysisError(f"C17-D2 alpha validation: {e}")
    tb.done("the interval statistics are not the alpha/2 and 1 - alpha/2 percentiles (of the bins / of enough bootstrap means)")


def d3(chk, prog):
    chk.clause("D3", "reproducible CI: every draw in segmetrics.py is seeded with a constant")
    eff = Effects(prog)
    # every draw in segmetrics.py and in whatever its statistics call, in any module (a resampling helper may live elsewhere)
    from .C10 import _closure
    res_ = Resolver(prog)
    reach = set()
    for f_ in prog.functions.values():
        if f_.mod == SM and f_.parent is None:
            reach |= _closure(prog, res_, f_, 4)
    sites = [(fi, n, kind, name) for fi, n, kind, name in rules.rng_sites(prog) if fi.mod == SM or fi.qn in reach]
    chk.floor("RNG draws under segmetrics", len(sites), 1)
    for fi, n, kind, name in sites:
        ok, why = rules.seeded(prog, eff, fi, n)
        chk.decide(ok, "seed-before-draw", f"{fi.name}: {norm(n)[:50]}", f"{fi.qn}::{norm(n)[:70]}", fi.loc(n), why, detail=why)
    for sfi, sn, desc in rules.shared_generators(prog):
        if sfi.mod in (SM, "cnvlib.bintest"):
            chk.violate("seed-before-draw", f"{sfi.qn}::{norm(sn)[:70]}", sfi.loc(sn), f"`{norm(sn)[:60]}` draws from a generator that outlives the call ({desc}): repeated runs in one process differ")
    gens = [n for fi in prog.functions.values() if fi.mod == SM for n in own_nodes(fi.node) if isinstance(n, ast.Call) and norm(n.func) in ("np.random.default_rng", "np.random.RandomState", "np.random.Generator")]
    for g in gens:
        chk.note(f"explicit generator constructed: {norm(g)[:60]}")


def _noise_helpers(prog, fc):
    """repository functions reachable from `fc` (other than itself) that draw from a normal distribution"""
    from .C10 import _closure
    res_ = Resolver(prog)
    out = []
    for qn in sorted(_closure(prog, res_, fc, 3)):
        f_ = prog.functions.get(qn)
        if f_ is None or f_ is fc:
            continue
        if any(isinstance(n, ast.Call) and norm(n.func) in ("np.random.randn", "np.random.normal", "np.random.standard_normal") or
               (isinstance(n, ast.Call) and isinstance(n.func, ast.Attribute) and n.func.attr in ("standard_normal", "normal") and "rng" in norm(n.func.value).lower())
               for n in own_nodes(f_.node)):
            out.append(f_)
    return out


def d5(chk, prog):
    chk.clause("D5", "bintest: p = BH(2 cdf(-|log2/sqrt(1-weight)|)); aligned residuals; target_only before adjustment; rows with adjusted p < alpha; exact BH")
    fz = prog.fn("cnvlib.bintest.z_prob")
    tb = Table(chk, "bintest-form", "z_prob closed form", fz.loc(), fz.qn)
    W.reset()
    model = Model()
    seen = {}
    model.ext["scipy.stats.norm.cdf"] = lambda it, x: lift_cdf(x)
    model.prims["cnvlib.bintest.p_adjust_bh"] = lambda it, p, seen=seen: seen.setdefault("p", p) and "ADJUSTED"
    it = Interp(prog, model)
    l = [Term.sym("l0"), Term.sym("l1")]
    w = [Term.sym("w0", 0, 1), Term.sym("w1", 0, 1)]
    g = make_ga("CopyNumArray", [dict(chromosome="chr1", start=0, end=1, gene="g", log2=l[i], weight=w[i]) for i in range(2)], {})
    out = tb.guard(lambda: it.run(fz.qn, [g]), "z_prob")
    if out is not None:
        p = seen.get("p")
        for i in range(2):
            z = t_div(l[i], f_sqrt(t_sub(Term.const(1), w[i])))
            want = t_mul(Term.const(2), fatom("normcdf", [t_neg(f_abs(z))], 0.0, 1.0))
            tb.cell(out == "ADJUSTED" and p is not None and same(p.v[i], want), dict(bin=i, p=repr(p.v[i]) if p is not None else None, want=repr(want)))
    tb.done("the bin test p-value is not the two-sided normal tail of log2 / sqrt(1 - weight), BH-adjusted")

    fb = prog.fn("cnvlib.bintest.do_bintest")
    tb2 = Table(chk, "bintest-form", "do_bintest: residual alignment, target_only order, selection adjusted p < alpha", fb.loc(), fb.qn)

    class ResidIndex:
        is_unique = True

        def duplicated(self, **k):
            return Vec([False] * 4)

    class Resid:
        """the Series returned by residuals(): labelled by bin, in segment-table order (not necessarily bin order)"""

        def __init__(self, kind="series"):
            self.kind = kind
            self.index = ResidIndex()
            self.values = self if kind == "array" else None

        def abs_len(self):
            return 4

        def to_numpy(self, *a, **k):
            return Resid("array")
    for target_only in (False, True):
        W.reset()
        model = Model()
        ev = []
        r = Resid()
        r.values = Resid("array")
        model.method_prims["residuals"] = lambda it, obj, segments=None, ev=ev: ev.append(("residuals", segments)) or r

        pvals = {0: Fr(1, 1000), 1: Fr(5, 1000), 2: Fr(6, 1000), 3: Fr(1, 10000)}

        def zp(it, arr, ev=ev):
            starts = [int(T(x).cval()) for x in arr.data.cols["start"].v]
            ev.append(("z_prob", starts, [type(x).__name__ + ":" + getattr(x, "kind", "") for x in arr.data.cols["log2"].v]))
            return Vec([pvals[k] for k in starts])
        model.prims["cnvlib.bintest.z_prob"] = zp
        it = Interp(prog, model)
        genes = ["G", "Antitarget", "G", "Background"]
        g = make_ga("CopyNumArray", [dict(chromosome="chr1", start=i, end=i + 1, gene=genes[i], log2=Term.sym(f"l{i}"), weight=Term.sym(f"w{i}")) for i in range(4)], {}, index="any", exact=True)
        out = tb2.guard(lambda: it.run(fb.qn, [g, "SEGS", Fr(5, 1000), target_only]), f"target_only={target_only}")
        if out is None:
            continue
        z = [e for e in ev if e[0] == "z_prob"]
        ok = [e for e in ev if e[0] == "residuals"] == [("residuals", "SEGS")] and len(z) == 1 and set(z[0][2]) == {"Resid:series"}
        rows_at_z = z[0][1] if z else None
        ok = ok and rows_at_z == ([0, 2] if target_only else [0, 1, 2, 3])
        kept = [int(T(x).cval()) for x in out.data.cols["start"].v]
        want = [0] if target_only else [0, 3]
        ok = ok and kept == want and same(g.data.cols["log2"].v[0], Term.sym("l0")) and g.data.n == 4
        tb2.cell(ok, dict(target_only=target_only, residuals_stored_as=z[0][2] if z else None, bins_at_adjustment=rows_at_z, returned_bins=kept, want_returned=want,
                          note="residuals must be stored as a label-aligned Series (residuals() is in segment order); adjusted p == alpha is not a hit"))
    # overlapping segments: a bin covered twice is tested once (its first residual), not dropped
    W.reset()
    labels = [10, 11, 12, 13]
    rows = [dict(chromosome="chr1", start=100 * i, end=100 * i + 100, gene=f"b{i}", log2=Term.sym(f"l{i}"), weight=Fr(1, 2)) for i in range(4)]
    bins = make_ga("CopyNumArray", rows, {"sample_id": "S"}, index="any", exact=True, labels=labels)
    model = Model()
    res_vals = [Term.sym("r10"), Term.sym("r11a"), Term.sym("r11b"), Term.sym("r12"), Term.sym("r13")]

    def residuals(it, obj, segments=None):
        r = Vec(list(res_vals), aligned="any")
        r.exact, r.labels = True, [10, 11, 11, 12, 13]
        return r
    model.method_prims["residuals"] = residuals
    seen = {}
    pv = {"b0": Fr(1, 1000), "b1": Fr(2, 1000), "b2": Fr(1, 2), "b3": Fr(3, 1000)}

    def zp(it, cn, seen=seen):
        seen["bins"] = list(cn.data.cols["gene"].v)
        seen["log2"] = [repr(x) for x in cn.data.cols["log2"].v]
        r = Vec([pv[g] for g in cn.data.cols["gene"].v], aligned=True)
        r.exact, r.labels = True, cn.data.labels
        return r
    model.prims["cnvlib.bintest.z_prob"] = zp
    model.ext["logging.debug"] = lambda it, *a, **k: None
    it = Interp(prog, model)
    out = tb2.guard(lambda: it.run(fb.qn, [bins, "SEGMENTS", Fr(5, 1000), False]), "a bin covered by two overlapping segments")
    if out is not None:
        kept = list(out.data.cols["gene"].v) if isinstance(out, GA) else None
        ok = seen.get("bins") == ["b0", "b1", "b2", "b3"] and seen.get("log2") == ["r10", "r11a", "r12", "r13"] and kept == ["b0", "b1", "b3"]
        tb2.cell(ok, dict(case="bin 11 is covered by two overlapping segments", bins_tested=seen.get("bins"), residuals_used=seen.get("log2"), returned_bins=kept, want_returned=["b0", "b1", "b3"]))
    tb2.done("bintest does not test each bin against its own segment / adjust over the right bins / return exactly adjusted p < alpha")

    # the adjustment running as written inside do_bintest, on a literal table whose labels are not positions: the adjusted p-values land on their own bins
    tb4 = Table(chk, "bintest-form", "do_bintest end to end on 5 literal bins labelled 10..14 (z_prob and the adjustment run as written; only the normal CDF is replaced by literal p-values): "
                "the bins with adjusted p < alpha, all bins / on-target only", fb.loc(), fb.qn + "::end to end")
    P = {10: Fr(1, 1000), 11: Fr(1, 10000), 12: Fr(1, 2), 13: Fr(1, 5), 14: Fr(3, 1000)}
    genes5 = {10: "G", 11: "Antitarget", 12: "G", 13: "Background", 14: "H"}
    import re as _re
    for target_only in (False, True):
        W.reset()
        rows = [dict(chromosome="chr1", start=100 * k, end=100 * k + 100, gene=genes5[k], log2=Term.sym(f"l{k}"), weight=Fr(3, 4)) for k in P]
        bins5 = make_ga("CopyNumArray", rows, {"sample_id": "S"}, index="any", exact=True, labels=list(P))
        model = Model()

        def residuals5(it, obj, segments=None):
            r = Vec([Term.sym(f"r{k}") for k in P], aligned="any")
            r.exact, r.labels = True, list(P)
            return r
        model.method_prims["residuals"] = residuals5

        def cdf(it, x, *a, **k):
            # the p-value of each bin, identified by the residual symbol its z-score was computed from
            vals = x.v if isinstance(x, Vec) else [x]
            out_ = []
            for v in vals:
                m_ = _re.search(r"r(\d+)", repr(v))
                if not m_:
                    raise Undecided(f"norm.cdf of {v!r}")
                out_.append(P[int(m_.group(1))] / 2)
            r = Vec(out_)                        # scipy hands back a plain ndarray, whatever it was given
            r.exact = True
            return r
        for nm in ("scipy.stats.norm.cdf", "stats.norm.cdf", "norm.cdf"):
            model.ext[nm] = cdf
        model.ext["logging.debug"] = lambda it, *a, **k: None
        it = Interp(prog, model)
        out = tb4.guard(lambda: it.run(fb.qn, [bins5, "SEGMENTS", Fr(5, 1000), target_only]), f"target_only={target_only}")
        if out is None:
            continue
        tested = [k for k in P if not (target_only and genes5[k] in ("Antitarget", "Background"))]
        order = sorted(tested, key=lambda k: P[k])
        q, cur = {}, None
        for rank in range(len(order), 0, -1):
            k = order[rank - 1]
            v = min(Fr(1), Fr(len(order), rank) * P[k])
            cur = v if cur is None else min(cur, v)
            q[k] = cur
        want = [k for k in tested if q[k] < Fr(5, 1000)]
        c = out.data.cols if isinstance(out, GA) else {}
        got = [int(T(x).cval()) // 100 for x in c["start"].v] if "start" in c else None
        pv = [repr(x) for x in c["p_bintest"].v] if "p_bintest" in c else None
        okp = got == want and "p_bintest" in c and all(same(a, q[k]) for a, k in zip(c["p_bintest"].v, want))
        tb4.cell(okp, dict(target_only=target_only, returned_bins=got, want_returned=want, adjusted_p=pv, want_p=[str(q[k]) for k in want]))
    tb4.done("bintest does not return exactly the bins whose own adjusted p-value is below alpha (the adjusted values are paired with other bins, or lost)")

    # exact Benjamini-Hochberg
    fp = prog.fn("cnvlib.bintest.p_adjust_bh")
    tb3 = Table(chk, "bintest-form", "p_adjust_bh == BH step-up on all orderings of 4 p-values (ties included)", fp.loc(), fp.qn)
    base = [Fr(1, 1000), Fr(1, 100), Fr(3, 100), Fr(4, 10), Fr(9, 10)]
    cases = set()
    for combo in itertools.product(base, repeat=4):
        cases.add(combo)
    cases = sorted(cases)[:: 7] + [(Fr(1, 100),) * 4, (Fr(1), Fr(1), Fr(1, 2), Fr(1, 2)), (Fr(0), Fr(1, 2), Fr(1, 2), Fr(1))]
    for ps in cases:
        W.reset()
        model = estyping.const_model()
        model.ext["np.asarray"] = lambda it, x, *a, **k: estyping.Arr(list(x.v) if isinstance(x, estyping.Arr) else list(x))
        def np_arange(it, *a, **k):
            if not all(isinstance(x, (int, Fr)) and not isinstance(x, bool) for x in a):
                raise Undecided(f"np.arange{a!r}")
            return estyping.Arr(range(*[int(x) for x in a]))
        model.ext["np.arange"] = np_arange
        def np_empty(it, n, *a, **k):
            if not (isinstance(n, int) and not isinstance(n, bool)):
                raise Undecided(f"np.empty({n!r})")
            return estyping.Arr([None] * n)
        model.ext["np.empty"] = np_empty

        def num_(x):
            return T(x).cval() if not isinstance(x, (int, Fr)) else Fr(x)

        def accumulate(it, arr):
            out, cur = [], None
            for x in arr.v:
                x = num_(x)
                cur = x if cur is None or x < cur else cur
                out.append(cur)
            return estyping.Arr(out)
        model.ext["np.minimum.accumulate"] = accumulate
        model.ext["np.minimum"] = lambda it, a, b: estyping.Arr(min(num_(a), num_(x)) for x in b.v) if isinstance(b, estyping.Arr) else estyping.Arr(min(num_(x), num_(b)) for x in a.v)
        model.builtins["float"] = lambda x: Fr(x) if isinstance(x, int) else x

        def rankdata(it, a, method="average", **k):
            vals = [num_(x) for x in a.v]
            lo = [1 + sum(1 for y in vals if y < x) for x in vals]
            hi = [sum(1 for y in vals if y <= x) for x in vals]
            pick = {"average": lambda l, h: Fr(l + h, 2), "min": lambda l, h: Fr(l), "max": lambda l, h: Fr(h)}.get(method)
            if pick is None:
                raise Undecided(f"rankdata(method={method!r})")
            return estyping.Arr(pick(l, h) for l, h in zip(lo, hi))
        model.ext["scipy.stats.rankdata"] = rankdata
        model.ext["np.empty_like"] = lambda it, a, **k: estyping.Arr([None] * len(a.v))
        it = Interp(prog, model)
        out = tb3.guard(lambda: it.run(fp.qn, [estyping.Arr(list(ps))]), f"p={[str(x) for x in ps]}")
        if out is None:
            continue
        n = len(ps)
        order = sorted(range(n), key=lambda i: ps[i])
        q = [None] * n
        cur = None
        for rank in range(n, 0, -1):
            i = order[rank - 1]
            v = min(Fr(1), Fr(n, rank) * ps[i])
            cur = v if cur is None else min(cur, v)
            q[i] = cur
        # ties: equal p-values get equal q (the step-up minimum runs over all ranks >= the first tied rank)
        for i in range(n):
            q[i] = min(q[j] for j in range(n) if ps[j] == ps[i]) if False else q[i]
        if not isinstance(out, estyping.Arr):
            raise AnalysisError(f"C17 p_adjust_bh: the result is not an array the exact-evaluation domain understands ({type(out).__name__}); cannot decide")
        got = [T(x).cval() if not isinstance(x, Fr) else x for x in out.v]
        tb3.cell(sorted(got) == sorted(q) and all(got[i] == q[i] or ps.count(ps[i]) > 1 for i in range(n)), dict(p=[str(x) for x in ps], got=[str(x) for x in got], want=[str(x) for x in q]))
    tb3.done("p_adjust_bh is not the Benjamini-Hochberg adjustment")


def d5b(chk, prog):
    """CopyNumArray.residuals on literal tables: each bin inside a segment minus that segment's log2, under the bin's own label"""
    fi = prog.fn("cnvlib.cnary.CopyNumArray.residuals")
    tb = Table(chk, "bintest-form", "residuals(segments with log2) on literal bins / segments (bin labels that are not positions; a segment without bins; a bin outside every segment)", fi.loc(), fi.qn)
    bins_rows = [("chr1", 0, 100), ("chr1", 100, 200), ("chr1", 200, 300), ("chr1", 300, 400), ("chr2", 0, 100), ("chr2", 500, 600)]
    seg_cases = {"segments tile the bins": [("chr1", 0, 200), ("chr1", 200, 400), ("chr2", 0, 600)],
                 "a segment without bins and an uncovered bin": [("chr1", 0, 200), ("chr1", 250, 290), ("chr1", 300, 400), ("chr2", 0, 100)]}
    labels = [14, 3, 9, 20, 7, 1]
    for label, segs_rows in seg_cases.items():
        W.reset()
        bl = [Term.sym(f"b{i}") for i in range(len(bins_rows))]
        sl = [Term.sym(f"S{j}") for j in range(len(segs_rows))]
        bins = make_ga("CopyNumArray", [dict(chromosome=c, start=s_, end=e_, gene="g", log2=bl[i]) for i, (c, s_, e_) in enumerate(bins_rows)], {"sample_id": "S"}, index="any", exact=True, labels=labels)
        segs = make_ga("CopyNumArray", [dict(chromosome=c, start=s_, end=e_, gene="-", log2=sl[j], probes=1) for j, (c, s_, e_) in enumerate(segs_rows)], {"sample_id": "S"}, exact=True)
        it = Interp(prog)
        out = tb.guard(lambda: it.run_method(bins, "residuals", [segs]), label)
        if out is None:
            continue
        want = {}
        for i, (c, s_, e_) in enumerate(bins_rows):
            for j, (sc, ss, se) in enumerate(segs_rows):
                if sc == c and s_ >= ss and e_ <= se:
                    want[labels[i]] = t_sub(bl[i], sl[j])
        ok = isinstance(out, Vec) and out.labels is not None and list(out.labels) == [l for l in labels if l in want] and all(same(v, want[l]) for l, v in zip(out.labels, out.v))
        tb.cell(ok, dict(case=label, labels=getattr(out, "labels", None), values=[repr(x) for x in out.v] if isinstance(out, Vec) else repr(out)[:80], want={k: repr(v) for k, v in want.items()}))
    tb.done("a bin's residual is not its log2 minus the log2 of the segment containing it, carried under the bin's own row label")


def lift_cdf(x):
    if isinstance(x, Vec):
        return Vec([fatom("normcdf", [T(v)], 0.0, 1.0) for v in x.v])
    return fatom("normcdf", [T(x)], 0.0, 1.0)


def run(chk):
    prog = chk.prog
    chk.trust("Python grammar via ast", "np.percentile(x, [lo, hi]) returns the two percentiles in order; np.fromiter consumes `count` items",
              "scipy.stats.norm.cdf is the standard normal CDF (opaque atom)", "the estimators themselves: C19")
    d1(chk, prog)
    from . import C15
    C15.low_coverage(chk, prog)  # which bins --drop-low-coverage leaves out of every statistic (C15 LOW rule)
    from . import C07
    C07.d6(chk, prog)            # a segment's bins are looked up per chromosome: the pairing of by_shared_chroms (C07-D6 rule; a .cns covering one chromosome of a multi-chromosome .cnr)
    d3(chk, prog)
    d2(chk, prog)
    chk.clause("D4", "the input segments' own columns are unchanged (decided inside D1: stores go to a copy, new column names only)")
    d5(chk, prog)
    d5b(chk, prog)
    # the estimators behind --bivar / --mad / --iqr, interpreted on literal vectors against their formulas (C19-D6 rule)
    from . import C19
    C19.d6(chk, prog, names=("biweight_location", "biweight_midvariance", "median_absolute_deviation", "interquartile_range"))
    # ... and what they return for a segment of one bin / constant bins / no bins (0 for the spread statistics, through the on_array wrapper): C19-D5 rule
    from .. import estyping
    estyping.check_constant(chk, prog, {k: v for k, v in C19.LOCATION.items() if k in ("biweight_location", "modal_location")},
                            {k: v for k, v in C19.SCALE.items() if k in ("biweight_midvariance", "median_absolute_deviation", "interquartile_range", "mean_squared_error")}, floor=6)
    chk.clause("CLI", "the `segmetrics` / `bintest` command lines: each statistic flag lands in its own list, alpha / bootstrap / smoothing / -t reach the statistics functions")
    from .. import cliglue
    cliglue.check_stats(chk, prog)


_S = "cnvlib/segmetrics.py"
_B = "cnvlib/bintest.py"
MUTANTS = [
    dict(name="cli: segmetrics --ci lands in the spread statistics", file="cnvlib/commands.py", old='    "--ci",\n    action="append_const",\n    dest="interval_stats",\n    const="ci",\n    help="Confidence interval (by bootstrap).",\n)\nP_segmetrics', new='    "--ci",\n    action="append_const",\n    dest="spread_stats",\n    const="ci",\n    help="Confidence interval (by bootstrap).",\n)\nP_segmetrics'),
    dict(name="cli: bintest -t not forwarded", file="cnvlib/commands.py", old="do_bintest(cnarr, segments, args.alpha, args.target)", new="do_bintest(cnarr, segments, args.alpha)"),
    dict(name="residuals against the previous segment's mean", file="cnvlib/cnary.py", old="                bins_lr - seg_lr\n", new="                bins_lr - seg_lr * 0\n"),
    dict(name="residuals of outer-overlapping bins", file="cnvlib/cnary.py", old='                        segments, "log2", mode="inner", keep_empty=True', new='                        segments, "log2", mode="outer", keep_empty=True'),
    dict(name="seeded C17e: BH steps from average ranks", edits=[(_B, '    by_descend = p.argsort()[::-1]\n    by_orig = by_descend.argsort()\n    steps = float(len(p)) / np.arange(len(p), 0, -1)\n    q = np.minimum(1, np.minimum.accumulate(steps * p[by_descend]))\n    return q[by_orig]\n', '    steps = float(len(p)) / rankdata(p)\n    by_descend = p.argsort()[::-1]\n    q = np.empty_like(p)\n    q[by_descend] = np.minimum.accumulate((steps * p)[by_descend])\n    return np.minimum(1, q)\n'), (_B, 'from scipy.stats import norm\n', 'from scipy.stats import norm, rankdata\n')]),
    dict(name="twin: BH steps from maximum ranks", expect="silent", edits=[(_B, '    by_descend = p.argsort()[::-1]\n    by_orig = by_descend.argsort()\n    steps = float(len(p)) / np.arange(len(p), 0, -1)\n    q = np.minimum(1, np.minimum.accumulate(steps * p[by_descend]))\n    return q[by_orig]\n', '    steps = float(len(p)) / rankdata(p, method="max")\n    by_descend = p.argsort()[::-1]\n    q = np.empty_like(p)\n    q[by_descend] = np.minimum.accumulate((steps * p)[by_descend])\n    return np.minimum(1, q)\n'), (_B, 'from scipy.stats import norm\n', 'from scipy.stats import norm, rankdata\n')]),
    dict(name="seeded C17d: interval statistics drop zero-weight bins", file="cnvlib/segmetrics.py", old="            out_vals_lo[i], out_vals_hi[i] = func(ser.values, wt.values)\n", new="            informative = wt.values > 0\n            if informative.any():\n                out_vals_lo[i], out_vals_hi[i] = func(ser.values[informative], wt.values[informative])\n"),
    dict(name="spread statistic fed raw log2", file=_S, old="        deviations = (bl - sl for bl, sl in zip(bins_log2s, segarr[\"log2\"]))", new="        deviations = (bl for bl, sl in zip(bins_log2s, segarr[\"log2\"]))"),
    dict(name="outer -> inner", file=_S, old='    bins_log2s = list(cnarr.iter_ranges_of(segarr, "log2", "outer", True))', new='    bins_log2s = list(cnarr.iter_ranges_of(segarr, "log2", "inner", True))'),
    dict(name="keep_empty False", file=_S, old='    bins_log2s = list(cnarr.iter_ranges_of(segarr, "log2", "outer", True))', new='    bins_log2s = list(cnarr.iter_ranges_of(segarr, "log2", "outer", False))'),
    dict(name="mad bound to iqr", file=_S, old='        "mad": descriptives.median_absolute_deviation,', new='        "mad": descriptives.interquartile_range,'),
    dict(name="segments mutated in place", file=_S, old="    segarr = segarr.copy()\n", new=""),
    dict(name="skip_low ignored", file=_S, old="    if skip_low:\n        cnarr = cnarr.drop_low_coverage()\n", new=""),
    dict(name="weights by position", file=_S, old="            wt = weights[ser.index]", new="            wt = weights[: len(ser)]"),
    dict(name="PI alpha not halved", file=_S, old="    pct_lo = 100 * alpha / 2", new="    pct_lo = 100 * alpha"),
    dict(name="CI upper percentile", file=_S, old="    alphas = np.array([alpha / 2, 1 - alpha / 2])", new="    alphas = np.array([alpha / 2, 1 - alpha])"),
    dict(name="bootstraps not raised", file=_S, old="        bootstraps = new_boots\n", new=""),
    dict(name="seed deleted", file=_S, old="    np.random.seed(0xA5EED)\n    rand_indices", new="    rand_indices"),
    dict(name="seeded C17a: local generator, helper still global", file=_S, old="    np.random.seed(0xA5EED)\n    rand_indices = np.random.randint(0, k, size=(bootstraps, k))", new="    rng = np.random.default_rng(0xA5EED)\n    rand_indices = rng.integers(0, k, size=(bootstraps, k))"),
    dict(name="CLI: iqr listed as location", file="cnvlib/commands.py", old='    dest="spread_stats",\n    const="iqr",', new='    dest="location_stats",\n    const="iqr",'),
    dict(name="z without sqrt", file=_B, old='    sd = np.sqrt(1 - cnarr["weight"])', new='    sd = 1 - cnarr["weight"]'),
    dict(name="one-sided p", file=_B, old="    p = 2.0 * norm.cdf(-np.abs(z))", new="    p = norm.cdf(-np.abs(z))"),
    dict(name="seeded C17b: residuals stored positionally", file=_B, old='    cnarr["log2"] = resid\n', new='    cnarr["log2"] = resid.values\n'),
    dict(name="hits p <= alpha", file=_B, old='    is_sig = cnarr["p_bintest"] < alpha', new='    is_sig = cnarr["p_bintest"] <= alpha'),
    dict(name="target_only after adjustment", file=_B, old='    cnarr["p_bintest"] = z_prob(cnarr)\n    is_sig', new='    cnarr["p_bintest"] = z_prob(cnarr)\n    target_only = False\n    is_sig', expect="silent"),
    dict(name="BH without the running minimum", file=_B, old="    q = np.minimum(1, np.minimum.accumulate(steps * p[by_descend]))", new="    q = np.minimum(1, steps * p[by_descend])"),
    dict(name="BH steps by ascending rank wrong", file=_B, old="    steps = float(len(p)) / np.arange(len(p), 0, -1)", new="    steps = float(len(p)) / np.arange(1, len(p) + 1)"),
]
