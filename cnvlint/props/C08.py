"""C08 -- every format is read to 0-based half-open, sorted; write-then-read is lossless.
D1 coordinate offsets of every registered reader / writer (abstract interpretation with symbolic file fields),
D2 sorted on read, D3 auto-detection lands in the registry, D4 float precision on write."""
import ast
import itertools
import re
from fractions import Fraction as Fr

from ..abstools import *
from ..absint import GenList
from ..absval import Module, Closure, BoundMethod
from ..core import AnalysisError, own_nodes, norm, parents, dominates, stmt_of

LEVEL_TEXT = ('static analysis: (D1) each function registered in tabio.READERS / WRITERS (enumerated from the dict literals) is abstractly '
              'interpreted on a one-row file whose start / end fields are symbols; the net offset between the file field and the in-memory column'
              ' must be -base (readers) / +base (writers) with base taken from a table of which on-disk formats are 1-based (interval list, text,'
              ' GFF, SEG, VCF, Picard) or 0-based (BED, tab); `end` is never shifted; every reader/writer pair of one format is inverse; writers '
              'leave their input frame untouched (also when it carries a strand column); BED readers keep the whole 4th tab-separated field as '
              'the name (a name may contain a blank); export seg writes enumerated chromosome ids only for names that differ from their ordinal '
              '(C20-D3 rule); parse_seg maps chromosome ids to names before adding the prefix, splits by sample and converts log10 only when '
              'asked; (D2) tabio.read interpreted for every registered format hands back the table the reader parsed, whole (columns kept also '
              'with zero rows) and sorted; GenomicArray.sort interpreted on literal shuffled tables orders by (natural chromosome order, start, '
              'end) with ties in input order and renumbers the rows, and sorter_chrom orders 1 < 2 < 10 < 22 < X < Y < M < longer contig names '
              'identically for the bare, chr, Chr and CHR spellings; (D3) every format name sniff_region_format can return is a READERS key and '
              'read_auto rewinds; (D4) every to_csv reached from tabio.write / write_dataframe passes a %.Ng float format with N>=6. (D2c) '
              'GenomicArray.__init__ interpreted on typed frames (chromosome parsed as str / int, start and end as int / float, 2 rows / 0 rows; '
              'numpy scalar class facts as the trusted base): the array always holds chromosome as str and start / end as integers; the sort '
              'table includes inputs already in alphabetical chromosome order. (D3c) sniff_region_format interpreted on literal files of every '
              'claimed format as other tools write them (VCF with / without meta lines, GFF with pragma or after a comment, interval list with @ '
              'header, text, tab, BED after track / browser / comment / blank lines) names that format; the text reader keeps a name with commas,'
              " dots and dashes whole; Every writer is also run on three rows whose index labels are 5, 2, 9: each output line holds one row's "
              'chromosome, start + base and end; the tab writer hands every column to the CSV formatter unchanged. Every writer is also run on a '
              "row whose start is literally 0 (written with start 0 + base); D3c has six- and twelve-column BEDs whose first name is '.', '-' or "
              "'+' (still BED, not an interval list). (CLI) `import-seg` applies no chromosome mapping unless -c is given and passes prefix / "
              'log10 switch / one output per sample. Does not decide the chromosome order of arbitrary names beyond those classes, regex '
              'coverage, or byte-identical rewrite.')
TECHNIQUE = ('abstract interpretation of reader/writer bodies with symbolic coordinates (offset dataflow to the sink column); dominance; '
             "registry agreement; typed-frame interpretation of the constructor's dtype coercion")

BASE = {"bed": 0, "bed3": 0, "bed4": 0, "tab": 0, "interval": 1, "text": 1, "gff": 1, "seg": 1, "picardhs": 1,
        "vcf": 1, "vcf-simple": 1, "vcf-sites": 1}
OUTSIDE = {"auto", "bed6", "dict", "genepred", "genepredext", "refflat", "refgene"}     # not in the claimed set (see DESIGN C08)

HEADERS = {   # header-driven formats: the column names the file itself carries
    "tab": ["chromosome", "start", "end", "gene", "log2", "depth", "weight"],
    "picardhs": ["chrom", "start", "end", "length", "name", "%gc", "mean_coverage", "normalized_coverage"],
}


TEXT_NAME = "PTEN,KLLN-AS1.2"      # names keep their commas, dots and dashes (several genes on one bin are comma-joined)
BED_NAME = "GENE ONE"      # BED is tab-separated: a name may contain a blank (e.g. "TERT promoter")


class AbsLine:
    """one data line of a text file with symbolic coordinate fields"""

    def __init__(self, fields, kind):
        self.fields, self.kind = fields, kind

    def __repr__(self):
        return f"<line {self.kind}>"


def file_model(fmt, FS, FE):
    m = Model()
    raw = {"chromosome": "chr1", "chrom": "chr1", "start": FS, "end": FE, "gene": "GENE", "name": "GENE", "strand": "+",
           "source": "src", "type": "exon", "score": ".", "phase": ".", "attribute": 'gene_id "GENE";', "sample_id": "S1",
           "probes": Term.sym("f_probes", 0, INF, True), "log2": Term.sym("f_log2"), "id": ".", "ref": "A", "alt": "C",
           "qual": ".", "filter": "PASS", "info": "DP=10;END=777", "format": "GT", "length": Term.sym("f_len", 0, INF, True),
           "%gc": Term.sym("f_gc"), "mean_coverage": Term.sym("f_cov"), "normalized_coverage": Term.sym("f_ncov"),
           "depth": Term.sym("f_depth"), "weight": Term.sym("f_weight")}
    if fmt == "vcf-sites":
        raw = dict(raw, end="DP=10;END=777")

    def read_csv(it, infile=None, **kw):
        names = kw.get("names")
        if names is None:
            names = HEADERS.get(fmt)
            if names is None:
                raise Undecided(f"read_csv without names= for format {fmt}")
        names = list(it.iterate(names))
        if "usecols" in kw and kw["usecols"] is not None:
            names = [n for n in names if n in list(it.iterate(kw["usecols"]))]
        conv = kw.get("converters") or {}
        cols = {}
        for c in names:
            v = raw.get(c, Term.sym("f_" + re.sub(r"\W", "_", c)))
            if c in conv:
                v = it.call(conv[c], [v], {})
            cols[c] = Vec([v])
        return DF(cols, 1)
    m.ext["pd.read_csv"] = read_csv

    def as_handle(it, infile, *a, **k):
        if fmt in ("bed", "bed3", "bed4"):
            return iter([AbsLine(["chr1", FS, FE, BED_NAME, "0", "+"], "bed")])
        if fmt == "text":
            return iter([AbsLine(["chr1", FS, FE, TEXT_NAME], "text")])
        if fmt == "seg":
            return iter([AbsLine(["ID", "chrom", "loc.start", "loc.end", "num.mark", "seg.mean"], "segheader")])
        if fmt in ("vcf-simple",):
            return iter([AbsLine(["#CHROM", "POS", "ID", "REF", "ALT", "QUAL", "FILTER", "INFO", "FORMAT"], "vcfheader")])
        raise Undecided(f"as_handle for {fmt}")
    m.ext["Bio.File.as_handle"] = as_handle

    def line_method(it, obj, name, args, kw):
        if isinstance(obj, AbsLine):
            if name == "split":
                sep = args[0] if args else kw.get("sep")
                if sep == "\t" or obj.kind != "bed":
                    return list(obj.fields)
                if sep is None:
                    # whitespace splitting also cuts inside a field that contains a blank
                    out = []
                    for f in obj.fields:
                        out += f.split() if isinstance(f, str) else [f]
                    return out
                raise Undecided(f"line.split({sep!r})")
            if name == "startswith":
                pre = args[0] if isinstance(args[0], tuple) else (args[0],)
                first = obj.fields[0] if isinstance(obj.fields[0], str) else ""
                return any(first.startswith(p) for p in pre)
            if name == "count":
                return len(obj.fields) - 1 if args[0] == "\t" else 0
            if name in ("strip", "rstrip"):
                return obj
            if name == "replace" and len(args) >= 2 and all(isinstance(a, str) for a in args[:2]):
                return AbsLine([f.replace(args[0], args[1]) if isinstance(f, str) else f for f in obj.fields], obj.kind)          # the numeric fields hold digits only
            raise Undecided(f"line.{name}")
        if hasattr(obj, "pattern") and hasattr(obj, "match") and name in ("match", "search") and args and isinstance(args[0], AbsLine):
            ln = args[0]
            if ln.kind != "text":
                raise Undecided("regex on a non-text line")
            flds = ln.fields
            return Row({"groups": (lambda: tuple(flds)), "group": (lambda i=0: flds[i - 1] if i else ln)})
        return NotImplemented
    m.method_hooks.append(line_method)

    # pysam: record.start is 0-based (= POS - 1), record.pos is POS (1-based), record.stop = END
    def variant_file(it, infile, *a, **k):
        rec = Row({"chrom": "chr1", "start": t_sub(FS, Term.const(1)), "pos": FS, "stop": FE, "ref": "A", "alts": ("C",), "id": None,
                   "filter": [], "info": {"END": FE, "DP": 30}, "samples": {}, "qual": None})
        rdr = VcfReader([rec])
        return rdr
    m.ext["pysam.VariantFile"] = variant_file

    def vcf_attr(it, obj, attr):
        if isinstance(obj, VcfReader):
            if attr == "header":
                return Row({"samples": [], "records": []})
            if attr == "subset_samples":
                return lambda *a: None
        return NotImplemented
    m.attr_hooks.append(vcf_attr)
    return m


class VcfReader(list):
    pass


def registry(prog, name):
    m = prog.module("skgenome.tabio")
    expr = m.assigns.get(name)
    if not isinstance(expr, ast.Dict):
        raise AnalysisError(f"skgenome.tabio.{name} is not a dict literal any more")
    out = {}
    for k, v in zip(expr.keys, expr.values):
        if not (isinstance(k, ast.Constant) and isinstance(v, ast.Tuple) and v.elts):
            raise AnalysisError(f"{name}: unrecognised entry {norm(k)}")
        r = prog.resolve_attr("skgenome.tabio", v.elts[0])
        if not r or r[0] != "func":
            raise AnalysisError(f"{name}[{k.value!r}]: cannot resolve {norm(v.elts[0])}")
        out[k.value] = r[1]
    return out


def returns_notimplemented(fi):
    rets = [n for n in own_nodes(fi.node) if isinstance(n, ast.Return)]
    return bool(rets) and all(isinstance(r.value, ast.Name) and r.value.id == "NotImplemented" for r in rets)


def d1_offsets(chk, prog):
    chk.clause("D1", "coordinate offsets: reader = -base, writer = +base, end untouched, pairs inverse")
    chk.rule("coordinate-offset", "interpret the registered reader / writer on a one-row input whose start/end are symbols; the value that "
             "reaches the `start` column (file field for writers) must be symbol -/+ base, `end` must be the symbol itself")
    readers, writers = registry(prog, "READERS"), registry(prog, "WRITERS")
    chk.floor("C08 registered readers", len(readers), 15)
    chk.floor("C08 registered writers", len(writers), 8)
    r_off, w_off = {}, {}
    n_r = n_w = 0
    for fmt, fi in sorted(readers.items()):
        if fmt in OUTSIDE or returns_notimplemented(fi):
            continue
        if fmt not in BASE:
            chk.note(f"reader format {fmt!r} is outside the claimed formats; not judged")
            continue
        n_r += 1
        W.reset()
        FS, FE = Term.sym("file_start", 1, INF, True), Term.sym("file_end", 1, INF, True)
        it = Interp(prog, file_model(fmt, FS, FE))
        try:
            df = it.run(fi.qn, ["<infile>"])
        except Undecided as e:
            raise AnalysisError(f"C08-D1 reader {fmt} ({fi.qn}): cannot decide: {e}")
        except Raised as e:
            chk.violate("coordinate-offset", f"reader:{fmt}:{fi.qn}", fi.loc(), f"reader raises on a well-formed one-record file: {e}")
            continue
        if isinstance(df, GA):
            df = df.data
        if not isinstance(df, DF) or "start" not in df.cols or "end" not in df.cols:
            raise AnalysisError(f"C08-D1 reader {fmt}: result is not a table with start/end: {df!r}")
        s, e = df.cols["start"].v[0], df.cols["end"].v[0]
        want_s = t_sub(FS, Term.const(BASE[fmt]))
        want_e = 777 if fmt in ("vcf-simple", "vcf-sites") else FE
        off = _offset(s, FS)
        r_off[fmt] = off
        ok = same(s, want_s) and same(e, want_e)
        chk.decide(ok, "coordinate-offset", f"reader {fmt}: start = file start - {BASE[fmt]}, end = file end", f"reader:{fmt}:{fi.qn}", fi.loc(),
                   f"reader of the {BASE[fmt]}-based format {fmt!r} yields start = {s!r}, end = {e!r} (expected {want_s!r}, {want_e!r})",
                   witness=dict(format=fmt, start=repr(s), end=repr(e)))
    for fmt, fi in sorted(writers.items()):
        if returns_notimplemented(fi):
            continue
        if fmt not in BASE:
            chk.note(f"writer format {fmt!r} is outside the claimed formats; not judged")
            continue
        n_w += 1
        W.reset()
        MS, ME = Term.sym("mem_start", 1, INF, True), Term.sym("mem_end", 2, INF, True)
        it = Interp(prog, Model())
        cols = {"chromosome": "chr1", "start": MS, "end": ME, "gene": "GENE", "log2": Term.sym("m_log2"), "depth": Term.sym("m_depth", 0, INF),
                "gc": Term.sym("m_gc"), "probes": Term.sym("m_probes", 0, INF, True), "weight": Term.sym("m_w")}
        if fmt == "bed3":
            cols = {k: cols[k] for k in ("chromosome", "start", "end")}
        df_in = DF({k: Vec([v]) for k, v in cols.items()}, 1)
        kw = {"sample_id": "S1"} if fmt == "seg" else {}
        try:
            out = it.run(fi.qn, [df_in], kw)
        except Undecided as e:
            raise AnalysisError(f"C08-D1 writer {fmt} ({fi.qn}): cannot decide: {e}")
        except Raised as e:
            chk.violate("coordinate-offset", f"writer:{fmt}:{fi.qn}", fi.loc(), f"writer raises on a one-row table: {e}")
            continue
        s = e = None
        if isinstance(out, DF):
            sc = "loc.start" if fmt == "seg" else "start"
            ec = "loc.end" if fmt == "seg" else "end"
            if sc in out.cols and ec in out.cols:
                s, e = out.cols[sc].v[0], out.cols[ec].v[0]
        elif isinstance(out, Vec) and out.v and isinstance(out.v[0], FStr):
            s, e = out.v[0].field(":"), out.v[0].field("-")
        if s is None or e is None:
            raise AnalysisError(f"C08-D1 writer {fmt}: cannot locate the start/end cells of the output: {out!r}")
        want_s = t_add(MS, Term.const(BASE[fmt]))
        w_off[fmt] = _offset(s, MS)
        ok = same(s, want_s) and same(e, ME)
        chk.decide(ok, "coordinate-offset", f"writer {fmt}: file start = start + {BASE[fmt]}, file end = end", f"writer:{fmt}:{fi.qn}", fi.loc(),
                   f"writer of the {BASE[fmt]}-based format {fmt!r} emits start = {s!r}, end = {e!r} (expected {want_s!r}, {ME!r})",
                   witness=dict(format=fmt, start=repr(s), end=repr(e)))
        untouched = same(df_in.cols["start"].v[0], MS) and same(df_in.cols["end"].v[0], ME)
        chk.decide(untouched, "coordinate-offset", f"writer {fmt}: the caller's frame is not modified", f"writer-input:{fmt}:{fi.qn}", fi.loc(),
                   f"writer shifts the coordinates of the frame it was given (start now {df_in.cols['start'].v[0]!r})")
        # the same writer on a row that starts at the first base of its chromosome (start 0; the symbolic start above stands for the positive ones)
        W.reset()
        it0 = Interp(prog, Model())
        cols0 = dict(cols, start=0, end=Term.sym("mem_end", 1, INF, True))
        df0 = DF({k: Vec([v]) for k, v in cols0.items()}, 1)
        try:
            out0 = it0.run(fi.qn, [df0], kw)
        except Undecided as e:
            raise AnalysisError(f"C08-D1 writer {fmt} on a row starting at 0 ({fi.qn}): cannot decide: {e}")
        except Raised as e:
            chk.violate("coordinate-offset", f"writer-zero:{fmt}:{fi.qn}", fi.loc(), f"writer raises on a row whose start is 0: {e}")
            continue
        s0 = None
        if isinstance(out0, DF) and sc in out0.cols:
            s0 = out0.cols[sc].v[0]
        elif isinstance(out0, Vec) and out0.v and isinstance(out0.v[0], (FStr, str)):
            x0 = out0.v[0]
            s0 = x0.field(":") if isinstance(x0, FStr) else None
            if s0 is None:
                # the start is a literal here, so it is part of the text: chr:<start>-...
                import re as _re
                text0 = "".join(p_ if isinstance(p_, str) else "{}" for p_ in x0.parts) if isinstance(x0, FStr) else x0
                m0 = _re.match(r"[^:]*:(\d+)-", text0)
                s0 = int(m0.group(1)) if m0 else None
        chk.decide(s0 is not None and same(s0, BASE[fmt]), "coordinate-offset", f"writer {fmt}: a row starting at 0 is written with start {BASE[fmt]}", f"writer-zero:{fmt}:{fi.qn}", fi.loc(),
                   f"a region starting at the first base of its chromosome (start 0) is written with start {s0!r} (expected {BASE[fmt]}): reading it back fails or moves the region")
        # the same writer on three rows whose index labels are not 0..n-1 (a filtered or re-ordered table): every output line describes one row
        W.reset()
        chroms3 = ["chrA", "chrB", "chrC"]
        S3 = [Term.sym(f"mem_start{i}", 1, INF, True) for i in range(3)]
        E3 = [Term.sym(f"mem_end{i}", 1, INF, True) for i in range(3)]
        rows3 = []
        for i in range(3):
            r3 = {"chromosome": chroms3[i], "start": S3[i], "end": E3[i], "gene": f"G{i}", "log2": Term.sym(f"m_log2_{i}"), "depth": Term.sym(f"m_depth{i}", 0, INF),
                  "gc": Term.sym(f"m_gc{i}"), "probes": Term.sym(f"m_probes{i}", 0, INF, True), "weight": Term.sym(f"m_w{i}")}
            if fmt == "bed3":
                r3 = {k: r3[k] for k in ("chromosome", "start", "end")}
            rows3.append(r3)
        df3 = make_ga("GenomicArray", rows3, {}, exact=True, labels=[5, 2, 9], index="any").data
        it3 = Interp(prog, Model())
        try:
            out3 = it3.run(fi.qn, [df3], kw)
        except Undecided as e:
            raise AnalysisError(f"C08-D1 writer {fmt} on a three-row table ({fi.qn}): cannot decide: {e}")
        except Raised as e:
            chk.violate("coordinate-offset", f"writer-rows:{fmt}:{fi.qn}", fi.loc(), f"writer raises on a three-row table whose index labels are 5, 2, 9: {e}")
            continue
        got3 = None
        if isinstance(out3, DF) and out3.n == 3:
            cc = next((c for c in ("chromosome", "chrom", "CHROM", "#CHROM") if c in out3.cols), None)
            if cc and sc in out3.cols and ec in out3.cols:
                got3 = [(out3.cols[cc].v[i], out3.cols[sc].v[i], out3.cols[ec].v[i]) for i in range(3)]
        elif isinstance(out3, Vec) and len(out3.v) == 3 and all(isinstance(x, FStr) for x in out3.v):
            got3 = [(x.parts[0].split(":")[0] if isinstance(x.parts[0], str) else (x.parts[0].v if isinstance(x.parts[0], FVal) else None), x.field(":"), x.field("-")) for x in out3.v]
        if got3 is None:
            raise AnalysisError(f"C08-D1 writer {fmt}: cannot locate the rows of the three-row output: {out3!r}")
        if fmt == "tab" and isinstance(out3, DF):
            # the native table format carries every column: the values handed to the CSV formatter (6 significant digits) are the table's own
            kept = {c: (c in out3.cols and len(out3.cols[c].v) == 3 and all(same(a, b) for a, b in zip(out3.cols[c].v, df3.cols[c].v))) for c in df3.cols if not c.startswith("__")}
            chk.decide(all(kept.values()), "coordinate-offset", "writer tab: every column of the table reaches the file formatter unchanged (rounding to 6 significant digits is the formatter's)",
                       f"writer-columns:tab:{fi.qn}", fi.loc(), f"the tab writer alters or drops columns before formatting: {sorted(c for c, ok_ in kept.items() if not ok_)} "
                       "(e.g. rounding to a fixed number of decimals loses small p-values and weights that 6 significant digits keep)")
        want_c = [1, 2, 3] if fmt == "seg" else chroms3          # (SEG numbers the chromosomes in order of appearance)
        ok3 = all(c == want_c[i] and s_ is not None and e_ is not None and same(s_, t_add(S3[i], Term.const(BASE[fmt]))) and same(e_, E3[i]) for i, (c, s_, e_) in enumerate(got3))
        chk.decide(ok3, "coordinate-offset", f"writer {fmt} on three rows labelled 5, 2, 9: each line holds one row's chromosome, start + {BASE[fmt]} and end", f"writer-rows:{fmt}:{fi.qn}", fi.loc(),
                   f"on a table whose index labels are not 0..n-1 the writer pairs fields of different rows (or loses them): lines {[(c, repr(a), repr(b)) for c, a, b in got3]}")
        if fmt != "bed3":
            # the same writer on a table that also carries a strand column (read from a 6-column BED or an interval list)
            W.reset()
            MS, ME = Term.sym("mem_start", 1, INF, True), Term.sym("mem_end", 2, INF, True)
            cols2 = dict(cols, start=MS, end=ME, strand="+")
            df2 = DF({k: Vec([v]) for k, v in cols2.items()}, 1)
            it2 = Interp(prog, Model())
            try:
                out2 = it2.run(fi.qn, [df2], kw)
            except Undecided as e:
                raise AnalysisError(f"C08-D1 writer {fmt} on a stranded table ({fi.qn}): cannot decide: {e}")
            except Raised as e:
                chk.violate("coordinate-offset", f"writer-stranded:{fmt}:{fi.qn}", fi.loc(), f"writer raises on a one-row table with a strand column: {e}")
                continue
            s2 = None
            if isinstance(out2, DF) and sc in out2.cols:
                s2 = out2.cols[sc].v[0]
            elif isinstance(out2, Vec) and out2.v and isinstance(out2.v[0], FStr):
                s2 = out2.v[0].field(":")
            ok2 = same(df2.cols["start"].v[0], MS) and same(df2.cols["end"].v[0], ME) and s2 is not None and same(s2, t_add(MS, Term.const(BASE[fmt])))
            chk.decide(ok2, "coordinate-offset", f"writer {fmt} on a table with a strand column: same offset, caller's frame not modified", f"writer-stranded:{fmt}:{fi.qn}", fi.loc(),
                       f"with a strand column present the writer emits start {s2!r} and leaves the caller's start at {df2.cols['start'].v[0]!r} (expected {t_add(MS, Term.const(BASE[fmt]))!r} and {MS!r})")
    chk.floor("C08 readers judged", n_r, 12)
    chk.floor("C08 writers judged", n_w, 8)
    for fmt in sorted(set(r_off) & set(w_off)):
        if r_off[fmt] is None or w_off[fmt] is None:
            continue
        chk.decide(r_off[fmt] + w_off[fmt] == 0, "coordinate-offset", f"pair {fmt}: reader {r_off[fmt]:+d} + writer {w_off[fmt]:+d} == 0",
                   f"pair:{fmt}", "skgenome/tabio/__init__.py", f"reading back what was written shifts start by {r_off[fmt] + w_off[fmt]:+d}")
    chk.sample(dict(clause="D1", reader_offsets=r_off, writer_offsets=w_off))
    # to_label / from_label (used by GenomicArray.labels and region arguments)
    W.reset()
    it = Interp(prog, Model())
    MS, ME = Term.sym("mem_start", 1, INF, True), Term.sym("mem_end", 2, INF, True)
    fi = prog.fn("skgenome.rangelabel.to_label")
    out = it.run(fi.qn, [Row({"chromosome": "chr1", "start": MS, "end": ME})])
    ok = isinstance(out, FStr) and same(out.field(":"), t_add(MS, Term.const(1))) and same(out.field("-"), ME)
    chk.decide(ok, "coordinate-offset", "to_label: chr:start+1-end", "skgenome.rangelabel.to_label", fi.loc(), f"label is {out!r}")


def _offset(val, sym):
    try:
        d = t_sub(T(val), sym)
    except Undecided:
        return None
    return int(d.cval()) if d.is_const() and d.cval().denominator == 1 else None


def d2_sorted(chk, prog):
    chk.clause("D2", "tabio.read returns a sorted table on every path; GenomicArray.sort is stable by (chrom key, start, end)")
    chk.rule("sorted-on-read", "every `return v` of tabio.read is dominated by `v.sort()` with no rebinding in between; `return read_auto(..)` re-enters read")
    fi = prog.fn("skgenome.tabio.read")
    par = parents(fi.node)
    rets = [n for n in own_nodes(fi.node) if isinstance(n, ast.Return)]
    if not rets:
        raise AnalysisError("tabio.read has no return")
    for r in sorted(rets, key=lambda n: n.lineno):
        v = r.value
        if isinstance(v, ast.Call) and isinstance(v.func, ast.Name) and v.func.id == "read_auto":
            g = prog.fn("skgenome.tabio.read_auto")
            grets = [x for x in own_nodes(g.node) if isinstance(x, ast.Return)]
            ok = bool(grets) and all(isinstance(x.value, ast.Call) and norm(x.value.func) == "read" for x in grets)
            chk.decide(ok, "sorted-on-read", "read(fmt='auto') -> read_auto -> read", "skgenome.tabio.read_auto::return", g.loc(),
                       "read_auto no longer returns through read()")
        elif isinstance(v, ast.Name):
            name = v.id
            sorts = [n for n in own_nodes(fi.node) if isinstance(n, ast.Expr) and isinstance(n.value, ast.Call) and isinstance(n.value.func, ast.Attribute)
                     and n.value.func.attr == "sort" and norm(n.value.func.value) == name and not n.value.args]
            ok = False
            for s in sorts:
                if dominates(s, r, par):
                    rebinds = [n for n in own_nodes(fi.node) if isinstance(n, ast.Assign) and any(isinstance(t, ast.Name) and t.id == name for t in n.targets)
                               and dominates(s, n, par) and n is not s and (n.lineno, n.col_offset) > (s.lineno, s.col_offset) and (n.lineno < r.lineno)]
                    if not rebinds:
                        ok = True
            chk.decide(ok, "sorted-on-read", f"`{name}.sort()` dominates `return {name}`", f"skgenome.tabio.read::return {name}", fi.loc(r),
                       f"a table can be returned by tabio.read without having been sorted")
        else:
            chk.violate("sorted-on-read", f"skgenome.tabio.read::{norm(r)}", fi.loc(r), "return of an expression that is not known to be sorted")
    d2_sort_table(chk, prog)


def d2_sort_table(chk, prog):
    """GenomicArray.sort on literal tables (shared with C04: fix pairs sample and reference after sorting both)"""
    fs = prog.fn("skgenome.gary.GenomicArray.sort")
    tbs = Table(chk, "sorted-on-read", "GenomicArray.sort on literal shuffled tables (chr1 / chr2 / chr10 / chrX / chrM; equal starts with different ends; duplicated rows)", fs.loc(), fs.qn)
    base = [("chr10", 5, 9), ("chr2", 7, 8), ("chr1", 30, 40), ("chrX", 0, 5), ("chr1", 10, 25), ("chr1", 10, 20), ("chrM", 1, 2), ("chr2", 7, 8), ("chr1", 10, 20)]
    import random
    rnd = random.Random(5)
    orders = [list(range(len(base))), list(range(len(base)))[::-1]] + [rnd.sample(range(len(base)), len(base)) for _ in range(6)]
    rank = {"chr1": (1, ""), "chr2": (2, ""), "chr10": (10, ""), "chrX": (1000, "X"), "chrM": (2000, "M")}
    # an input already in alphabetical chromosome order (chr1, chr10, chr2, chrM, chrX: `sort -k1,1 -k2,2n`) is not in natural order; one already in natural order stays
    orders.append(sorted(range(len(base)), key=lambda i: base[i]))
    orders.append(sorted(range(len(base)), key=lambda i: (rank[base[i][0]],) + base[i][1:]))
    def natkey(label):
        """the documented chromosome order, transcribed: `chr` prefix dropped; X, Y after the numbered ones; a leading number first, then the rest of the name as a string
        (one extra letter: 2000 + number; a longer suffix -- random / Un / alt / hap contigs: 3000 + number, ordered by the whole suffix)"""
        c = label[3:] if label.lower().startswith("chr") else label
        if c in ("X", "Y"):
            return (1000, c)
        i = 0
        while i < len(c) and c[i].isdigit():
            i += 1
        n_, rest = (int(c[:i]) if i else 0), c[i:]
        return (n_, "") if not rest else ((2000 + n_, rest) if len(rest) == 1 else (3000 + n_, rest))
    rank = {name: natkey(name) for name, _s, _e in base}
    cases = [(base, order) for order in orders]
    # unplaced / random / alternative contigs whose names differ only after a digit inside the suffix: each keeps its own place (rows of two such contigs never interleave)
    alt = [("chrUn_gl000212", 0, 10), ("chrUn_gl000211", 5, 8), ("chr1_gl000191_random", 0, 5), ("chr1", 3, 4), ("chrUn_gl000212", 20, 30), ("chrUn_gl000211", 0, 3), ("chr6_apd_hap1", 1, 2),
           ("chr1_gl000192_random", 0, 9), ("chr1_gl000191_random", 7, 8)]
    rank.update({name: natkey(name) for name, _s, _e in alt})
    cases += [(alt, list(range(len(alt)))), (alt, list(range(len(alt)))[::-1]), (alt, rnd.sample(range(len(alt)), len(alt)))]
    for base, order in cases:
        W.reset()
        rows = [dict(chromosome=base[i][0], start=base[i][1], end=base[i][2], gene="-", rowid=k) for k, i in enumerate(order)]
        g = make_ga("GenomicArray", rows, {}, index="any", exact=True, labels=[50 - k for k in range(len(rows))])
        it = Interp(prog)
        out = tbs.guard(lambda: ("v", it.run_method(g, "sort", [])), f"order {order}")
        if out is None:
            continue
        d = g.data
        got = list(zip(d.cols["chromosome"].v, d.cols["start"].v, d.cols["end"].v, d.cols["rowid"].v))
        want = sorted(((r["chromosome"], r["start"], r["end"], r["rowid"]) for r in rows), key=lambda t: (rank[t[0]], t[1], t[2], t[3]))
        renumbered = d.labels == list(range(len(rows))) or d.index == "range"
        tbs.cell(got == want and renumbered, dict(input_order=order, got=[x[:3] for x in got], want=[x[:3] for x in want], ties_keep_input_order=[x[3] for x in got] == [x[3] for x in want], index_renumbered=renumbered))
    tbs.done("GenomicArray.sort does not order rows by (natural chromosome order, start, end) with ties in input order, renumbered 0..n-1")


def d1_gff_rows(chk, prog):
    """read_gff on a literal three-record file whose records are not in sorted order: every row keeps its own record's name"""
    fi = prog.fn("skgenome.tabio.gff.read_gff")
    tb = Table(chk, "coordinate-offset", "read_gff on a literal file of 4 records out of order (chr2 before chr10, two records of one contig swapped; one record of another type): each row carries its own record's "
               "start - 1, end and name", fi.loc(), fi.qn + "::rows")
    recs = [("chr2", "gene", 500, 600, 'ID=g1;Name=TP53'), ("chr10", "gene", 40, 90, 'gene_id "A1BG"; x "y"'), ("chr2", "gene", 100, 200, 'Name=BRCA2;Alias=q'), ("chr2", "exon", 100, 150, 'Name=EX1')]
    for keep_type in (None, "gene"):
        W.reset()
        m = Model()

        def read_csv(it, src, names=None, **kw):
            cols = list(names)
            vals = {"chromosome": [r[0] for r in recs], "source": ["src"] * len(recs), "type": [r[1] for r in recs], "start": [r[2] for r in recs], "end": [r[3] for r in recs],
                    "score": ["."] * len(recs), "strand": ["+"] * len(recs), "phase": ["."] * len(recs), "attribute": [r[4] for r in recs]}
            d = DF({c: Vec(vals[c], aligned=True) for c in cols}, len(recs))
            d.exact = True
            for v in d.cols.values():
                v.exact = True
            return d
        m.ext["pd.read_csv"] = read_csv
        it = Interp(prog, m)
        out = tb.guard(lambda: it.run(fi.qn, ["x.gff"], {"keep_type": keep_type} if keep_type else {}), f"keep_type={keep_type}")
        if out is None:
            continue
        import re as _re
        want = sorted(((c, s_ - 1, e_, _re.search(r'(Name|gene_id|gene_name|gene)[= ]"?(?P<gene>\S+?)"?(;|$)', a).group("gene")) for c, t, s_, e_, a in recs if keep_type is None or t == keep_type))
        keep = out.cols.get("__keep__") if isinstance(out, DF) else None
        try:
            got = [(out.cols["chromosome"].v[i], int(T(out.cols["start"].v[i]).cval()), int(T(out.cols["end"].v[i]).cval()), out.cols["gene"].v[i]) for i in range(len(out.cols["start"].v))
                   if keep is None or keep.v[i] is True]
        except Exception as e:
            raise AnalysisError(f"C08 read_gff rows: result not literal ({e})")
        tb.cell(got == want, dict(keep_type=keep_type, got=got, want=want))
    tb.done("read_gff gives a row another record's name (or coordinates): the names are not carried with their own records through the sort")


def d1_bed_names(chk, prog):
    """BED readers keep the whole 4th tab-separated field as the name (shared with C09: the read-count path reads its bins through them)"""
    readers = registry(prog, "READERS")
    n = 0
    for fmt in ("bed", "bed4", "text"):
        fi = readers.get(fmt)
        if fi is None:
            continue
        W.reset()
        FS, FE = Term.sym("file_start", 1, INF, True), Term.sym("file_end", 1, INF, True)
        it = Interp(prog, file_model(fmt, FS, FE))
        try:
            df = it.run(fi.qn, ["<infile>"])
        except Undecided as e:
            raise AnalysisError(f"BED reader {fmt} ({fi.qn}): cannot decide: {e}")
        except Raised as e:
            chk.violate("coordinate-offset", f"reader-name:{fmt}:{fi.qn}", fi.loc(), f"reader raises on a well-formed one-record file: {e}")
            continue
        df = df.data if isinstance(df, GA) else df
        g = df.cols["gene"].v[0] if isinstance(df, DF) and "gene" in df.cols else None
        n += 1
        want_name = TEXT_NAME if fmt == "text" else BED_NAME
        chk.decide(g == want_name, "coordinate-offset", f"reader {fmt}: the name column is the whole name field of the line ({want_name!r})", f"reader-name:{fmt}:{fi.qn}", fi.loc(),
                   f"a name such as {want_name!r} is read back as {g!r}")
    chk.floor("BED readers with a name column", n, 2)


def d1_segnames(chk, prog):
    """parse_seg chromosome renaming: numeric IDs -> names first, then the prefix (documented order; import-seg -c human -p chr)"""
    fi = prog.fn("skgenome.tabio.seg.parse_seg")
    tb = Table(chk, "coordinate-offset", "parse_seg: chrom_names x chrom_prefix x from_log10 on a two-sample table", fi.loc(), fi.qn)
    raw = ["1", "23", "24", "7", "23"]
    samples = ["A", "A", "A", "B", "B"]
    names = {"23": "X", "24": "Y", "25": "M"}
    for use_names, prefix, log10 in itertools.product([False, True], [None, "chr"], [False, True]):
        W.reset()
        m = file_model("seg", Term.sym("fs", 1, INF, True), Term.sym("fe", 1, INF, True))
        st = [Term.sym(f"s{i}", 1, INF, True) for i in range(5)]
        en = [Term.sym(f"e{i}", 1, INF, True) for i in range(5)]
        lg = [Term.sym(f"l{i}") for i in range(5)]

        def read_csv(it, src, names=None, **kw):
            cols = {"sample_id": samples, "chromosome": raw, "start": st, "end": en, "probes": [3] * 5, "log2": lg}
            df = DF({c: Vec(list(cols[c]), aligned=True) for c in it.iterate(names)}, 5)
            df.exact = True
            return df
        m.ext["pd.read_csv"] = read_csv
        it = Interp(prog, m)
        out = tb.guard(lambda: list(it.run(fi.qn, ["x.seg", names if use_names else None, prefix, log10])), f"names={use_names} prefix={prefix} log10={log10}")
        if out is None:
            continue
        want = [(names.get(c, c) if use_names else c) for c in raw]
        want = [(prefix or "") + c for c in want]
        got, ok = [], [sid for sid, _ in out] == ["A", "B"]
        k = 0
        for sid, df in out:
            for i in range(df.n):
                got.append(df.cols["chromosome"].v[i])
                ok = ok and same(df.cols["start"].v[i], t_sub(st[k], Term.const(1))) and same(df.cols["end"].v[i], en[k])
                ok = ok and (same(df.cols["log2"].v[i], lg[k]) if not log10 else not same(df.cols["log2"].v[i], lg[k]))
                ok = ok and "sample_id" not in df.cols and df.cols["gene"].v[i] == "-"
                k += 1
        tb.cell(ok and got == want, dict(chrom_names=use_names, prefix=prefix, from_log10=log10, chromosomes=got, want=want))
    tb.done("parse_seg does not map chromosome IDs to names and then add the prefix (or loses the 1-based shift / sample split)")


class _TScalar:
    """one element of a typed column: a numpy scalar (np.int64 / np.float64) or a str"""
    NUMPY_BASES = {"int": {"np.int64", "np.int_", "np.signedinteger", "np.integer", "np.number", "np.generic"},
                   "float": {"np.float64", "np.double", "np.floating", "np.inexact", "np.number", "np.generic"}, "object": set()}
    PY_BASES = {"int": set(), "float": {float}, "object": {str}}          # np.float64 subclasses float; np.int64 does not subclass int

    def __init__(self, kind):
        self.kind = kind

    def abs_isinstance(self, tys):
        for t in tys:
            if isinstance(t, type) and t in self.PY_BASES[self.kind]:
                return True
            if isinstance(t, Module) and t.name in self.NUMPY_BASES[self.kind]:
                return True
            if not isinstance(t, (type, Module)):
                raise Undecided(f"isinstance against {t!r}")
        return False


class _TCol:
    def __init__(self, kind):
        self.kind = kind
        self.iat = self
        self.iloc = self
        self.values = self

    def abs_getitem(self, it, k):
        return _TScalar(self.kind)

    @property
    def dtype(self):
        from ..absmodel import DType
        return DType(self.kind)


class _TFrame:
    """a DataFrame known by its column dtypes only"""

    def __init__(self, kinds, n):
        self.kinds, self.n = dict(kinds), n
        self.columns = list(kinds)

    def abs_isinstance(self, tys):
        return any(isinstance(t, Module) and t.name == "pd.DataFrame" for t in tys)

    def abs_len(self):
        return self.n

    def abs_getitem(self, it, k):
        if k not in self.kinds:
            raise Raised("KeyError", k)
        return _TCol(self.kinds[k])

    def astype(self, mapping):
        out = dict(self.kinds)
        for c, t in (mapping.items() if isinstance(mapping, dict) else [(c, mapping) for c in out]):
            t = getattr(t, "pytype", t)
            out[c] = {int: "int", float: "float", str: "object", "int": "int", "float": "float", "str": "object"}.get(t)
            if out[c] is None:
                raise Undecided(f"astype({t!r})")
        return _TFrame(out, self.n)


def d2c_coordinate_dtypes(chk, prog):
    """GenomicArray.__init__ on typed frames: whatever the parser inferred (positions in scientific notation parse as float, numeric chromosome names as int),
    the array holds chromosome as str and start / end as integers -- the writers format integers as such and floats with 6 significant digits"""
    fi = prog.fn("skgenome.gary.GenomicArray.__init__")
    tb = Table(chk, "sorted-on-read", "GenomicArray(frame): column dtypes after construction (chromosome parsed as str / int, start and end parsed as int / float; 2 rows / 0 rows)", fi.loc(), fi.qn)
    for ck, sk, ek, n in itertools.product(("object", "int"), ("int", "float"), ("int", "float"), (2, 0)):
        W.reset()
        model = Model()
        model.ext["np.dtype"] = lambda it, t: __import__("cnvlint.absmodel", fromlist=["DType"]).DType({int: "int", float: "float", str: "object"}.get(getattr(t, "pytype", t), "object"))
        it = Interp(prog, model)
        g = make_ga("GenomicArray", [], {}, exact=True)
        frame = _TFrame({"chromosome": ck, "start": sk, "end": ek, "gene": "object"}, n)
        out = tb.guard(lambda: ("v", it.call_function(fi.mod, fi.node, [g, frame, None], {}, qn=fi.qn)), f"chromosome:{ck} start:{sk} end:{ek} rows:{n}")
        if out is None:
            continue
        d = g.data
        kinds = d.kinds if isinstance(d, _TFrame) else None
        ok = kinds is not None and kinds.get("chromosome") == "object" and kinds.get("start") == "int" and kinds.get("end") == "int"
        tb.cell(ok, dict(parsed=dict(chromosome=ck, start=sk, end=ek), rows=n, after=kinds))
    tb.done("a coordinate column the parser inferred as float (or a numeric chromosome column) is not converted on construction: positions are then written with 6 significant digits and do not read back")


def d2_read(chk, prog):
    """tabio.read interpreted for every registered format: the table the reader parsed comes back whole (columns kept, also with zero rows) and sorted"""
    fi = prog.fn("skgenome.tabio.read")
    readers = registry(prog, "READERS")
    tb = Table(chk, "sorted-on-read", "tabio.read(fmt): reader's columns kept (2 rows / 0 rows), result sorted, sample id from the file name", fi.loc(), fi.qn)
    extra = ("chromosome", "start", "end", "gene", "log2", "depth", "weight")
    for fmt, rfi in sorted(readers.items()):
        if fmt == "auto":
            continue
        for nrows in (2, 0):
            W.reset()
            model = Model()
            ev = []

            def reader(it, infile, nrows=nrows, **k):
                d = DF({c: Vec((["chr2", "chr1"] if c == "chromosome" else ["-", "-"] if c == "gene" else [Term.sym(f"{c}{i}") for i in range(2)])[:nrows], aligned=True) for c in extra}, nrows)
                d.exact = True
                return d
            model.prims[rfi.qn] = reader
            model.method_prims["sort"] = lambda it, g, *a, ev=ev, **k: ev.append(("sort", id(g)))
            model.method_prims["sort_columns"] = lambda it, g, *a, ev=ev, **k: ev.append(("sort_columns", id(g)))
            it = Interp(prog, model)
            out = tb.guard(lambda: it.run(fi.qn, ["dir/sampleA.cnr", fmt]), f"fmt={fmt} rows={nrows}")
            if out is None:
                continue
            cols = [c for c in out.data.cols if not c.startswith("__")] if isinstance(out, GA) else None
            ok = isinstance(out, GA) and out.data.n == nrows and set(extra) <= set(cols) and ("sort", id(out)) in ev and out.meta.get("sample_id") == "sampleA"
            tb.cell(ok, dict(fmt=fmt, rows=nrows, columns=cols, sorted=("sort", id(out)) in ev if isinstance(out, GA) else None, sample_id=out.meta.get("sample_id") if isinstance(out, GA) else None))
    tb.done("tabio.read does not hand back the parsed table whole and sorted (an empty table must keep its columns: writing it again gives the same header)")


def d2_order(chk, prog):
    """sorter_chrom on concrete labels: natural order whatever the case of the chr prefix"""
    fi = prog.fn("skgenome.chromsort.sorter_chrom")
    tb = Table(chk, "sorted-on-read", "sorter_chrom keys: 1 < 2 < 10 < 22 < X < Y < M (< longer contig names), any chr-prefix spelling; equal keys across spellings", fi.loc(), fi.qn)
    order = ["1", "2", "10", "22", "X", "Y", "M", "Un_gl000220"]
    ref = None
    for prefix in ("", "chr", "Chr", "CHR"):
        W.reset()
        it = Interp(prog)
        keys = tb.guard(lambda: [it.run(fi.qn, [prefix + c]) for c in order], f"prefix {prefix!r}")
        if keys is None:
            continue
        ok = all(isinstance(k, tuple) and len(k) == 2 and isinstance(k[0], int) and isinstance(k[1], str) for k in keys)
        ok = ok and all(keys[i] < keys[i + 1] for i in range(len(keys) - 1))
        if ref is None:
            ref = keys
        tb.cell(ok and keys == ref, dict(prefix=prefix, keys=[repr(k) for k in keys], same_as_bare=keys == ref))
    tb.done("the chromosome sort key does not give the natural order 1, 2, 10, .., X, Y, M for every spelling of the chr prefix")


def d3_sniff(chk, prog):
    chk.clause("D3", "auto-detected format names are registry keys; read_auto rewinds")
    chk.rule("sniff-registry", "every string sniff_region_format can return (constants and format_patterns keys) is a key of READERS")
    readers = registry(prog, "READERS")
    fi = prog.fn("skgenome.tabio.sniff_region_format")
    m = prog.module("skgenome.tabio")
    names = set()
    for r in own_nodes(fi.node):
        if isinstance(r, ast.Return) and r.value is not None:
            if isinstance(r.value, ast.Constant) and isinstance(r.value.value, str):
                names.add(r.value.value)
            elif isinstance(r.value, ast.Name):
                pass   # fname_fmt: a key of format_patterns (checked below)
            elif not (isinstance(r.value, ast.Constant) and r.value.value is None):
                raise AnalysisError(f"sniff_region_format: unrecognised return {norm(r)}")
    fp = m.assigns.get("format_patterns")
    keys = set()
    if fp is None:
        raise AnalysisError("format_patterns vanished")
    for n in ast.walk(fp):
        if isinstance(n, ast.Tuple) and len(n.elts) == 2 and isinstance(n.elts[0], ast.Constant) and isinstance(n.elts[0].value, str) and isinstance(n.elts[1], ast.Call):
            keys.add(n.elts[0].value)
    chk.floor("format_patterns keys", len(keys), 5)
    bad = sorted((names | keys) - set(readers))
    chk.decide(not bad, "sniff-registry", f"{sorted(names | keys)} all in READERS", "skgenome.tabio.sniff_region_format::names", fi.loc(),
               f"auto-detection can return {bad}, which tabio.read rejects as unknown format")
    # read_auto, interpreted on a handle that remembers its position: the reader starts at the beginning again after the sniffing consumed lines
    # (file names are re-opened by the reader; a blank file is read as BED3) -- this used to be a match on the order of the seek / sniff / return statements
    ra = prog.fn("skgenome.tabio.read_auto")
    tbr = Table(chk, "sniff-registry", "read_auto on an open handle / a file name x detected format / blank file: the parser starts at position 0 with the detected format", ra.loc(), ra.qn)

    class Handle:
        def __init__(self):
            self.pos, self.events = 0, []

        def seek(self, where, *a):
            self.events.append(("seek", where))
            self.pos = where

        def abs_hasattr(self, name):
            return name in ("seek", "read", "name")
    for kind, detected in itertools.product(("handle", "file name"), ("gff", None)):
        W.reset()
        h = Handle()
        src = h if kind == "handle" else "regions.txt"
        model = Model()
        seen = {}

        def sniff(it, f, h=h, detected=detected):
            if f is h:
                h.pos = 3                      # lines consumed while guessing
            return detected
        model.prims["skgenome.tabio.sniff_region_format"] = sniff
        model.prims["skgenome.tabio.read"] = lambda it, f, fmt="tab", *a, seen=seen, h=h, **k: seen.update(read=(f, fmt, h.pos if f is h else 0)) or "TABLE"
        it = Interp(prog, model)
        out = tbr.guard(lambda: it.run(ra.qn, [src]), f"{kind} detected={detected}")
        if out is None:
            continue
        rd = seen.get("read")
        tbr.cell(out == "TABLE" and rd is not None and rd[0] is src and rd[1] == (detected or "bed3") and rd[2] == 0, dict(input=kind, detected=detected, read_call=(rd[1], rd[2]) if rd else None, handle_events=h.events))
    tbr.done("after format sniffing the parser does not start at the beginning of the input (the first lines are lost), or is given another format than the one detected")


def d3b_roundtrip_detection(chk, prog):
    chk.rule("sniff-own-output", "the first line a writer of format F emits (representative chromosome names, strands, gene labels) is classified by "
             "sniff_region_format as F's own reader family: what the package writes it must recognise when reading back with read_auto")
    writers = registry(prog, "WRITERS")
    wm = prog.module("skgenome.tabio").assigns.get("WRITERS")
    header = {k.value: bool(v.elts[1].value) for k, v in zip(wm.keys, wm.values) if isinstance(v, ast.Tuple) and len(v.elts) == 2 and isinstance(v.elts[1], ast.Constant)}
    family = {"bed": "bed", "bed3": "bed", "bed4": "bed", "interval": "interval", "text": "text", "tab": "tab"}
    fi_s = prog.fn("skgenome.tabio.sniff_region_format")
    tb = Table(chk, "sniff-own-output", "sniff_region_format(first line written by each writer)", fi_s.loc(), fi_s.qn)
    variants = []
    for chrom_, strand, gene in itertools.product(["chr1", "1", "chrUn_gl000220"], [None, "+", "-", "."], ["GENE", "-", "A,B"]):
        variants.append((chrom_, strand, gene))
    for fmt in sorted(family):
        fi = writers.get(fmt)
        if fi is None:
            raise AnalysisError(f"writer {fmt} vanished")
        for chrom_, strand, gene in variants:
            W.reset()
            cols = {"chromosome": Vec([chrom_]), "start": Vec([100]), "end": Vec([200])}
            if fmt != "bed3":
                cols["gene"] = Vec([gene])
            if strand is not None and fmt == "interval":        # the property's BED round trip is the 3 / 4 column form: no strand column
                cols["strand"] = Vec([strand])
            if fmt == "tab":
                cols["log2"] = Vec([Fr(1, 2)])
            it = Interp(prog, Model())
            out = tb.guard(lambda: it.run(fi.qn, [DF(cols, 1)]), f"write {fmt}")
            if out is None:
                continue
            if isinstance(out, DF):
                names = [c for c in out.cols if not c.startswith("__")]
                fields = [out.cols[c].v[0] for c in names]
                if any(isinstance(x, (Term, FStr)) for x in fields):
                    fields = [str(T(x).cval()) if isinstance(x, Term) and x.is_const() else x for x in fields]
                line = "\t".join(names) if header.get(fmt) else "\t".join(str(x) for x in fields)
            elif isinstance(out, Vec) and isinstance(out.v[0], str):
                line = out.v[0]
            else:
                raise AnalysisError(f"C08-D3b: cannot render the output of writer {fmt}: {out!r}")
            model = Model()
            model.ext["Bio.File.as_handle"] = lambda it_, infile, *a, line=line, **k: [line + "\n"]
            model.prims["skgenome.tabio.get_filename"] = lambda it_, f: None
            it2 = Interp(prog, model)
            got = tb.guard(lambda: ("fmt", it2.run(fi_s.qn, ["<stream>"])), f"sniff {fmt}")
            if got is None:
                continue
            tb.cell(got[1] == family[fmt], dict(written_as=fmt, line=line, strand=strand, detected=got[1], want=family[fmt]))
    tb.done("a file written by the package is not recognised as its own format by auto-detection (read_auto would parse it with another reader)")


def d3c_foreign_files(chk, prog):
    """auto-detection on literal files of each supported format as other tools write them (with their header / comment / track lines): the format named is that format's"""
    fi_s = prog.fn("skgenome.tabio.sniff_region_format")
    tb = Table(chk, "sniff-own-output", "sniff_region_format on literal files of every claimed format (VCF with / without meta lines, GFF, interval list with @ header, text, tab, BED with track / browser / comment / blank lines)", fi_s.loc(),
               fi_s.qn + "::foreign files")
    files = [("vcf", "a VCF with meta lines", ["##fileformat=VCFv4.2\n", "##contig=<ID=chr1>\n", "#CHROM\tPOS\tID\tREF\tALT\tQUAL\tFILTER\tINFO\n", "chr1\t101\t.\tA\tC\t.\tPASS\t.\n"]),
             ("vcf", "a VCF that starts at the column header", ["#CHROM\tPOS\tID\tREF\tALT\tQUAL\tFILTER\tINFO\n", "chr1\t101\t.\tA\tC\t.\tPASS\t.\n"]),
             ("vcf", "a VCF after a blank line", ["\n", "##fileformat=VCFv4.1\n", "#CHROM\tPOS\tID\tREF\tALT\tQUAL\tFILTER\tINFO\n"]),
             ("gff", "a GFF3 with its version pragma", ["##gff-version 3\n", "chr1\tsrc\texon\t101\t200\t.\t+\t.\tID=x\n"]),
             ("gff", "a GFF without pragma, after a comment", ["# made by a tool\n", "chr1\tsrc\texon\t101\t200\t.\t+\t.\tgene_id \"G\";\n"]),
             ("interval", "a Picard interval list with header", ["@HD\tVN:1.4\n", "@SQ\tSN:chr1\tLN:1000\n", "chr1\t101\t200\t+\tG\n"]),
             ("interval", "interval-list data lines only", ["chr1\t101\t200\t+\tG\n"]),
             ("text", "chr:start-end text", ["chr1:101-200\tG\n"]),
             ("tab", "a CNVkit table", ["chromosome\tstart\tend\tgene\tlog2\n", "chr1\t100\t200\tG\t0.5\n"]),
             ("bed", "a BED with track and browser lines", ["browser position chr1:1-1000\n", "track name=baits\n", "chr1\t100\t200\tG\n"]),
             ("bed", "a BED after comment and blank lines", ["# baits v2\n", "\n", "chr1\t100\t200\n"]),
             ("bed", "a six-column BED", ["chr1\t100\t200\tG\t0\t-\n"]),
             ("bed", "a six-column BED whose first bin is unnamed ('.')", ["chr1\t100\t200\t.\t0\t+\n", "chr1\t300\t400\tG\t0\t-\n"]),
             ("bed", "a six-column BED whose first name is '-'", ["chr1\t100\t200\t-\t0\t+\n"]),
             ("bed", "a twelve-column BED with an unnamed first row", ["chr1\t100\t200\t.\t0\t+\t100\t200\t0\t1\t100,\t0,\n"]),
             ("interval", "an interval list whose name has dots and dashes", ["chr1\t101\t200\t-\tNM_001.2-ex1\n"])]
    for want, label, lines in files:
        W.reset()
        model = Model()
        model.ext["Bio.File.as_handle"] = lambda it_, infile, *a, lines=lines, **k: list(lines)
        model.prims["skgenome.tabio.get_filename"] = lambda it_, f: None
        it = Interp(prog, model)
        got = tb.guard(lambda: ("fmt", it.run(fi_s.qn, ["<stream>"])), label)
        if got is None:
            continue
        tb.cell(got[1] == want, dict(file=label, first_lines=[ln.rstrip("\n") for ln in lines[:3]], detected=got[1], want=want))
    tb.done("a file of a supported format is not recognised as that format by auto-detection (read_auto raises or parses it with another reader)")


def d4_precision(chk, prog):
    chk.clause("D4", "floats are written with >= 6 significant digits")
    chk.rule("float-format", "every DataFrame.to_csv in tabio.write / cmdutil.write_dataframe passes float_format='%.Ng' with N >= 6")
    n = 0
    for qn in ("skgenome.tabio.write", "cnvlib.cmdutil.write_dataframe"):
        fi = prog.fn(qn)
        for c in own_nodes(fi.node):
            if isinstance(c, ast.Call) and isinstance(c.func, ast.Attribute) and c.func.attr == "to_csv":
                n += 1
                ff = next((k.value for k in c.keywords if k.arg == "float_format"), None)
                ok = False
                if isinstance(ff, ast.Constant) and isinstance(ff.value, str):
                    m = re.fullmatch(r"%\.(\d+)([gef])", ff.value)
                    ok = bool(m) and int(m.group(1)) >= 6
                chk.decide(ok, "float-format", f"{qn}: to_csv(float_format={norm(ff) if ff is not None else None})", f"{qn}::to_csv", fi.loc(c),
                           "numbers are not written with at least 6 significant digits")
    chk.floor("to_csv sites", n, 2)


def run(chk):
    prog = chk.prog
    chk.trust("Python grammar via ast", "format conventions (BASE table): BED/tab 0-based; interval list, chr:start-end text, GFF, SEG, VCF, Picard HS 1-based",
              "pysam: record.start is 0-based (POS-1), record.pos is POS, info['END'] is END", "pandas read_csv(names=) yields the named columns unchanged")
    chk.assume("a reader treats every data row alike (row-wise parametricity), so one symbolic row decides the offset for all rows")
    d1_offsets(chk, prog)
    d1_bed_names(chk, prog)
    d1_gff_rows(chk, prog)
    d1_segnames(chk, prog)
    from . import C20
    C20.d3(chk, prog)               # what export seg writes (ids, 1-based starts, enumerated chromosome ids): shared with C20-D3
    d2_sorted(chk, prog)
    d2_read(chk, prog)
    d2c_coordinate_dtypes(chk, prog)
    d2_order(chk, prog)
    d3_sniff(chk, prog)
    d3b_roundtrip_detection(chk, prog)
    d3c_foreign_files(chk, prog)
    d4_precision(chk, prog)
    chk.clause("CLI", "the `import-seg` command line (second half of the export seg / import-seg round trip): chromosome mapping only when asked for, prefix, log10 switch, one file per sample")
    from .. import cliglue
    cliglue.check_import_seg(chk, prog)


_T = "skgenome/tabio/"
MUTANTS = [
    dict(name="interval reader forgets -1", file=_T + "picard.py", old='    dframe.fillna({"gene": "-"}, inplace=True)\n    dframe["start"] -= 1\n', new='    dframe.fillna({"gene": "-"}, inplace=True)\n', mention="reader:interval"),
    dict(name="picard hs reader forgets -1", file=_T + "picard.py", old='    del dframe["length"]\n    dframe["start"] -= 1\n', new='    del dframe["length"]\n', mention="reader:picardhs"),
    dict(name="interval writer forgets +1", file=_T + "picard.py", old='    dframe = dframe.copy()\n    dframe["start"] += 1\n    if "gene" not in dframe:', new='    dframe = dframe.copy()\n    if "gene" not in dframe:', mention="writer:interval"),
    dict(name="interval writer mutates input", file=_T + "picard.py", old='    dframe = dframe.copy()\n    dframe["start"] += 1\n    if "gene" not in dframe:', new='    dframe["start"] += 1\n    if "gene" not in dframe:', mention="writer-input:interval"),
    dict(name="picard hs writer shifts end", file=_T + "picard.py", old='("end", dframe["end"]),', new='("end", dframe["end"] + 1),', mention="writer:picardhs"),
    dict(name="gff reader forgets -1", file=_T + "gff.py", old="assign(start=dframe.start - 1,", new="assign(start=dframe.start,", mention="reader:gff"),
    dict(name="seeded C08c: seg prefix added before the ID -> name mapping", file=_T + "seg.py", old="""    if chrom_names:
        dframe["chromosome"] = dframe["chromosome"].replace(chrom_names)
    if chrom_prefix:
        dframe["chromosome"] = dframe["chromosome"].apply(lambda c: chrom_prefix + c)
""", new="""    if chrom_prefix:
        dframe["chromosome"] = dframe["chromosome"].apply(lambda c: chrom_prefix + c)
    if chrom_names:
        dframe["chromosome"] = dframe["chromosome"].replace(chrom_names)
"""),
    dict(name="seeded C08d: chr prefix stripped case-sensitively", file="skgenome/chromsort.py", old='chrom = label[3:] if label.lower().startswith("chr") else label', new='chrom = label.removeprefix("chr")'),
    dict(name="sort key: Y before X", file="skgenome/chromsort.py", old='        key = (1000, chrom)', new='        key = (1000, "A" if chrom == "Y" else chrom)'),
    dict(name="twin: prefix stripped through a slice of the lowered label", expect="silent", file="skgenome/chromsort.py", old='chrom = label[3:] if label.lower().startswith("chr") else label', new='chrom = label[3:] if label[:3].lower() == "chr" else label'),
    dict(name="seeded C08e: interval writer copies only when a column is missing", file=_T + "picard.py", old="""    dframe = dframe.copy()
    dframe["start"] += 1
    if "gene" not in dframe:
        dframe["gene"] = "-"
    if "strand" not in dframe:
        dframe["strand"] = "+"
""", new="""    placeholders = {col: default for col, default in (("gene", "-"), ("strand", "+")) if col not in dframe}
    if placeholders:
        dframe = dframe.assign(**placeholders)
    dframe["start"] += 1
"""),
    dict(name="seeded C08f: BED fields split on any whitespace", file=_T + "bedio.py", old='        fields = line.split("\\t", 6)', new="        fields = line.split(None, 6)"),
    dict(name="seg reader forgets -1", file=_T + "seg.py", old='    dframe["start"] -= 1\n', new="", mention="reader:seg"),
    dict(name="seg writer forgets +1", file=_T + "seg.py", old="start=dframe.start + 1)", new="start=dframe.start)", mention="writer:seg"),
    dict(name="from_label forgets -1", file="skgenome/rangelabel.py", old="start = int(start) - 1 if start else None", new="start = int(start) if start else None", mention="reader:text"),
    dict(name="to_label forgets +1", file="skgenome/rangelabel.py", old="{row.start + 1}-{row.end}", new="{row.start}-{row.end}", mention="to_label"),
    dict(name="write_text adds 1 again", file=_T + "textcoord.py", old="    return dframe.apply(to_label, axis=1)", new="    dframe = dframe.copy()\n    dframe[\"start\"] += 1\n    return dframe.apply(to_label, axis=1)", mention="writer:text"),
    dict(name="bed reader subtracts 1", file=_T + "bedio.py", old="return chrom, int(start), int(end), gene, strand", new="return chrom, int(start) - 1, int(end), gene, strand", mention="reader:bed"),
    dict(name="vcf reader uses record.pos", file=_T + "vcfio.py", old="        start = record.start\n", new="        start = record.pos\n", mention="reader:vcf"),
    dict(name="vcf-simple forgets -1", file=_T + "vcfsimple.py", old='    # ENH: do things with filter, info\n    table["start"] -= 1\n', new="    # ENH: do things with filter, info\n", mention="reader:vcf-simple"),
    dict(name="vcf-sites shifts end", file=_T + "vcfsimple.py", old='    # Where END is missing, infer from allele lengths\n    table["start"] -= 1\n', new='    # Where END is missing, infer from allele lengths\n    table["start"] -= 1\n    table["end"] -= 1\n', mention="reader:vcf-sites"),
    dict(name="read returns before sort", file=_T + "__init__.py", old="    result.sort_columns()\n    result.sort()\n    return result", new="    result.sort_columns()\n    return result", mention="sort"),
    dict(name="sort only when many rows", file=_T + "__init__.py", old="    result.sort()\n    return result", new="    if len(result) > 1000:\n        result.sort()\n    return result", mention="sort"),
    # (pandas applies `kind` only when sorting on a single column; a multi-column sort is a stable lexsort whatever `kind` says)
    dict(name="twin: GenomicArray.sort with kind=quicksort on three columns", expect="silent", file="skgenome/gary.py", old='kind="mergesort")', new='kind="quicksort")'),
    dict(name="seeded C04g: sort key without the end column", file="skgenome/gary.py", old='.sort_values(by=["_sort_key_", "start", "end"], kind="mergesort")', new='.sort_values(by=["_sort_key_", "start"], kind="mergesort")'),
    dict(name="GenomicArray.sort keeps the old index labels", file="skgenome/gary.py", old='            .drop("_sort_key_", axis=1)\n            .reset_index(drop=True)\n', new='            .drop("_sort_key_", axis=1)\n'),
    dict(name="GenomicArray.sort ignores end", file="skgenome/gary.py", old='by=["_sort_key_", "start", "end"]', new='by=["_sort_key_", "start"]', mention="GenomicArray.sort"),
    dict(name="sniffer returns unknown name", file=_T + "__init__.py", old="                return 'interval'\n", new="                return 'interval_list'\n", mention="interval_list"),
    dict(name="read_auto does not rewind", file=_T + "__init__.py", old="    if hasattr(infile, \"seek\"):\n        infile.seek(0)\n", new="", mention="read_auto"),
    dict(name="%.6g -> %.3g", file=_T + "__init__.py", old="float_format='%.6g'", new="float_format='%.3g'", mention="to_csv"),
    dict(name="twin: %.6g -> %.8g", file=_T + "__init__.py", old="float_format='%.6g'", new="float_format='%.8g'", expect="silent"),
    dict(name="twin: interval reader via assign", file=_T + "picard.py", old='    dframe.fillna({"gene": "-"}, inplace=True)\n    dframe["start"] -= 1\n', new='    dframe.fillna({"gene": "-"}, inplace=True)\n    dframe = dframe.assign(start=dframe["start"] - 1)\n', expect="silent"),
    dict(name="twin: from_label split in two statements", file="skgenome/rangelabel.py", old="start = int(start) - 1 if start else None", new="start = int(start) if start else None\n    if start is not None:\n        start = start - 1", expect="silent"),
    dict(name="twin: record.pos - 1", file=_T + "vcfio.py", old="        start = record.start\n", new="        start = record.pos - 1\n", expect="silent"),
]
