"""C06 -- interval arithmetic (merge / flatten / subtract / subdivide / resize_ranges) is base-exact.
D1 subtract's non-nested-subtrahend precondition is established; D2 combiner slot argument kind; D3 grouping predicate
agreement between fast path and grouping; D4 resize clip bounds and drop rule; D5 subdivide chaining."""
import ast
import itertools
from fractions import Fraction as Fr

from ..abstools import *
from ..absint import GenList, CTX
from ..absval import Raised
from ..core import AnalysisError, own_nodes, norm, parents
from ..effects import Resolver
from .. import flow

LEVEL_TEXT = ('static analysis: (D1b) subtract() interpreted on 655 literal table pairs (overlapping / nested / unsorted / abutting subtrahends, chromosomes'
              " missing on either side), merge() and the private helper behind it running as written: every row minus the union of the other table's rows on its "
              'chromosome, in order (a binary search over rows that are not in coordinate order counts as a violation: its result is unspecified), and chromosomes are paired exactly (C07-D6 rule);'
              ' (D2) every call of a combiner taken from the `combine` '
              "mapping passes an array kind (Series/ndarray), which the default combiners require (join_strings -> pd.unique); (D3) merge()'s "
              'fast path compares next start minus running maximum (cummax) of the ends '
              "with -bp, extracted by abstract interpretation as a canonical comparison atom, and flatten()'s fast path "
              'tests the same quantity against 0; (D3b) merge() and flatten() interpreted whole -- fast path, sorting, grouping, squashing, re-ordering -- on 639 literal tables of 1-3 rows (a 4-point grid '
              'on two chromosomes, rows in any order, plus rows -3 .. 3 bases from a pair that overlaps; bp 0 and 2): the rows and merged names of the contract '
              "(rows overlapping by at least bp fuse, abutting rows at bp 0 too; flatten cuts overlapping rows at every start / end); (D4) resize_ranges stores start=max(start-bp,0), end=max(end+bp,0), both min'ed with the chromosome size when sizes are "
              'given (on a table whose index is not 0..n-1: a bound carried by a fresh-index Series is a label misalignment), and keeps exactly '
              'the rows with end-start>0 when shrinking, on a copy; (D5) subdivide, interpreted with a symbolic start and spans giving 1..6 '
              'bins: first piece starts at row.start, every piece begins where the previous ended, last ends at row.end, piece count is '
              'int(round(span/avg)) or 1, regions shorter than min_size are skipped (>=). The trim / outer / inner selection per range of the '
              'other table is the C07-D7 rule (literal tables, nested rows, repeated zero starts). (D4b) no function of skgenome writes into a '
              'class-level or module-level dict / list / set, directly or through a local alias (resize_ranges keeps nothing from an earlier '
              "call's chromosome sizes). D5 includes regions whose pieces are smaller than the minimum size (the region, not the piece, is what "
              'the minimum applies to); D2 finds the combiner call sites in every function that takes the `combine` mapping. Does not decide that'
              ' merge/flatten/intersection outputs cover exactly the union/intersection for arbitrary tables (algorithmic).')
TECHNIQUE = ('reaching-definition / resolved-callee precondition rule; argument-kind agreement at a function-pointer slot; abstract '
             'interpretation (comparison atoms, symbolic coordinates); shared-mutable-state rule')

SUB = "skgenome.subtract.subtract"


# ---------------------------------------------------------------------------------------------- D1
# ---------------------------------------------------------------------------------------------- D2
ARRAY_CTORS = {"pd.Series", "np.array", "np.asarray", "pd.Index", "np.asanyarray", "pd.array"}


def _expr_kind(fi, e, par, depth=0):
    if isinstance(e, (ast.List, ast.ListComp)):
        return "list"
    if isinstance(e, (ast.Tuple,)):
        return "tuple"
    if isinstance(e, (ast.GeneratorExp,)):
        return "generator"
    if isinstance(e, (ast.Set, ast.SetComp)):
        return "set"
    if isinstance(e, ast.Call):
        nm = norm(e.func)
        if nm in ARRAY_CTORS:
            return "array"
        if nm in ("list", "sorted"):
            return "list"
        if nm == "tuple":
            return "tuple"
        if isinstance(e.func, ast.Attribute) and e.func.attr in ("values", "to_numpy", "unique", "dropna", "astype"):
            return "array"
        return "unknown"
    if isinstance(e, ast.Name) and depth < 4:
        vals = flow.reaching_values(fi, e.id, e, par)
        kinds = {(_expr_kind(fi, v, par, depth + 1) if not isinstance(v, str) else "unknown") for v in vals}
        return kinds.pop() if len(kinds) == 1 else "unknown"
    return "unknown"


def d2(chk, prog):
    chk.clause("D2", "every call of a combiner from the `combine` mapping passes an array kind accepted by the default combiners")
    chk.rule("slot-argument-kind", "combiners registered in combiners.get_combiners are function pointers in one slot; a default combiner whose "
             "parameter flows into pd.unique() needs a Series/ndarray (pandas >= 3 rejects a list); all call sites of the slot must pass that kind")
    comb = prog.module("skgenome.combiners")
    # which default combiners need an array argument?
    needs = []
    for name, fi in comb.functions.items():
        if not fi.posparams:
            continue
        p0 = fi.posparams[0]
        for n in own_nodes(fi.node):
            if isinstance(n, ast.Call) and norm(n.func) in ("pd.unique", "pandas.unique") and n.args and isinstance(n.args[0], ast.Name) and n.args[0].id == p0:
                needs.append(name)
    gc = prog.fn("skgenome.combiners.get_combiners")
    registered = set()
    for n in own_nodes(gc.node):
        if isinstance(n, ast.Dict):
            registered |= {v.id for v in n.values if isinstance(v, ast.Name)}
    strict = sorted(set(needs) & registered)
    if not strict:
        chk.ok("slot-argument-kind", "no default combiner requires an array argument (nothing to agree on)")
        return
    sites = []
    # every function of skgenome.merge that is handed the `combine` mapping (whatever it is called)
    takers = [fi for fi in prog.functions.values() if fi.mod == "skgenome.merge" and "combine" in fi.params]
    if not takers:
        raise AnalysisError("skgenome.merge: no function takes a `combine` mapping any more")
    for fi in takers:
        qn = fi.qn
        par = parents(fi.node)
        # combiner variables: targets of `for key, combiner in combine.items()` (also in comprehensions)
        cvars = set()
        for n in own_nodes(fi.node):
            if isinstance(n, (ast.comprehension, ast.For)) and isinstance(n.iter, ast.Call) and norm(n.iter.func) == "combine.items" \
                    and isinstance(n.target, ast.Tuple) and len(n.target.elts) == 2 and isinstance(n.target.elts[1], ast.Name):
                cvars.add(n.target.elts[1].id)
        for n in own_nodes(fi.node):
            if not isinstance(n, ast.Call) or not n.args:
                continue
            f = n.func
            if (isinstance(f, ast.Subscript) and isinstance(f.value, ast.Name) and f.value.id == "combine") or (isinstance(f, ast.Name) and f.id in cvars) \
                    or (isinstance(f, ast.Call) and norm(f.func) == "combine.get"):
                sites.append((fi, n, _expr_kind(fi, n.args[0], par)))
    chk.floor("combiner slot call sites in skgenome/merge.py", len(sites), 1)          # (the literal tables of D3b run the default combiners on both paths: a list handed to join_strings raises there)
    for fi, n, kind in sites:
        if kind == "unknown":
            raise AnalysisError(f"C06-D2: cannot infer the kind of `{norm(n.args[0])}` at {fi.loc(n)}")
        chk.decide(kind == "array", "slot-argument-kind", f"{fi.qn}: {norm(n.func)}(<{kind}>)", f"{fi.qn}::{norm(n.func)}(<{kind}>)", fi.loc(n),
                   f"a {kind} is passed to the combiner slot, but the default combiner(s) {strict} hand their argument to pd.unique(), which "
                   f"raises TypeError for a {kind} on pandas >= 3 (flatten() of overlapping rows with a gene column fails)",
                   witness=dict(site=norm(n)[:120], other_sites=[f"{f2.name}:{k2}" for f2, _, k2 in sites]))


# ---------------------------------------------------------------------------------------------- D3
class Stub:
    """a Series/ndarray placeholder remembering the column and the operations applied to it"""

    def __init__(self, col, ops=()):
        self.col, self.ops = col, tuple(ops)
        self.values = self if "values" not in ops else self
        self.empty = False

    def cummax(self):
        return Stub(self.col, self.ops + ("cummax",))

    def to_numpy(self):
        return self

    def abs_getitem(self, it, k):
        if isinstance(k, slice):
            tag = f"[{'' if k.start is None else k.start}:{'' if k.stop is None else k.stop}]"
            return Term.sym(f"{self.col}{''.join('.' + o for o in self.ops)}{tag}")
        raise Undecided(f"stub index {k!r}")

    def __repr__(self):
        return f"<{self.col}{self.ops}>"


class Truthy:
    def __init__(self, d, op):
        self.d, self.op = d, op

    def all(self):
        return self

    def any(self):
        return self


def first_atom(prog, qn, args, kw=None):
    """interpret `qn` until its first undecidable comparison; return canonical (key, op) of that comparison"""
    W.reset()
    it = Interp(prog)
    seen = []

    def atoms(d, op):
        seen.append(canon_atom(d, type(op).__name__))
        return Truthy(d, op)
    old = CTX.atoms
    CTX.atoms = atoms
    try:
        try:
            it.run(qn, args, kw or {})
        except (Undecided, Raised):
            pass
    finally:
        CTX.atoms = old
    return seen[0] if seen else None


def d3(chk, prog):
    chk.clause("D3", "merge fast path tests (next start - cummax of ends) + bp > 0; flatten fast path tests it against 0")
    chk.rule("predicate-agreement", "the first data-dependent comparison of each function is extracted as a canonical atom  d (op) 0  over the "
             "symbols start[1:], end.cummax[:-1], bp; sibling functions must yield the same atom, and it must be the stated one")

    def table():
        rows = [Row({"chromosome": "chr1", "start": Term.sym(f"row{i}.start"), "end": Term.sym(f"row{i}.end")}) for i in range(3)]
        return Row({"start": Stub("start"), "end": Stub("end"), "empty": False, "chromosome": Stub("chromosome"),
                    "itertuples": lambda *a, **k: list(rows), "itertuples_rows": rows})          # (some rows: the table is not empty)
    bp = Term.sym("bp")

    def want(op, with_bp=True):
        W.sym_range.clear()
        g = t_sub(Term.sym("start[1:]"), Term.sym("end.cummax[:-1]"))
        return canon_atom(t_add(g, Term.sym("bp")) if with_bp else g, op)
    a_merge = first_atom(prog, "skgenome.merge.merge", [table(), Term.sym("bp")])
    a_flat = first_atom(prog, "skgenome.merge.flatten", [table()])
    w = want("Gt")
    fm, ff = prog.fn("skgenome.merge.merge"), prog.fn("skgenome.merge.flatten")
    if a_merge is None or a_flat is None:
        raise AnalysisError(f"C06-D3: no comparison atom extracted (merge={a_merge}, flatten={a_flat})")
    # (the grouping on the slow path -- a private helper, once compared here by name -- is decided with the whole of merge() / flatten() on literal tables in D3b)
    chk.decide(a_merge == w, "predicate-agreement", "merge() fast path: nothing to merge <=> start[1:] - end.cummax[:-1] + bp > 0 for every row", f"{fm.qn}::fast path", fm.loc(),
               f"merge() returns its input unchanged when {a_merge} holds for all rows; stated {w}: abutting rows must merge at bp=0, nested rows need the running maximum of the ends",
               witness=dict(fast_path=str(a_merge), want=str(w)))
    ok_flat = a_flat in (want("GtE", False), want("Gt", False))
    chk.decide(ok_flat, "predicate-agreement", "flatten() fast path: no overlap <=> start[1:] - end.cummax[:-1] >= 0", f"{ff.qn}::fast path", ff.loc(),
               f"flatten() fast path tests {a_flat}; stated: start[1:] - end.cummax[:-1] >= 0", witness=dict(got=str(a_flat)))


def lit_merge(rows, bp=0):
    """merge()'s contract on literal rows: per chromosome, a row joins the running group unless the gap to the furthest end so far
    exceeds -bp (bp = 0: overlapping or abutting rows fuse); chromosomes in first-appearance order"""
    out = []
    for c in dict.fromkeys(r[0] for r in rows):
        cur = None
        for _c, s, e in sorted(r for r in rows if r[0] == c):
            if cur and s - cur[2] <= -bp:
                cur[2] = max(cur[2], e)
            else:
                cur = [c, s, e]
                out.append(cur)
    return [tuple(r) for r in out]


def d1b(chk, prog):
    chk.clause("D1b", "subtract(): every row of the table minus the union of the other table's rows on its chromosome, in order (literal small tables; merge() and the private subtraction helper run as written)")
    fi = prog.fn("skgenome.subtract.subtract")
    tb = Table(chk, "subtraction", "subtract on literal tables: overlapping / nested / unsorted / abutting subtrahends, chromosomes missing on either side", fi.loc(), fi.qn)
    grid = [0, 4, 8, 12, 16] if chk.tier != "thorough" else [0, 2, 4, 8, 12, 14, 16]
    ivs = [(a, b) for a in grid for b in grid if a < b]
    tables = [[("a", 0, 16)], [("a", 4, 12)], [("a", 0, 8), ("a", 8, 16)], [("a", 0, 8), ("b", 4, 12)], [("b", 0, 16), ("a", 4, 12)]]
    others = [[]] + [[("a",) + i] for i in ivs] + [[("c",) + i] for i in ivs[:3]] + [[("a",) + i, ("a",) + j] for i in ivs for j in ivs] + [[("a",) + i, ("c", 0, 16)] for i in ivs]

    def mk(rows):
        df = DF({"chromosome": Vec([r[0] for r in rows], aligned=True), "start": Vec([r[1] for r in rows], aligned=True), "end": Vec([r[2] for r in rows], aligned=True)}, len(rows))
        df.exact = True
        return df
    bad, undecided, ran = [], [], 0
    for trows in tables:
        for orows in others:
            W.reset()
            model = Model()              # (merge() runs as written: D3b)

            def from_records(it, *a, **k):
                from ..absmodel import frame_from_records
                out = frame_from_records(it, list(a), dict(k))
                if isinstance(out, DF):
                    out.exact = True
                return out
            model.ext["pd.DataFrame.from_records"] = from_records
            it = Interp(prog, model)
            try:
                out = it.run(fi.qn, [mk(trows), mk(orows)])
            except Undecided as u:
                if "searchsorted on a literal column that is not sorted" in str(u):
                    # the subtrahend's rows may come in any order: a binary search over them as they are has no specified result
                    bad.append(dict(table=trows, other=orows, problem="the rows of the other table are bisected (searchsorted) while not in coordinate order: numpy leaves the result unspecified"))
                    ran += 1
                    continue
                undecided.append(f"{trows} - {orows}: {u}")
                continue
            except Raised as r:
                bad.append(dict(table=trows, other=orows, raised=str(r)[:100]))
                continue
            ran += 1
            got = list(zip(out.cols["chromosome"].v, out.cols["start"].v, out.cols["end"].v)) if isinstance(out, DF) and out.n else ([] if isinstance(out, DF) else repr(out))
            want = []
            for c in dict.fromkeys(r[0] for r in trows):
                for _c, s, e in [r for r in trows if r[0] == c]:
                    cur = s
                    for _oc, os_, oe in [m for m in lit_merge(orows) if m[0] == c]:
                        if oe <= cur or os_ >= e:
                            continue
                        if os_ > cur:
                            want.append((c, cur, os_))
                        cur = max(cur, oe)
                    if cur < e:
                        want.append((c, cur, e))
            if got != want:
                bad.append(dict(table=trows, other=orows, got=got, want=want))
    if undecided:
        tb.undecided.append(f"{len(undecided)} table pairs undecided, e.g. {undecided[0][:300]}")
    else:
        chk.floor("literal subtractions", ran, 500)
    tb.cell(not bad, dict(pairs=ran, counterexamples=bad[:4], n_counterexamples=len(bad)))
    tb.done("a.subtract(b) is not exactly the part of a outside the union of b's rows (per chromosome, rows kept in order)")


def lit_flatten(rows):
    """flatten()'s contract on literal rows: per chromosome, rows that overlap (share a base) are cut at every start / end among them; abutting rows stay apart"""
    out = []
    for c in dict.fromkeys(r[0] for r in rows):
        group, far = [], None
        def emit(group):
            if len(group) == 1:
                out.append(group[0])
                return
            cuts = sorted({x for r in group for x in (r[1], r[2])})
            for a_, b_ in zip(cuts, cuts[1:]):
                names = list(dict.fromkeys(r[3] for r in group if r[1] <= a_ and r[2] >= b_))
                out.append((c, a_, b_, ",".join(names)))
        for r in sorted((r for r in rows if r[0] == c), key=lambda r: (r[1], r[2])):
            if group and r[1] - far >= 0:
                emit(group)
                group, far = [], None
            group.append(r)
            far = r[2] if far is None else max(far, r[2])
        if group:
            emit(group)
    return out


def d3b(chk, prog):
    """merge() and flatten() interpreted whole on literal small tables -- fast path, sorting, grouping, squashing, re-ordering -- against the contract"""
    chk.clause("D3b", "merge / flatten on literal small tables (rows in any order): the result is the contract's -- nothing left to merge on the fast path, groups by the stated predicate on the slow one")
    grid = [0, 4, 8, 12] if chk.tier != "thorough" else [0, 3, 6, 9, 12]
    ivs = [(a, b) for a in grid for b in grid if a < b]
    rows1 = [(c, s, e) for c in ("a", "b") for s, e in ivs]
    tables = [list(t) for n in (1, 2, 3) for t in itertools.product(rows1, repeat=n)]
    if chk.tier != "thorough":
        tables = [t for i, t in enumerate(tables) if len(t) < 3 or i % 4 == 0]
    # gaps of -3 .. 3 bases next to a pair that does overlap (the slow path is taken): rows one base apart stay apart, rows overlapping by bp - 1 bases too
    fine = [(s_, e_) for s_ in range(0, 10) for e_ in range(s_ + 1, 11) if e_ - s_ <= 4]
    tables += [[("a", 0, 4), ("a", 2, 6), ("a",) + iv] for iv in fine] + [[("a",) + iv, ("a", 12, 16), ("a", 14, 18)] for iv in fine if iv[0] >= 6] + [[("a", 0, 4), ("b",) + iv, ("a", 3, 6)] for iv in fine[::5]]

    def mk(rows):
        df = DF({"chromosome": Vec([r[0] for r in rows], aligned=True), "start": Vec([r[1] for r in rows], aligned=True), "end": Vec([r[2] for r in rows], aligned=True),
                 "gene": Vec([f"g{i}" for i in range(len(rows))], aligned=True)}, len(rows))
        df.exact = True
        return df

    for qn, bps, label in (("skgenome.merge.merge", (0, 2), "merge"), ("skgenome.merge.flatten", (None,), "flatten")):
        fi = prog.fn(qn)
        tb = Table(chk, "fast-path", f"{label} on {len(tables)} literal tables of 1-3 rows on 2 chromosomes" + (", bp 0 and 2" if label == "merge" else "") + ": the rows (and merged names) of the contract", fi.loc(), fi.qn)
        bad, undecided, fast = [], [], 0
        for rows in tables:
            named = [r + (f"g{i}",) for i, r in enumerate(rows)]
            for bp in bps:
                W.reset()
                it = Interp(prog)
                df = mk(rows)
                try:
                    out = it.run(qn, [df] + ([bp] if bp is not None else []))
                except Raised as r:
                    bad.append(dict(table=rows, bp=bp, raised=str(r)[:120]))
                    continue
                except Undecided as u:
                    undecided.append(f"{rows} bp={bp}: {u}")
                    continue
                if not isinstance(out, DF) or not all(c in out.cols for c in ("chromosome", "start", "end", "gene")):
                    undecided.append(f"{rows} bp={bp}: returned {type(out).__name__}")
                    continue
                fast += out is df
                try:
                    got = [(out.cols["chromosome"].v[i], int(T(out.cols["start"].v[i]).cval()), int(T(out.cols["end"].v[i]).cval()), out.cols["gene"].v[i]) for i in range(len(out.cols["start"].v))]
                except Exception as e:
                    undecided.append(f"{rows} bp={bp}: result not literal ({e})")
                    continue
                if label == "merge":
                    # the contract of lit_merge, with the names of each group's rows in coordinate order
                    want = []
                    for c_ in dict.fromkeys(r[0] for r in named):
                        cur = None
                        for r in sorted((r for r in named if r[0] == c_), key=lambda r: (r[1], r[2])):
                            if cur and r[1] - cur[2] <= -bp:
                                cur[2] = max(cur[2], r[2])
                                cur[3].append(r[3])
                            else:
                                cur = [c_, r[1], r[2], [r[3]]]
                                want.append(cur)
                    want = [(c_, s_, e_, ",".join(dict.fromkeys(n_))) for c_, s_, e_, n_ in want]
                else:
                    want = lit_flatten(named)
                # (a table returned as it is keeps the caller's row order; otherwise chromosomes in sorted order, rows by position)
                ok = sorted(got) == sorted(want) if out is df else got == sorted(want, key=lambda r: (r[0], r[1], r[2]))
                if not ok:
                    bad.append(dict(table=rows, bp=bp, got=got, want=want, returned_unchanged=out is df))
        if undecided:
            raise AnalysisError(f"C06-D3b {label}: {len(undecided)} tables undecided, e.g. {undecided[0][:300]}")
        chk.floor(f"{label} fast path taken on literal tables", fast, 10)
        tb.cell(not bad, dict(tables=len(tables) * len(bps), fast_path_taken=fast, counterexamples=bad[:3], n_counterexamples=len(bad)))
        tb.done(f"{label}() does not return the contract's rows: rows of one chromosome that overlap" + (" / abut / lie within bp" if label == "merge" else "") + " are left apart, or rows that do not are joined / cut")


# ---------------------------------------------------------------------------------------------- D4
def d4(chk, prog):
    chk.clause("D4", "resize_ranges: start=max(start-bp,0), end=max(end+bp,0) (min chromosome size), rows with end-start<=0 dropped when shrinking, on a copy")
    fi = prog.fn("skgenome.gary.GenomicArray.resize_ranges")
    tb = Table(chk, "resize-bounds", "resize_ranges closed forms and drop rule", fi.loc(), fi.qn)
    for bp_pos, sizes in itertools.product(["neg", "zero", "pos"], [False, True]):
        W.reset()
        it = Interp(prog)
        s0, e0, s1, e1 = Term.sym("s0", 0, INF, True), Term.sym("e0", 0, INF, True), Term.sym("s1", 0, INF, True), Term.sym("e1", 0, INF, True)
        bp = OrderVal("bp", {"neg": -7, "zero": 0, "pos": 7}[bp_pos], [0])
        rows = [{"chromosome": "chr1", "start": s0, "end": e0, "gene": "a"}, {"chromosome": "chr2", "start": s1, "end": e1, "gene": "b"}]
        g = make_ga("GenomicArray", rows, {}, index="any")       # merged / filtered tables keep permuted or partial labels
        L1, L2 = Term.sym("L1", 0, INF, True), Term.sym("L2", 0, INF, True)
        cs = {"chr1": L1, "chr2": L2} if sizes else None
        asked = []

        def atoms(d, op, asked=asked):
            asked.append((d, type(op).__name__))
            return CTX.cls == 0                       # keep row 0, drop row 1
        old = CTX.atoms
        CTX.atoms = atoms
        try:
            out = tb.guard(lambda: it.run(fi.qn, [g, bp, cs]), f"bp {bp_pos} sizes={sizes}")
        finally:
            CTX.atoms = old
        if out is None:
            continue
        before = (repr(g.data.cols["start"].v), repr(g.data.cols["end"].v))
        for i, (s, e, L) in enumerate(((s0, e0, L1), (s1, e1, L2))):
            ws = f_max(t_sub(s, bp.sym), 0)
            we = f_max(t_add(e, bp.sym), 0)
            if sizes:
                ws, we = f_min(ws, L), f_min(we, L)
            gs, ge = out.data.cols["start"].v[i], out.data.cols["end"].v[i]
            tb.cell(same(gs, ws) and same(ge, we), dict(bp=bp_pos, chrom_sizes=sizes, row=i, start=repr(gs), want_start=repr(ws), end=repr(ge), want_end=repr(we)))
        keep = out.data.cols.get("__keep__")
        kept = [k is True for k in keep.v] if keep is not None else [True, True]
        if bp_pos == "neg":
            # the drop mask must be the sign of (new end - new start), strictly positive
            okmask = len(asked) == 2 and all(opn == "Gt" for _, opn in asked)
            for i, (d, opn) in enumerate(asked[:2]):
                wd = t_sub(T(out.data.cols["end"].v[i]), T(out.data.cols["start"].v[i]))
                okmask = okmask and same(d, wd)
            tb.cell(okmask and kept == [True, False], dict(bp=bp_pos, chrom_sizes=sizes, drop_rule=[f"{d} {o} 0" for d, o in asked], kept=kept,
                                                              want="kept <=> new end - new start > 0"))
        else:
            tb.cell(kept == [True, True] and not asked, dict(bp=bp_pos, chrom_sizes=sizes, kept=kept, want="no row dropped when not shrinking"))
        tb.cell(out.data is not g.data and same(g.data.cols["start"].v[0], s0) and same(g.data.cols["end"].v[1], e1),
                dict(bp=bp_pos, chrom_sizes=sizes, input_untouched=False))
    tb.done("resize_ranges does not move/clip both ends as stated or drops the wrong rows")


# ---------------------------------------------------------------------------------------------- D5
class Coord:
    """a coordinate  s + off  relative to the (symbolic) region start; `fragile`: obtained by truncating a float product whose exact
    value is an integer but whose factor (a float quotient) is not exactly representable -- IEEE rounding may yield off - 1"""

    def __init__(self, off, fragile=False):
        self.off, self.fragile = off, fragile

    def abs_binop(self, op, other, reflected):
        if isinstance(op, ast.Sub) and isinstance(other, Coord) and not reflected:
            if self.fragile or other.fragile:
                raise Undecided("span of fragile coordinates")
            return Span(self.off - other.off)
        if isinstance(op, (ast.Add, ast.Sub)) and isinstance(other, (int, FInt)) and not (reflected and isinstance(op, ast.Sub)):
            v = other.value if isinstance(other, FInt) else other
            fr = isinstance(other, FInt) and other.fragile
            return Coord(self.off + (v if isinstance(op, ast.Add) else -v), self.fragile or fr)
        raise Undecided(f"coordinate arithmetic {type(op).__name__} with {other!r}")

    def abs_compare(self, op, other, reflected):
        from ..absint import PYCMP
        if isinstance(other, Coord):
            return PYCMP[type(op)](other.off, self.off) if reflected else PYCMP[type(op)](self.off, other.off)
        raise Undecided("coordinate compared with a non-coordinate")

    def __repr__(self):
        return f"s+{self.off}{'?' if self.fragile else ''}"


class Span:
    def __init__(self, v):
        self.v = v

    def abs_binop(self, op, other, reflected):
        if isinstance(op, ast.Div) and not reflected and isinstance(other, (int, float, Fr)):
            return Quot(Fr(self.v) / Fr(str(other) if isinstance(other, float) else other))
        if isinstance(op, (ast.FloorDiv, ast.Mod)) and not reflected and isinstance(other, int) and not isinstance(other, bool) and other > 0 and isinstance(self.v, int):
            return self.v // other if isinstance(op, ast.FloorDiv) else self.v % other          # whole bases: an exact integer
        raise Undecided(f"span arithmetic {type(op).__name__}")

    def abs_compare(self, op, other, reflected):
        from ..absint import PYCMP
        o = Fr(str(other)) if isinstance(other, float) else other
        return PYCMP[type(op)](o, self.v) if reflected else PYCMP[type(op)](self.v, o)

    def __repr__(self):
        return f"span {self.v}"


class Quot:
    """a float quotient: exact rational value, and whether a binary float can hold it exactly"""

    def __init__(self, v):
        self.v = Fr(v)
        d = self.v.denominator
        self.inexact = d & (d - 1) != 0

    def abs_round(self, nd=None):
        return round(self.v)

    def abs_int(self):
        return int(self.v)

    def abs_binop(self, op, other, reflected):
        if isinstance(op, ast.Mult) and isinstance(other, int):
            return Prod(self.v * other, self.inexact)
        if isinstance(op, (ast.Add, ast.Sub)) and isinstance(other, (int, float, Fr)) and not isinstance(other, bool) and not (reflected and isinstance(op, ast.Sub)):
            o = Fr(str(other)) if isinstance(other, float) else Fr(other)
            v = self.v + o if isinstance(op, ast.Add) else self.v - o
            if self.inexact and v.denominator == 1:
                raise Undecided("a float sum whose exact value is an integer but whose summand is not exactly representable (truncation is fragile)")
            return Quot(v)
        raise Undecided(f"quotient arithmetic {type(op).__name__}")

    def abs_compare(self, op, other, reflected):
        # ordering against a literal number: by the exact value (a quotient that is not exactly representable sits within an ulp of it, so only equality is fragile)
        from ..absint import PYCMP
        if isinstance(other, Quot):
            o = other.v
        elif isinstance(other, (int, float, Fr)) and not isinstance(other, bool):
            o = Fr(str(other)) if isinstance(other, float) else Fr(other)
        else:
            raise Undecided(f"comparison of a quotient with {other!r}")
        if self.inexact and self.v == o:
            raise Undecided("comparison of a float quotient with the value it equals only on the reals")
        return PYCMP[type(op)](o, self.v) if reflected else PYCMP[type(op)](self.v, o)

    def __format__(self, spec):
        return format(float(self.v), spec)


class Prod:
    def __init__(self, v, inexact):
        self.v, self.inexact = v, inexact

    def abs_int(self):
        return FInt(int(self.v), self.inexact and self.v.denominator == 1)


class FInt:
    def __init__(self, value, fragile):
        self.value, self.fragile = value, fragile


def d5(chk, prog, spans):
    chk.clause("D5", "subdivide: pieces chain from row.start to row.end, count = int(round(span/avg)) or 1, regions below min_size skipped")
    fi = prog.fn("skgenome.subdivide.subdivide")
    tb = Table(chk, "subdivide-chaining", "subdivide pieces (symbolic start; spans giving 1..7 bins; float quotients tracked)", fi.loc(), fi.qn)

    def rows_of(out):
        """the rows of the table subdivide returns (the generator behind it is reached through it, whatever it is called)"""
        if not isinstance(out, DF):
            raise Undecided(f"subdivide returned {type(out).__name__}")
        n = len(out.cols["start"].v) if "start" in out.cols else 0
        return [Row({c: v.v[i] for c, v in out.cols.items() if not c.startswith("__")}) for i in range(n)]
    model = Model()
    model.prims["skgenome.merge.merge"] = lambda it, table, *a, **k: table          # backed by D1-D3 (merge is checked there)

    def b_divmod(a, b):
        # exact integer / rational division of a literal span
        if isinstance(a, Span) and isinstance(b, (int, float, Fr)) and not isinstance(b, bool):
            q, r = divmod(Fr(a.v), Fr(str(b)) if isinstance(b, float) else Fr(b))
            return int(q), (int(r) if r.denominator == 1 else r)
        return divmod(a, b)
    model.builtins["divmod"] = b_divmod
    for span, avg, min_size in spans:
        W.reset()
        it = Interp(prog, model)
        s, e = Coord(0), Coord(span)
        df = DF({"chromosome": Vec(["chr1"]), "start": Vec([s]), "end": Vec([e]), "gene": Vec(["G"])}, 1)
        out = tb.guard(lambda: rows_of(it.run(fi.qn, [df, avg, min_size, False])), f"span={span} avg={avg} min={min_size}")
        if out is None:
            continue
        pieces = [(r.start, r.end) for r in out]
        want_n = 0 if span < min_size else (int(round(Fr(span) / Fr(str(avg) if isinstance(avg, float) else avg))) or 1)
        ok = len(pieces) == want_n and all(isinstance(a, Coord) and isinstance(b, Coord) for a, b in pieces)
        why = ""
        if ok and pieces:
            ok = pieces[0][0].off == 0 and not pieces[0][0].fragile and pieces[-1][1].off == span
            if ok and pieces[-1][1].fragile:
                ok, why = False, ("the last piece's end is recomputed as start + int(n * (span / n)): span / n is not exactly representable as a float, so the product can "
                                  "round to just below span and the truncation loses the region's last base")
            ok = ok and all(a[1] is b[0] or (a[1].off == b[0].off and a[1].fragile == b[0].fragile) for a, b in zip(pieces, pieces[1:]))
            for a, b in pieces:
                lo = b.off - (1 if b.fragile else 0) - a.off
                hi = b.off - (a.off - (1 if a.fragile else 0))
                ok = ok and lo > 0 and abs(lo - Fr(span, want_n)) < 2 and abs(hi - Fr(span, want_n)) < 2 and abs((b.off - a.off) - Fr(span, want_n)) < 1
            ok = ok and all(r.gene == "G" and r.chromosome == "chr1" for r in out)
        tb.cell(ok, dict(span=span, avg=str(avg), min_size=min_size, pieces=[(repr(a), repr(b)) for a, b in pieces], want_count=want_n, why=why))
    # the size filter applies to *merged* regions: two abutting rows, each below min_size, merge into one region that is not
    W.reset()
    seen = {}

    def merging(it, table, *a, **k):
        keep = table.cols.get("__keep__")
        rows = [i for i in range(table.n) if keep is None or keep.v[i] is True]
        seen["rows_in"] = rows
        if not rows:
            return DF({c: Vec([]) for c in table.cols if not c.startswith("__")}, 0)
        return DF({"chromosome": Vec(["chr1"]), "start": Vec([table.cols["start"].v[rows[0]]]), "end": Vec([table.cols["end"].v[rows[-1]]]), "gene": Vec(["G"])}, 1)
    m2 = Model()
    m2.builtins["divmod"] = b_divmod
    m2.prims["skgenome.merge.merge"] = merging
    it = Interp(prog, m2)
    df = DF({"chromosome": Vec(["chr1", "chr1"]), "start": Vec([Coord(0), Coord(6)]), "end": Vec([Coord(6), Coord(12)]), "gene": Vec(["G", "G"])}, 2)
    out = tb.guard(lambda: rows_of(it.run(fi.qn, [df, 100, 10, False])), "abutting short rows")
    if out is not None:
        pieces = [(r.start, r.end) for r in out]
        tb.cell(len(pieces) == 1 and pieces[0][0].off == 0 and pieces[0][1].off == 12 and seen.get("rows_in") == [0, 1],
                dict(case="two abutting 6-base rows, min_size 10", rows_reaching_merge=seen.get("rows_in"), pieces=[(repr(a), repr(b)) for a, b in pieces],
                     want="one 12-base bin: the minimum size is tested on the merged region"))
    tb.done("subdivide pieces do not tile the region from start to end in equal consecutive bins")


def run(chk):
    prog = chk.prog
    chk.trust("Python grammar via ast", "pandas >= 3: pd.unique rejects list input; Series.clip / cummax semantics (absmodel.py)",
              "merge() returns a sorted, disjoint, non-nested table (its own predicate is checked in D3)")
    chk.assume("exact arithmetic over the rationals")
    # (an earlier D1 showed by reaching definitions that the subtrahend passes merge() before the private subtraction helper, whose edge arithmetic needs it sorted and
    #  non-nested; D1b decides the same on literal tables -- nested, overlapping, unsorted subtrahends -- with merge() and the helper running as written: retired)
    d1b(chk, prog)
    from . import C07
    C07.d6(chk, prog)            # subtraction / intersection are per chromosome: the pairing of by_shared_chroms (C07-D6 rule)
    C07.d7(chk, prog)            # ... and select, per range of the other table, exactly the overlapping rows (clipped in trim mode), nested rows and repeated starts included (C07-D7 rule)
    d2(chk, prog)
    d3b(chk, prog)
    d3(chk, prog)
    d4(chk, prog)
    chk.clause("D4b", "the interval operations keep no state between calls (C10-D4 shared-state rule over skgenome): resize_ranges(bp) after resize_ranges(bp, chrom_sizes) does not see the earlier sizes")
    from . import C10
    C10.shared_state(chk, prog, modules=("skgenome",))
    spans = [(10, 4, 6), (1000, 300, 400), (1000, 300, 0), (1000, 3000, 0), (100, 300, 0), (449, 300, 0), (450, 300, 0), (751, 300, 0), (1500, 300, 0), (1800, 300, 0),
             (299, 300, 300), (300, 300, 300), (301, 300, 300), (10, 300, 11), (7, 2, 0), (1798, 200 / 0.75, 0), (2000, 300, 0), (250, 100, 0), (350, 100, 0), (450, 100, 0)]
    if chk.tier == "thorough":
        spans += [(sp, av, mn) for sp in (1, 2, 5, 149, 150, 151, 600, 601, 899, 900, 1234, 2000) for av in (100, 267, 300) for mn in (0, 150, sp, sp + 1)]
    d5(chk, prog, spans)


_M = "skgenome/merge.py"
MUTANTS = [
    dict(name="seeded C06h: bin count by divmod, halves rounded up", file="skgenome/subdivide.py", old="            nbins = int(round(span / avg_size)) or 1", new="            nbins, remainder = divmod(span, avg_size)\n            nbins = (int(nbins) + int(2 * remainder >= avg_size)) or 1"),
    dict(name="twin: bin count by divmod, halves to even", expect="silent", file="skgenome/subdivide.py", old="            nbins = int(round(span / avg_size)) or 1", new="            nbins, remainder = divmod(span, avg_size)\n            nbins = int(nbins)\n            if 2 * remainder > avg_size or (2 * remainder == avg_size and nbins % 2 == 1):\n                nbins += 1\n            nbins = nbins or 1"),
    dict(name="seeded C12e: subtraction drops rows on chromosomes the subtrahend lacks", file="skgenome/subtract.py", old='by_ranges(other, table, "outer", True)', new='by_ranges(other, table, mode="outer", keep_empty=False)'),
    dict(name="seeded C12f: half quotients rounded up", file="skgenome/subdivide.py", old="            nbins = int(round(span / avg_size)) or 1", new="            nbins = max(1, int(span / avg_size + 0.5))"),
    dict(name="seeded C13f: abutting exclusions not fused and empty pieces kept", edits=[("skgenome/subtract.py", "    other = merge(other)\n", "    other = merge(other, bp=1)\n"), ("skgenome/subtract.py", "                if end > start:\n                    yield keeper._replace(start=start, end=end)\n                else:\n                    logging.debug(\"Discarding pair: (%d, %d)\", start, end)\n", "                yield keeper._replace(start=start, end=end)\n")]),
    dict(name="twin: abutting exclusions not fused, empty pieces still discarded", expect="silent", file="skgenome/subtract.py", old="    other = merge(other)\n", new="    other = merge(other, bp=1)\n"),
    # (the extra (end, end) pair is discarded by the `end > start` filter: equivalent)
    dict(name="twin: subtraction keeps the right edge when the exclusion reaches it", expect="silent", file="skgenome/subtract.py", old="            keep_right = keeper.end > rows_to_exclude.end.iat[-1]", new="            keep_right = keeper.end >= rows_to_exclude.end.iat[-1]"),
    dict(name="seeded C06c: merge fast path per chromosome, chromosome changes masked", file="skgenome/merge.py", old="""    gap_sizes = table.start.values[1:] - table.end.cummax().values[:-1]
    if (gap_sizes > -bp).all():
        return table
    if stranded:""", new="""    chroms = table.chromosome.values
    far_ends = table.groupby("chromosome", sort=False)["end"].cummax().values
    gap_sizes = table.start.values[1:] - far_ends[:-1]
    if (gap_sizes[chroms[1:] == chroms[:-1]] > -bp).all():
        return table
    if stranded:"""),
    dict(name="twin: merge fast path through np.all and a shifted comparison", expect="silent", file="skgenome/merge.py", old="    gap_sizes = table.start.values[1:] - table.end.cummax().values[:-1]\n    if (gap_sizes > -bp).all():\n        return table\n    if stranded:", new="    if np.all(table.start.values[1:] + bp > table.end.cummax().values[:-1]):\n        return table\n    if stranded:"),
    dict(name="flatten fast path ignores the last row", file="skgenome/merge.py", old="    if (table.start.values[1:] >= table.end.cummax().values[:-1]).all():", new="    if (table.start.values[1:-1] >= table.end.cummax().values[:-2]).all():"),
    dict(name="seeded C06d: chromosome sizes looked up into a fresh-index Series", file="skgenome/gary.py", old='            limits["upper"] = self.chromosome.map(chrom_sizes)\n', new='            sizes = pd.Series(chrom_sizes)\n            limits["upper"] = sizes[self.chromosome].reset_index(drop=True)\n'),
    dict(name="twin: chromosome sizes looked up into a plain array", expect="silent", file="skgenome/gary.py", old='            limits["upper"] = self.chromosome.map(chrom_sizes)\n', new='            sizes = pd.Series(chrom_sizes)\n            limits["upper"] = sizes[self.chromosome].values\n'),
    dict(name="regress: subtract without merging the subtrahend", file="skgenome/subtract.py", old="    other = merge(other)\n", new=""),
    dict(name="regress: list passed to combiner slot", file=_M, old="key: combine[key](pd.Series([getattr(r, key) for r in rows_in_play]))", new="key: combine[key]([getattr(r, key) for r in rows_in_play])"),
    dict(name="merge fast path >= instead of >", file=_M, old="    if (gap_sizes > -bp).all():\n        return table\n    if stranded", new="    if (gap_sizes >= -bp).all():\n        return table\n    if stranded"),
    dict(name="grouping predicate >=", file=_M, old="group_keys = np.r_[False, gap_sizes > (-bp)].cumsum()", new="group_keys = np.r_[False, gap_sizes >= (-bp)].cumsum()"),
    dict(name="grouping without cummax", file=_M, old="    gap_sizes = table.start.values[1:] - table.end.cummax().values[:-1]\n    group_keys", new="    gap_sizes = table.start.values[1:] - table.end.values[:-1]\n    group_keys"),
    dict(name="flatten fast path without cummax", file=_M, old="    if (table.start.values[1:] >= table.end.cummax().values[:-1]).all():", new="    if (table.start.values[1:] >= table.end.values[:-1]).all():"),
    dict(name="resize: end not clipped", file="skgenome/gary.py", old='            end=(table["end"] + bp).clip(**limits),', new='            end=(table["end"] + bp),'),
    dict(name="resize: drop rule >= 0", file="skgenome/gary.py", old='            ok_size = table["end"] - table["start"] > 0', new='            ok_size = table["end"] - table["start"] >= 0'),
    dict(name="resize: start moved the wrong way", file="skgenome/gary.py", old='            start=(table["start"] - bp).clip(**limits),', new='            start=(table["start"] + bp).clip(**limits),'),
    dict(name="subdivide: bin_start not advanced", file="skgenome/subdivide.py", old="                    bin_start = bin_end\n", new=""),
    dict(name="subdivide: min_size strict", file="skgenome/subdivide.py", old="        if span >= min_size:", new="        if span > min_size:"),
    dict(name="subdivide: floor instead of round", file="skgenome/subdivide.py", old="            nbins = int(round(span / avg_size)) or 1", new="            nbins = int(span / avg_size) or 1"),
    dict(name="subdivide: last piece end lost", file="skgenome/subdivide.py", old="                yield row._replace(start=bin_start)\n", new="                yield row._replace(start=bin_start, end=bin_end)\n"),
    dict(name="twin: merge fast path operands swapped", file=_M, old="    if (gap_sizes > -bp).all():\n        return table\n    if stranded", new="    if (-bp < gap_sizes).all():\n        return table\n    if stranded", expect="silent"),
    dict(name="twin: subtract merges through a local", file="skgenome/subtract.py", old="    other = merge(other)\n", new="    merged_other = merge(other)\n    other = merged_other\n", expect="silent"),
    dict(name="twin: np.asarray at slot", file=_M, old="key: combine[key](pd.Series([getattr(r, key) for r in rows_in_play]))", new="key: combine[key](np.asarray([getattr(r, key) for r in rows_in_play]))", expect="silent"),
]
