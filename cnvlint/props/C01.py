"""C01 -- clonal calls invert the purity/ploidy mixing model; cn is an integer >= 0."""
import ast
import itertools
from fractions import Fraction as Fr

from ..abstools import *
from ..core import AnalysisError, own_nodes, norm
from .. import roles

LEVEL_TEXT = ('static analysis by finite-domain abstract interpretation of call.py / cnary.py on the real ASTs: (D1) absolute_clonal (unrounded) reduces '
              'to n under the mixing model as an exact rational identity and to r*2^v without purity, absolute_pure to r*2^v, on one row per class (public functions; the private scalar helpers are reached through them); (D2) the reference / germline copy table '
              'over ploidy 1..6 x reference sex x sample sex x naming x PAR genome x chromosome class equals the stated one, '
              'and the PAR filters, interpreted on literal bins around every PAR1 / PAR2 boundary of both sex chromosomes for '
              'each genome build and naming, flag exactly the bins of their own chromosome lying wholly inside its own PAR entries; (D3) the '
              'rescaled log2 is log2(max(n/ploidy,0.001)) + 1 exactly on the classes with r = ploidy//2; (D4) the value stored in `cn` by do_call'
              ' is round()ed, integer and has interval lower bound >= 0 for every real log2 and purity in (0,1], and without purity it is '
              'round(r*2^log2) row by row also on a literal table whose chromosomes are interleaved; (D6) the stated sample sex always wins over '
              'the inferred one in verify_sample_sex (C15 rule); (D5) sex / PAR / ploidy / purity flags reach same-role parameters at every call '
              'site. The call tables also come without any X row and with Y rows only (chr-named), and a `.loc` store keyed by the labels of '
              'masked rows (index[mask]) on a table whose labels may repeat is a violation. (D4d) do_call called five times in one interpreter '
              "with ploidy / reference sex changing between calls: each result is the oracle's for its own arguments (parameter defaults are "
              'evaluated once per process, so a mutable default or module-level memo shows); casts to fixed-width integer dtypes wrap unless the '
              "value's interval fits. (CLI) the `call` command line(s), through a model of argparse built from the declarations in commands.py "
              'and the real _cmd_ body interpreted with readers, library step and writers stubbed: method, ploidy, purity, reference sex, stated '
              'sample sex (verified only when purity < 1), PAR genome, filters and thresholds reach do_call as given, defaults included. Exact '
              'over the rationals; IEEE rounding error is not modelled.')
TECHNIQUE = "abstract interpretation over finite row-class / flag domains with exact rational terms and intervals; role-flow lint"

GETDF = "cnvlib.call.get_as_dframe_and_set_reference_and_expect_copies"


def purity_val():
    p = OrderVal("purity", Fr(1, 2), [0, 1], lo=0.0, hi=1.0)
    W.positive.add(p.sym.n.key())
    return p


def d1(chk, prog, ploidies=(2, 3)):
    chk.clause("D1", "inversion identity at the public functions: absolute_clonal == n (unrounded) under 2^v = (p n + (1-p) x)/r, == r 2^v when purity is 1 / 1.0 / None; "
                     "absolute_pure == r 2^v")
    # decided on the public functions (an earlier version interpreted the private scalar helpers by name; a rename, merge or re-signing of those is no change
    # of behaviour): one row per class, log2 a symbol whose 2^v is *defined* as the mixture, the unrounded result compared with n
    model = par_model()
    fi = prog.fn("cnvlib.call.absolute_clonal")
    tb = Table(chk, "inversion-identity", "absolute_clonal (unrounded) on one row per class x ploidy x flags", fi.loc(), fi.qn)
    for P, hap, fem, par in itertools.product(ploidies, [False, True], [False, True], [None, "grch38"]):
        classes = [c for c in CLS5 if ref_exp_oracle(c, P, hap, fem, par)[0] != 0]
        for label, mk in (("0 < purity < 1", purity_val), ("purity == 1", lambda: 1), ("purity == 1.0", lambda: Fr(1)), ("purity None", lambda: None)):
            W.reset()
            it = Interp(prog, model)
            p = mk()
            rows, want = [], []
            for c in classes:
                r, x = ref_exp_oracle(c, P, hap, fem, par)
                n_, v = Term.sym(f"n_{c}", 0, INF, True), Term.sym(f"v_{c}")
                if isinstance(p, OrderVal):
                    W.exp2_subst[v.key()] = t_div(t_add(t_mul(p.sym, n_), t_mul(t_sub(Term.const(1), p.sym), T(x))), T(r))
                    want.append(n_)
                else:
                    want.append(t_mul(T(r), f_exp2(v)))
                rows.append({"chromosome": chrom(c, "chr"), "start": Term.sym("s"), "end": Term.sym("e"), "gene": "g", "log2": v})
            g = make_ga("CopyNumArray", rows, {"_classes": classes, "sample_id": "S"}, index="any")
            out = tb.guard(lambda: it.run(fi.qn, [g, P, p, hap, par, fem]), f"P={P} {label}")
            if out is None:
                continue
            vals = list(out.v) if isinstance(out, Vec) else None
            for i, c in enumerate(classes):
                got = vals[i] if vals is not None and len(vals) == len(classes) else None
                tb.cell(got is not None and same(got, want[i]), dict(branch=label, ploidy=P, hap=hap, fem=fem, par=par, cls=c, got=repr(got), want=repr(want[i])))
    tb.done("purity inversion does not reduce to the mixing model", sample=dict(clause="D1", mix="2^v := (p*n + (1-p)*x)/r", result="n"))
    fp = prog.fn("cnvlib.call.absolute_pure")
    tb2 = Table(chk, "inversion-identity", "absolute_pure == r 2^v on {auto, X, Y} x ploidy x reference sex x naming", fp.loc(), fp.qn)
    # (ploidy 1 too: a haploid genome has 1 // 2 = 0 reference copies of Y, and of X under a male reference -- the pure path must answer 0 there, not clamp to 1)
    for P, hap, style in itertools.product((1,) + tuple(p_ for p_ in ploidies if p_ != 1), [False, True], ["", "chr"]):
        W.reset()
        it = Interp(prog, model)
        cl = ["auto", "x", "auto", "y", "x"]
        rows = [{"chromosome": chrom(c, style), "start": Term.sym("s"), "end": Term.sym("e"), "gene": "g", "log2": Term.sym(f"v_{c}_{i}")} for i, c in enumerate(cl)]
        g = make_ga("CopyNumArray", rows, {"_classes": cl, "sample_id": "S"}, index="any", exact=True)
        out = tb2.guard(lambda: it.run(fp.qn, [g, P, hap]), f"P={P}")
        if out is None:
            continue
        vals = list(out.v) if isinstance(out, Vec) else None
        for i, c in enumerate(cl):
            want = t_mul(T(ref_exp_oracle(c, P, hap, True, None)[0]), f_exp2(Term.sym(f"v_{c}_{i}")))
            got = vals[i] if vals is not None and len(vals) == len(cl) else None
            tb2.cell(got is not None and same(got, want), dict(ploidy=P, hap=hap, naming=style or "bare", row=i, cls=c, got=repr(got), want=repr(want)))
    tb2.done("pure-path absolute copies are not reference copies x 2^log2 (reference copies disagree with the table on {auto, X, Y})")


def d2(chk, prog, ploidies):
    chk.clause("D2", "reference / germline copies table; PAR filters read their own keys")
    W.reset()
    it = Interp(prog, par_model())
    fi = prog.fn(GETDF)
    tb = Table(chk, "copies-table", "reference/expect copies (row classes x flags)", fi.loc(), fi.qn)
    # (tables holding only some of the classes -- one chromosome called at a time, a panel whose only Y probes lie in a PAR: a class's copies do not depend on
    #  which other classes are present)
    subsets = [CLS5, ("pary",), ("auto", "pary"), ("parx",), ("y", "auto"), ("x",)]
    for P, hap, fem, par, style, classes in itertools.product(ploidies, [False, True], [False, True], [None, "grch37", "grch38"], ["", "chr"], subsets):
        if classes is not CLS5 and (P not in (2, 3) or style == "" or par == "grch37"):
            continue
        df = tb.guard(lambda: it.run(GETDF, [cna(list(classes), style), P, hap, par, fem]), f"P={P} hap={hap} fem={fem} par={par} classes={classes}")
        if df is None:
            continue
        for i, c in enumerate(classes):
            got = (df.cols["reference"].v[i], df.cols["expect"].v[i])
            want = ref_exp_oracle(c, P, hap, fem, par)
            tb.cell(same(got[0], want[0]) and same(got[1], want[1]),
                    dict(ploidy=P, haploid_x_reference=hap, sample_female=fem, par_genome=par, naming=style or "bare", cls=c, table=list(classes),
                         got=dict(reference=repr(got[0]), expect=repr(got[1])), want=dict(reference=want[0], expect=want[1])))
    tb.done("reference/germline copy numbers differ from the stated table",
            sample=dict(clause="D2", cell=dict(ploidy=2, hap=True, fem=False, par="grch38", cls="parx"), reference=2, expect=2))
    # wrappers: absolute_expect / absolute_reference return the right column
    tbw = Table(chk, "copies-table", "absolute_expect / absolute_reference select the stated column", fi.loc(), "cnvlib.call.absolute_expect|absolute_reference")
    for P, flag, par in itertools.product([2, 3], [False, True], [None, "grch38"]):
        e = tbw.guard(lambda: it.run("cnvlib.call.absolute_expect", [cna(CLS5, "chr"), P, par, flag]), "absolute_expect")
        r = tbw.guard(lambda: it.run("cnvlib.call.absolute_reference", [cna(CLS5, "chr"), P, par, flag]), "absolute_reference")
        for i, c in enumerate(CLS5):
            if e is not None:
                tbw.cell(same(e.v[i], ref_exp_oracle(c, P, True, flag, par)[1]), dict(fn="absolute_expect", ploidy=P, fem=flag, par=par, cls=c, got=repr(e.v[i])))
            if r is not None:
                tbw.cell(same(r.v[i], ref_exp_oracle(c, P, flag, True, par)[0]), dict(fn="absolute_reference", ploidy=P, hap=flag, par=par, cls=c, got=repr(r.v[i])))
    tbw.done("absolute_expect/absolute_reference return the wrong column")
    par_key_label(chk, prog)


def par_key_label(chk, prog):
    """the summary parx_filter|->PAR-X class is backed by this: each PAR filter compares the chromosome with the label of its
    own sex chromosome and reads PSEUDO_AUTSOMAL_REGIONS keys ending in that letter, with start >= / end <= region bounds"""
    # interpreted on literal bins placed around every boundary of the PAR table, for each genome build: a bin is PAR-X (PAR-Y) iff it lies on X (Y)
    # and wholly inside PAR1 or PAR2 of that chromosome's own entry (an earlier version matched the key strings in the source)
    tblv = ast.literal_eval(prog.module("cnvlib.params").assigns["PSEUDO_AUTSOMAL_REGIONS"])
    for meth, letter in (("parx_filter", "X"), ("pary_filter", "Y")):
        fi = prog.fn(f"cnvlib.cnary.CopyNumArray.{meth}")
        tb = Table(chk, "par-key-label", f"{meth} on literal bins around the PAR1 / PAR2 boundaries of chr{letter} (and the same coordinates on the other sex chromosome and an autosome), per genome build and naming", fi.loc(), fi.qn + "::intervals")
        for build, style in itertools.product(sorted(tblv), ("chr", "")):
            W.reset()
            regs = [tuple(tblv[build][f"PAR1{letter}"]), tuple(tblv[build][f"PAR2{letter}"])]
            other = [tuple(tblv[build][f"PAR1{'Y' if letter == 'X' else 'X'}"]), tuple(tblv[build][f"PAR2{'Y' if letter == 'X' else 'X'}"])]
            spans = []
            for a, b in regs + other:
                mid = (a + b) // 2
                spans += [(a - 2000, a - 1000), (a - 500, a + 500), (a, a + 1000), (mid, mid + 1000), (b - 1000, b), (b - 500, b + 500), (b, b + 1000), (a - 1000, b + 1000)]
            rows, want = [], []
            for c in (letter, "Y" if letter == "X" else "X", "1"):
                for a, b in spans:
                    rows.append(dict(chromosome=style + c, start=a, end=b, gene="g", log2=0))
                    want.append(c == letter and any(a >= ra and b <= rb for ra, rb in regs))
            g = make_ga("CopyNumArray", rows, {"sample_id": "S"}, index="any", exact=True)
            it = Interp(prog)
            out = tb.guard(lambda: it.run_method(g, meth, [build.upper() if style else build]), f"{build} naming={style or 'bare'}")
            if out is None:
                continue
            got = list(out.v) if isinstance(out, Vec) else None
            bad = [(rows[i]["chromosome"], rows[i]["start"], rows[i]["end"], got[i], want[i]) for i in range(len(rows)) if got is not None and got[i] is not want[i]] if got is not None and len(got) == len(want) else "wrong shape"
            tb.cell(bad == [], dict(genome=build, naming=style or "bare", regions=regs, mismatches=bad[:6] if isinstance(bad, list) else bad))
        tb.done(f"{meth} does not flag exactly the chr{letter} bins lying wholly inside PAR1 / PAR2 of chr{letter} (own table entry, both bounds)")
    # the table itself: every genome build defines the four keys, start < end
    params = prog.module("cnvlib.params")
    tblexpr = params.assigns.get("PSEUDO_AUTSOMAL_REGIONS")
    if tblexpr is None:
        raise AnalysisError("params.PSEUDO_AUTSOMAL_REGIONS vanished")
    tbl = ast.literal_eval(tblexpr)
    ok = all(set(v) == {"PAR1X", "PAR2X", "PAR1Y", "PAR2Y"} and all(s < e for s, e in v.values()) for v in tbl.values()) and {"grch37", "grch38"} <= set(tbl)
    chk.decide(ok, "par-key-label", "params.PSEUDO_AUTSOMAL_REGIONS has PAR1/2 X/Y with start<end for grch37, grch38",
               "cnvlib.params::PSEUDO_AUTSOMAL_REGIONS", "cnvlib/params.py", "PAR table malformed")


def d3(chk, prog):
    chk.clause("D3", "log2_ratios = log2(max(n/ploidy, 0.001)) + 1 exactly where r = ploidy//2")
    W.reset()
    it = Interp(prog, par_model())
    fi = prog.fn("cnvlib.call.log2_ratios")
    tb = Table(chk, "rescaled-log2", "log2_ratios shift mask <-> r = ploidy//2", fi.loc(), fi.qn)
    for P, hap, par in itertools.product([2, 4, 6], [False, True], [None, "grch37", "grch38"]):
        g = cna(CLS5, "chr")
        absl = Vec(Term.sym(f"a_{c}", 0, INF) for c in CLS5)
        out = tb.guard(lambda: it.run(fi.qn, [g, absl, P, hap, par]), f"P={P} hap={hap} par={par}")
        if out is None:
            continue
        for i, c in enumerate(CLS5):
            if c == "pary" and par:
                continue                       # r = 0: the property states nothing (don't-care cell)
            base = f_log2(f_max(t_div(absl.v[i], T(P)), Fr(1, 1000)))
            r = ref_exp_oracle(c, P, hap, True, par)[0]
            want = t_add(base, Term.const(1)) if r == P // 2 else base
            tb.cell(same(out.v[i], want), dict(ploidy=P, hap=hap, par=par, cls=c, got=repr(out.v[i]), want=repr(want)))
    tb.done("rescaled log2 is not relative to the reference copies of the class")


def d4(chk, prog, ploidies):
    chk.clause("D4", "value stored to `cn` by do_call: nearest integer, >= 0 for all real log2 and purity in (0,1]")
    fi = prog.fn("cnvlib.call.do_call")
    model = par_model()
    # (a) clonal + purity < 1, arbitrary real log2
    tb = Table(chk, "cn-integer-nonneg", "do_call(clonal, purity<1): cn integer and >= 0", fi.loc(), fi.qn + "::cn (purity-adjusted)")
    for P, hap, fem, par in itertools.product(ploidies, [False, True], [False, True], [None, "grch38"]):
        W.reset()
        it = Interp(prog, model)
        rows = [{"chromosome": chrom(c, "chr"), "start": Term.sym("s"), "end": Term.sym("e"), "gene": "g", "log2": Term.sym(f"v_{c}")} for c in CLS5]
        g = make_ga("CopyNumArray", rows, {"_classes": CLS5, "sample_id": "S"}, index="any")
        out = tb.guard(lambda: it.run(fi.qn, [g, None, "clonal", P, purity_val(), hap, fem, par, None]), f"P={P}")
        if out is None:
            continue
        for i, c in enumerate(CLS5):
            t = T(out.data.cols["cn"].v[i])
            tb.cell(t.lo >= 0 and t.integer, dict(ploidy=P, hap=hap, fem=fem, par=par, cls=c, cn=repr(t), interval=[t.lo, t.hi], integer=t.integer,
                                                  example="purity=0.5, log2=-5 gives a negative copy number" if t.lo < 0 else ""))
    tb.done("a purity-adjusted copy number can be negative or non-integer")
    # (b) under the mixing model the reported cn is exactly n; log2 is rewritten relative to the reference
    tb2 = Table(chk, "cn-integer-nonneg", "do_call(clonal, purity<1) under the mixing model reports cn == n", fi.loc(), fi.qn + "::cn (model)")
    # (tables without any X row, or with Y rows only: one chromosome called at a time, a panel without X probes)
    for P, hap, fem, par, subset in itertools.product(ploidies, [False, True], [False, True], [None, "grch38"], [CLS5, ("auto", "y"), ("y",), ("auto", "x")]):
        W.reset()
        it = Interp(prog, model)
        p = purity_val()
        rows, ns = [], []
        classes = [c for c in subset if ref_exp_oracle(c, P, hap, fem, par)[0] != 0]          # r = 0 rows (PAR-Y; a haploid chromosome at ploidy 1) cannot satisfy the premise
        if not classes:
            continue
        for c in classes:
            r, x = ref_exp_oracle(c, P, hap, fem, par)
            n_ = Term.sym(f"n_{c}", 0, INF, True)
            v = Term.sym(f"v_{c}")
            W.exp2_subst[v.key()] = t_div(t_add(t_mul(p.sym, n_), t_mul(t_sub(Term.const(1), p.sym), T(x))), T(r))
            ns.append(n_)
            rows.append({"chromosome": chrom(c, "chr"), "start": Term.sym("s"), "end": Term.sym("e"), "gene": "g", "log2": v})
        g = make_ga("CopyNumArray", rows, {"_classes": classes, "sample_id": "S"}, index="any")
        out = tb2.guard(lambda: it.run(fi.qn, [g, None, "clonal", P, p, hap, fem, par, None]), f"P={P}")
        if out is None:
            continue
        for i, c in enumerate(classes):
            got = out.data.cols["cn"].v[i]
            tb2.cell(same(got, ns[i]), dict(ploidy=P, hap=hap, fem=fem, par=par, cls=c, table=list(classes), cn=repr(got), want="n"))
            if P % 2 == 0:
                r = ref_exp_oracle(c, P, hap, fem, par)[0]
                base = f_log2(f_max(t_div(ns[i], T(P)), Fr(1, 1000)))
                want = t_add(base, Term.const(1)) if r == P // 2 else base
                gl = out.data.cols["log2"].v[i]
                tb2.cell(same(gl, want), dict(ploidy=P, hap=hap, fem=fem, par=par, cls=c, log2=repr(gl), want=repr(want)))
    tb2.done("clonal call does not recover n from a log2 generated by the mixing model")
    # (c) without purity: nearest integer to r*2^v
    tb3 = Table(chk, "cn-integer-nonneg", "do_call(clonal, no purity): cn == round(r*2^v)", fi.loc(), fi.qn + "::cn (pure)")
    for P, hap, style, pur, layout in itertools.product(ploidies, [False, True], ["", "chr"], [None, 1], ["classes", "interleaved rows", "no X row", "Y rows only"]):
        W.reset()
        it = Interp(prog, model)
        # second layout: literally these five rows, a chromosome's rows not adjacent (tables sorted by something else, concatenated batches)
        cl = {"classes": ["auto", "x", "y"], "interleaved rows": ["auto", "x", "auto", "y", "x"], "no X row": ["auto", "y", "auto"], "Y rows only": ["y", "y"]}[layout]
        rows = [{"chromosome": chrom(c, style), "start": Term.sym("s"), "end": Term.sym("e"), "gene": "g", "log2": Term.sym(f"v_{c}_{i}")} for i, c in enumerate(cl)]
        g = make_ga("CopyNumArray", rows, {"_classes": cl, "sample_id": "S"}, index="any", exact=layout != "classes")
        pv = pur
        out = tb3.guard(lambda: it.run(fi.qn, [g, None, "clonal", P, pv, hap, False, None, None]), f"P={P} {layout}")
        if out is None:
            continue
        for i, c in enumerate(cl):
            r = ref_exp_oracle(c, P, hap, True, None)[0]
            want = f_round(t_mul(T(r), f_exp2(Term.sym(f"v_{c}_{i}"))))
            got = out.data.cols["cn"].v[i]
            t = T(got)
            tb3.cell(same(got, want) and t.integer and t.lo >= 0, dict(ploidy=P, hap=hap, naming=style or "bare", purity=pur, layout=layout, row=i, cls=c, cn=repr(got), want=repr(want)))
    tb3.done("pure clonal call is not the nearest integer to r*2^log2")
    # (d) within one process: a call's result does not depend on the calls made before it (one interpreter, ploidy / reference sex changing between calls)
    tb4 = Table(chk, "cn-integer-nonneg", "do_call(clonal, no purity) called repeatedly in one process (ploidy 2, 4, 2 with a male reference, 3, 2): each call == round(r*2^v) for its own arguments", fi.loc(), fi.qn + "::cn (pure, repeated calls)")
    W.reset()
    it = Interp(prog, model)
    for step, (P, hap) in enumerate([(2, False), (4, False), (2, True), (3, False), (2, False)]):
        cl = ["auto", "x", "y"]
        rows = [{"chromosome": chrom(c, "chr"), "start": Term.sym("s"), "end": Term.sym("e"), "gene": "g", "log2": Term.sym(f"v_{c}_{i}")} for i, c in enumerate(cl)]
        g = make_ga("CopyNumArray", rows, {"_classes": cl, "sample_id": "S"}, index="any")
        out = tb4.guard(lambda: it.run(fi.qn, [g, None, "clonal", P, None, hap, False, None, None]), f"call {step + 1}: P={P}")
        if out is None:
            continue
        for i, c in enumerate(cl):
            r = ref_exp_oracle(c, P, hap, True, None)[0]
            want = f_round(t_mul(T(r), f_exp2(Term.sym(f"v_{c}_{i}"))))
            got = out.data.cols["cn"].v[i]
            tb4.cell(same(got, want), dict(call=step + 1, ploidy=P, hap=hap, cls=c, cn=repr(got), want=repr(want)))
    tb4.done("a pure clonal call depends on the calls made before it in the same process (state kept between calls)")


def d5(chk, prog):
    chk.clause("D5", "role-flow of sex / PAR / ploidy / purity flags through the calling functions")
    roles.check(chk, prog, modules=("cnvlib.call", "cnvlib.export", "cnvlib.commands", "cnvlib.cnary", "cnvlib.segmentation", "cnvlib.segmentation.hmm"),
                roles_of_interest=("REF_HAPLOID_X", "SAMPLE_FEMALE", "PAR_GENOME", "PLOIDY", "PURITY"), floor=25,
                callee_modules=("cnvlib.call", "cnvlib.cnary"))


def run(chk):
    prog = chk.prog
    chk.trust("Python grammar via ast", "numpy element-wise semantics of log2/maximum/round/astype, boolean-mask stores (absmodel.py)",
              "oracle: Appendix A table r/x per chromosome class; mixing model 2^v = (p n + (1-p) x)/r")
    chk.assume("row-wise parametricity: the calling functions touch their table only through row-wise operations (enforced: any "
               "row-mixing operation yields an opaque value)", "exact arithmetic over the rationals (IEEE rounding not modelled)")
    chk.rule("copies-table", "abstractly interpret the function on one representative row per chromosome class for every flag combination; compare with Appendix A")
    ploidies = [1, 2, 3, 4] if chk.tier == "quick" else [1, 2, 3, 4, 5, 6]
    d1(chk, prog)
    d2(chk, prog, [1, 2, 3, 4, 5, 6])
    d3(chk, prog)
    d4(chk, prog, [2, 3] if chk.tier == "quick" else [1, 2, 3, 4, 5, 6])
    d5(chk, prog)
    chk.clause("D6", "the stated sample sex reaches the computation: verify_sample_sex (C15 rule)")
    from . import C15
    C15.d3c_stated_sex(chk, prog)
    C15.sex_labels(chk, prog)       # the names under which the X / Y rows are found (C15 rule)
    chk.clause("STATE", "a call's result does not depend on the tables handled before it in the process: no class-level / module-level container written by the table classes or the calling code (C10-D4 rule)")
    from . import C10
    C10.shared_state(chk, prog, modules=("skgenome.gary", "cnvlib.cnary", "cnvlib.call", "cnvlib.segfilters"))
    chk.clause("D7", "the `call` command line: every option reaches do_call (and the centring / variant / sex steps before it) as given")
    from .. import cliglue
    cliglue.check_call(chk, prog)


_C = "cnvlib/call.py"
MUTANTS = [
    dict(name="cli: call passes the reference flag as the sample sex", file="cnvlib/commands.py", old="        args.male_reference,\n        is_sample_female,\n        args.diploid_parx_genome,\n        args.filters,\n        args.thresholds,", new="        args.male_reference,\n        args.male_reference,\n        args.diploid_parx_genome,\n        args.filters,\n        args.thresholds,"),
    dict(name="cli: call --purity declared as int", file="cnvlib/commands.py", old='P_call.add_argument(\n    "--purity",\n    type=float,', new='P_call.add_argument(\n    "--purity",\n    type=int,'),
    dict(name="twin: call passes ploidy and purity by keyword", expect="silent", file="cnvlib/commands.py", old="        args.method,\n        args.ploidy,\n        args.purity,\n        args.male_reference,\n        is_sample_female,\n        args.diploid_parx_genome,\n        args.filters,\n        args.thresholds,\n    )", new="        args.method,\n        ploidy=args.ploidy,\n        purity=args.purity,\n        is_haploid_x_reference=args.male_reference,\n        is_sample_female=is_sample_female,\n        diploid_parx_genome=args.diploid_parx_genome,\n        filters=args.filters,\n        thresholds=args.thresholds,\n    )"),
    dict(name="twin: absolute_pure as a comprehension", expect="silent", file="cnvlib/call.py", old="""    absolutes = np.zeros(len(cnarr), dtype=np.float64)
    for i, row in enumerate(cnarr):
        ref_copies = _reference_copies_pure(row.chromosome, ploidy, is_haploid_x_reference)
        absolutes[i] = _log2_ratio_to_absolute_pure(row.log2, ref_copies)
    return absolutes
""", new="""    return np.array([_log2_ratio_to_absolute_pure(row.log2, _reference_copies_pure(row.chromosome, ploidy, is_haploid_x_reference)) for row in cnarr], dtype=np.float64)
"""),
    dict(name="seeded C01d: absolute_pure converts by chromosome into contiguous slices", file="cnvlib/call.py", old="""    for i, row in enumerate(cnarr):
        ref_copies = _reference_copies_pure(row.chromosome, ploidy, is_haploid_x_reference)
        absolutes[i] = _log2_ratio_to_absolute_pure(row.log2, ref_copies)
""", new="""    i = 0
    for chrom, subarr in cnarr.by_chromosome():
        ref_copies = _reference_copies_pure(chrom, ploidy, is_haploid_x_reference)
        j = i + len(subarr)
        absolutes[i:j] = _log2_ratio_to_absolute_pure(subarr["log2"].values, ref_copies)
        i = j
"""),
    dict(name="swap female/male expect branch", file=_C, old="        ploidy if is_sample_female else ploidy // 2\n", new="        ploidy // 2 if is_sample_female else ploidy\n"),
    dict(name="Y reference ploidy instead of ploidy//2", file=_C, old='df.loc[cnarr.chr_y_filter(diploid_parx_genome), "reference"] = ploidy // 2', new='df.loc[cnarr.chr_y_filter(diploid_parx_genome), "reference"] = ploidy'),
    dict(name="flip sign in purity formula", file=_C, old="(ref_copies * 2**log2_ratio - expect_copies * (1 - purity)) / purity", new="(ref_copies * 2**log2_ratio + expect_copies * (1 - purity)) / purity"),
    dict(name="drop (1 - purity)", file=_C, old="expect_copies * (1 - purity)) / purity", new="expect_copies * purity) / purity"),
    dict(name="delete .round()", file=_C, old='outarr["cn"] = absolutes.round().astype("int")', new='outarr["cn"] = absolutes.astype("int")'),
    dict(name="drop the non-negativity floor", file=_C, old="        absolutes = np.maximum(absolutes, 0)\n", new=""),
    dict(name="drop += 1.0 on Y in log2_ratios", file=_C, old="    ratios[(cnarr.chr_y_filter(diploid_parx_genome)).values] += 1.0\n", new=""),
    dict(name="pary_filter reads PAR1X", file="cnvlib/cnary.py", old='params.PSEUDO_AUTSOMAL_REGIONS[genome_build]["PAR1Y"]', new='params.PSEUDO_AUTSOMAL_REGIONS[genome_build]["PAR1X"]'),
    dict(name="swap flag arguments at absolute_clonal call", file=_C, old="outarr, ploidy, purity, is_haploid_x_reference, diploid_parx_genome, is_sample_female\n", new="outarr, ploidy, purity, is_sample_female, diploid_parx_genome, is_haploid_x_reference\n"),
    dict(name="pure helper haploid test inverted", file=_C, old='(is_haploid_x_reference and chrom in ["chrx", "x"])', new='(not is_haploid_x_reference and chrom in ["chrx", "x"])'),
    dict(name="PAR-Y reference not zeroed", file=_C, old='        df.loc[cnarr.pary_filter(diploid_parx_genome), "reference"] = 0\n', new=""),
    dict(name="purity==1 treated as impure (<=)", file=_C, old="    if purity and purity < 1.0:\n        ncopies", new="    if purity and purity <= 1.0:\n        ncopies", expect="silent"),
    dict(name="twin: formula rewritten", file=_C, old="ncopies = (ref_copies * 2**log2_ratio - expect_copies * (1 - purity)) / purity", new="ncopies = ref_copies * 2**log2_ratio / purity - expect_copies / purity + expect_copies", expect="silent"),
    dict(name="twin: rename local df", file=_C, old="    df = cnarr.copy().data\n\n    # Set all", new="    df = cnarr.copy().data\n    _unused = 0\n\n    # Set all", expect="silent"),
]
