"""C20 -- exports state exactly the calls they were given.
D1 BED row selection, D2 VCF record logic, D3 SEG columns / pairing, D4 matrix exports refuse mismatches, D5 role-flow."""
import ast
import itertools
from fractions import Fraction as Fr

from ..abstools import *
from ..absint import CTX, GenList
from ..absval import Raised, FStr, FVal
from ..core import AnalysisError, own_nodes, norm, parents, stmt_of, dominates
from .. import roles

LEVEL_TEXT = ('static analysis: (D1) export_bed interpreted on one segment per chromosome class x copy number 0..ploidy+2 for show in {all, '
              'ploidy, variant} x ploidy {1, 2, 3} (1..6 thorough) x reference sex x sample sex x PAR genome: the rows kept are all / cn != '
              "ploidy / cn != the copies expected for the class and the sample's sex, with unchanged 0-based coordinates, the label and the "
              'integer cn (or round(r 2^log2) without a cn column); (D2) segments2vcf -- a generator building f-strings -- interpreted over the '
              'same classes, with start 0 and a symbolic start: a record is emitted <=> cn != expected; ALT / SVTYPE DEL <=> below, DUP <=> '
              'above; POS = start with 0 -> 1; END = end; SVLEN = end - start for DUP and -(end - start) for DEL (of the real start, not POS); '
              'FORMAT GT:GQ:CN:CNQ with CN = cn for gains, GT:GQ for losses; a row with a non-numeric probe count gives no record and shifts '
              'nothing; (D3) SEG: format_seg renames start+1 -> loc.start, end -> loc.end, probes -> num.mark, log2 -> seg.mean under ID = the '
              "sample id, and export_seg -> write_seg, interpreted for 1-3 files with an empty table in any position, lists every file's rows "
              "under that file's own sample id in file order, probe counts kept for every table that has them; (D4) merge_samples interpreted on "
              'literal tables: one log2 column per sample id over identical bins; a different number of bins, differing chromosome:start-end:gene'
              ' labels (also permuted) or a duplicate sample id (also among the later files) raise; export_vcf, interpreted with segments2vcf '
              "stubbed, writes its records under the ten VCF columns with the sample's id last and passes ploidy / sexes / PAR genome on in their"
              " roles; nexus-basic rows are the bin's own fields plus its chr:start-end label; export_seg also lists files that share a sample id"
              " one after the other; fmt_jtv / fmt_cdt rows are the label plus every sample's value; (D6) the stated sample sex reaches the "
              'export through verify_sample_sex (C15 rule); (D5) the sex / PAR / ploidy flags reach same-role parameters from the export commands'
              " down to the calling functions. D2 also exports a table without a cn column (cn = round(r * 2^log2) with the reference's copies r)"
              " for both sample sexes and reference sexes. D1's no-cn cells also run under a PAR genome for both sample sexes (the estimate "
              'without a cn column is the pure one). (CLI) the `export bed / vcf / seg` command line(s), through a model of argparse built from '
              'the declarations in commands.py and the real _cmd_ body interpreted with readers, library step and writers stubbed: ploidy, '
              "reference sex, stated sample sex, PAR genome, label (-i / --label-genes / the file's sample id), --show and every input file reach"
              ' the export functions as given. Does not decide the text layout of INFO beyond the named fields.')
TECHNIQUE = "abstract interpretation of the export functions (row classes x flags, f-string fields with holes); dominance; role-flow"

EXP = "cnvlib.export"


def seg_rows(classes, style, cns, start0=False, with_cn=True, ploidy=2, hap=False, fem=True, par=None):
    rows = []
    for i, (c, cn) in enumerate(zip(classes, cns)):
        s = Term.const(0) if (start0 and i % 2 == 0) else Term.sym(f"s{i}", 1, INF, True)
        r = dict(chromosome=chrom(c, style), start=s, end=Term.sym(f"e{i}", 1, INF, True), gene=f"g{i}", log2=Term.sym(f"v{i}"), probes=7 + i)
        if with_cn:
            r["cn"] = cn
        rows.append(r)
    return rows


def d1(chk, prog, ploidies):
    chk.clause("D1", "export bed: rows kept by show = all / ploidy / variant; 0-based coordinates, label, integer cn")
    fi = prog.fn(f"{EXP}.export_bed")
    tb = Table(chk, "bed-selection", "export_bed (class x cn x show x ploidy x sexes x PAR genome)", fi.loc(), fi.qn)
    for P, show, hap, fem, par in itertools.product(ploidies, ["all", "ploidy", "variant"], [False, True], [False, True], [None, "grch38"]):
        cnvals = list(range(0, P + 3))
        classes = [c for c in CLS5 for _ in cnvals]
        cns = [k for _ in CLS5 for k in cnvals]
        W.reset()
        it = Interp(prog, par_model())
        rows = seg_rows(classes, "chr", cns)
        g = make_ga("CopyNumArray", rows, {"_classes": classes, "sample_id": "S"}, index="any")
        out = tb.guard(lambda: it.run(fi.qn, [g, P, hap, par, fem, "LBL", show]), f"P={P} show={show} hap={hap} fem={fem} par={par}")
        if out is None:
            continue
        keep = out.cols.get("__keep__")
        kept = [k is True for k in keep.v] if keep is not None else [True] * len(rows)
        bad = []
        for i, (c, cn) in enumerate(zip(classes, cns)):
            x = ref_exp_oracle(c, P, hap, fem, par)[1]
            want = True if show == "all" else (cn != P if show == "ploidy" else cn != x)
            okc = kept[i] == want and same(out.cols["ncopies"].v[i], cn) and same(out.cols["start"].v[i], rows[i]["start"]) and same(out.cols["end"].v[i], rows[i]["end"]) \
                and out.cols["label"].v[i] == "LBL" and out.cols["chromosome"].v[i] == rows[i]["chromosome"]
            tb.cell(okc, dict(ploidy=P, show=show, haploid_x_reference=hap, sample_female=fem, par_genome=par, cls=c, cn=cn, expected=x, kept=kept[i], want_kept=want))
    tb.done("export bed does not list exactly the segments asked for (all / differing from ploidy / differing from the expected copies)")
    # without a cn column: ncopies = round(r * 2^log2); label defaults to the gene
    tb2 = Table(chk, "bed-selection", "export_bed without cn column / label", fi.loc(), fi.qn + "::no cn")
    for P, hap in itertools.product([2, 3], [False, True]):
        W.reset()
        it = Interp(prog, par_model())
        cl = ["auto", "x", "y"]
        rows = seg_rows(cl, "chr", [0, 0, 0], with_cn=False)
        g = make_ga("CopyNumArray", rows, {"_classes": cl, "sample_id": "S"}, index="any")
        out = tb2.guard(lambda: it.run(fi.qn, [g, P, hap, None, True, None, "all"]), f"P={P} hap={hap}")
        if out is None:
            continue
        for i, c in enumerate(cl):
            r = ref_exp_oracle(c, P, hap, True, None)[0]
            want = f_round(t_mul(T(r), f_exp2(rows[i]["log2"])))
            tb2.cell(same(out.cols["ncopies"].v[i], want) and out.cols["label"].v[i] == f"g{i}", dict(ploidy=P, hap=hap, cls=c, ncopies=repr(out.cols["ncopies"].v[i]), want=repr(want), label=out.cols["label"].v[i]))
    # ... also when a PAR genome is given: the estimate without a cn column is the pure one, r = the reference's copies of that chromosome
    for P, hap, fem in itertools.product([2], [False, True], [False, True]):
        W.reset()
        it = Interp(prog, par_model())
        cl = list(CLS5)
        rows = seg_rows(cl, "chr", [0] * len(cl), with_cn=False)
        g = make_ga("CopyNumArray", rows, {"_classes": cl, "sample_id": "S"}, index="any")
        out = tb2.guard(lambda: it.run(fi.qn, [g, P, hap, "grch38", fem, None, "all"]), f"P={P} hap={hap} fem={fem} PAR genome")
        if out is None:
            continue
        for i, c in enumerate(cl):
            r = ref_exp_oracle(c, P, hap, True, None)[0]
            want = f_round(t_mul(T(r), f_exp2(rows[i]["log2"])))
            tb2.cell(same(out.cols["ncopies"].v[i], want), dict(ploidy=P, hap=hap, fem=fem, par_genome="grch38", cls=c, ncopies=repr(out.cols["ncopies"].v[i]), want=repr(want)))
    tb2.done("export bed without a cn column does not report round(r * 2^log2) / the gene as label")


def field(fs, prefix):
    if isinstance(fs, str):
        for part in fs.split(";"):
            if part.startswith(prefix):
                return part[len(prefix):]
        return None
    if isinstance(fs, FStr):
        v = fs.field(prefix)
        if v is not None:
            return v
        for p in fs.parts:
            if isinstance(p, str):
                for part in p.split(";"):
                    if part.startswith(prefix) and part != prefix:
                        return part[len(prefix):]
    return None


def d2(chk, prog, ploidies):
    chk.clause("D2", "export vcf: record <=> cn != expected; DEL / DUP; POS 0 -> 1; END; SVLEN sign and magnitude; CN for gains")
    fi = prog.fn(f"{EXP}.segments2vcf")
    tb = Table(chk, "vcf-records", "segments2vcf (class x cn x ploidy x sexes x PAR genome; start 0 / symbolic)", fi.loc(), fi.qn)
    for P, hap, fem, par in itertools.product(ploidies, [False, True], [False, True], [None, "grch38"]):
        cnvals = list(range(0, P + 2))
        classes = [c for c in CLS5 for _ in cnvals]
        cns = [k for _ in CLS5 for k in cnvals]
        W.reset()
        it = Interp(prog, par_model())
        rows = seg_rows(classes, "chr", cns, start0=True)
        g = make_ga("CopyNumArray", rows, {"_classes": classes, "sample_id": "S"}, index="range")
        out = tb.guard(lambda: list(it.run(fi.qn, [g, P, hap, par, fem])), f"P={P} hap={hap} fem={fem} par={par}")
        if out is None:
            continue
        recs = list(out)
        j = 0
        for i, (c, cn) in enumerate(zip(classes, cns)):
            x = ref_exp_oracle(c, P, hap, fem, par)[1]
            want = cn != x
            rec = None
            if want:
                rec = recs[j] if j < len(recs) else None
                j += 1
            if not want:
                continue
            okc = rec is not None and len(rec) == 10
            info = {}
            if okc:
                s, e = rows[i]["start"], rows[i]["end"]
                pos = Term.const(1) if s.is_const() and s.cval() == 0 else s
                typ = "DEL" if cn < x else "DUP"
                svlen = t_sub(e, s) if typ == "DUP" else t_sub(s, e)
                info = dict(pos=rec[1], alt=rec[4], svtype=field(rec[7], "SVTYPE="), end=field(rec[7], "END="), svlen=field(rec[7], "SVLEN="), fmt=rec[8], gt=rec[9])
                okc = rec[0] == rows[i]["chromosome"] and same(rec[1], pos) and rec[4] == f"<{typ}>" and info["svtype"] == typ and info["end"] is not None and same(info["end"], e) \
                    and info["svlen"] is not None and same(info["svlen"], svlen) and rec[8] == ("GT:GQ:CN:CNQ" if typ == "DUP" else "GT:GQ")
                if typ == "DUP":
                    gt = rec[9]
                    okc = okc and (gt == f"0/1:0:{cn}:{rows[i]['probes']}" or (isinstance(gt, FStr) and any(isinstance(p, FVal) and same(p.v, cn) for p in gt.parts)))
            tb.cell(okc, dict(ploidy=P, hap=hap, fem=fem, par=par, cls=c, cn=cn, expected=x, start0=rows[i]["start"].is_const(), record={k: repr(v)[:60] for k, v in info.items()}))
        tb.cell(j == len(recs), dict(ploidy=P, hap=hap, fem=fem, par=par, records_emitted=len(recs), records_wanted=j, note="one record per non-neutral segment and no others"))
    # a row whose probe count is not a number (files from v0.7.1) gives no record and leaves the other rows' records as they are
    for hap, fem in itertools.product([False, True], [False, True]):
        W.reset()
        classes = ["auto", "auto", "x", "y", "x", "auto"]
        cns = [3, 1, 1, 1, 2, 2]
        rows = seg_rows(classes, "chr", cns)
        rows[1]["probes"] = "-"
        g = make_ga("CopyNumArray", rows, {"_classes": classes, "sample_id": "S"}, index="range")
        it = Interp(prog, par_model())
        out = tb.guard(lambda: list(it.run(fi.qn, [g, 2, hap, None, fem])), f"malformed probe count, hap={hap} fem={fem}")
        if out is None:
            continue
        want = [(rows[i]["chromosome"], "DEL" if cn < ref_exp_oracle(c, 2, hap, fem, None)[1] else "DUP") for i, (c, cn) in enumerate(zip(classes, cns))
                if i != 1 and cn != ref_exp_oracle(c, 2, hap, fem, None)[1]]
        got = [(r[0], str(r[4]).strip("<>")) for r in out]
        tb.cell(got == want, dict(case="second row has probes '-'", hap=hap, fem=fem, records=got, want=want))
    # a table without a cn column (a .cns that was not called): cn = round(r * 2^log2) with r the reference's copies, compared with the sample's expected copies
    for hap, fem, lg in itertools.product([False, True], [False, True], [0, 1, -1]):
        W.reset()
        classes = ["auto", "x", "y"]
        rows = seg_rows(classes, "chr", [0, 0, 0], with_cn=False)
        for r_ in rows:
            r_["log2"] = Fr(lg)
        g = make_ga("CopyNumArray", rows, {"_classes": classes, "sample_id": "S"}, index="range")
        it = Interp(prog, par_model())
        out = tb.guard(lambda: list(it.run(fi.qn, [g, 2, hap, None, fem])), f"no cn column, log2={lg} hap={hap} fem={fem}")
        if out is None:
            continue
        want = []
        for i, c in enumerate(classes):
            r, x = ref_exp_oracle(c, 2, hap, fem, None)
            cn = round(r * Fr(2) ** lg)
            if cn != x:
                want.append((rows[i]["chromosome"], "DEL" if cn < x else "DUP"))
        got = [(r[0], str(r[4]).strip("<>")) for r in out]
        tb.cell(got == want, dict(case="no cn column", log2=lg, hap=hap, fem=fem, records=got, want=want))
    tb.done("export vcf does not emit exactly the non-neutral segments with the stated POS / END / SVTYPE / SVLEN / CN")
    # export_vcf, interpreted with segments2vcf stubbed: its records under the ten VCF columns (the last one named after the sample), the flags passed on in their roles
    fv = prog.fn(f"{EXP}.export_vcf")
    tbv = Table(chk, "vcf-records", "export_vcf: segments2vcf(...) records under #CHROM POS ID REF ALT QUAL FILTER INFO FORMAT <sample id given / the segments' own>; bin table given or not", fv.loc(), fv.qn + "::columns")
    record = ("chr1", 1, ".", "N", "<DUP>", ".", ".", "IMPRECISE;SVTYPE=DUP", "GT:GQ:CN:CNQ", "0/1:0:3:5")
    for sid, with_bins in itertools.product((None, "GIVEN"), (False, True)):
        W.reset()
        model = Model()
        seen = {}
        segs = make_ga("CopyNumArray", [dict(chromosome="chr1", start=0, end=10, gene="A", log2=Fr(1, 2), cn=3)], {"sample_id": "OWN"}, exact=True)
        bins = make_ga("CopyNumArray", [dict(chromosome="chr1", start=0, end=10, gene="A", log2=Fr(1, 2))], {"sample_id": "OWN"}, exact=True)
        with_ci = make_ga("CopyNumArray", [dict(chromosome="chr1", start=0, end=10, gene="A", log2=Fr(1, 2), cn=3)], {"sample_id": "OWN", "ci": True}, exact=True)
        model.prims[f"{EXP}.segments2vcf"] = lambda it, *a, seen=seen, **k: (seen.setdefault("args", a), [record])[1]
        model.prims[f"{EXP}.assign_ci_start_end"] = lambda it, s_, c_, seen=seen: (seen.setdefault("ci_args", (s_, c_)), with_ci)[1]

        def hook(it, obj, name, args, kw, seen=seen):
            if isinstance(obj, DF) and name == "to_csv":
                seen["table"], seen["csv"] = obj, dict(kw)
                return "BODY"
            return NotImplemented
        model.method_hooks.append(hook)
        it = Interp(prog, model)
        out = tbv.guard(lambda: it.run(fv.qn, [segs, 3, True, "grch38", False, sid, bins if with_bins else None]), f"sample_id={sid} bins={with_bins}")
        if out is None:
            continue
        t = seen.get("table")
        cols = [k for k in t.cols if not k.startswith("__")] if isinstance(t, DF) else None
        want_cols = ["#CHROM", "POS", "ID", "REF", "ALT", "QUAL", "FILTER", "INFO", "FORMAT", sid or "OWN"]
        a = seen.get("args") or ()
        ok = cols == want_cols and [t.cols[c].v[0] for c in cols] == list(record) and isinstance(out, tuple) and len(out) == 2 and out[1] == "BODY" \
            and len(a) == 5 and a[0] is (with_ci if with_bins else segs) and a[1:] == (3, True, "grch38", False) and seen.get("csv", {}).get("sep") == "\t" and seen.get("csv", {}).get("index") is False \
            and (("ci_args" in seen and seen["ci_args"][0] is segs and seen["ci_args"][1] is bins) if with_bins else "ci_args" not in seen)
        tbv.cell(ok, dict(sample_id=sid, bins_given=with_bins, columns=cols, want_columns=want_cols, segments2vcf_flags=[repr(x) for x in a[1:]], csv_options=seen.get("csv")))
    tbv.done("export_vcf does not write the segments2vcf records under the standard VCF columns and the sample's id, or passes the ploidy / sex / PAR flags on in other roles")


def d3(chk, prog):
    chk.clause("D3", "export seg: 1-based starts, ends, probe counts and means under the sample id; frames paired with ids")
    fi = prog.fn("skgenome.tabio.seg.format_seg")
    tb = Table(chk, "seg-columns", "format_seg columns", fi.loc(), fi.qn)
    for has_probes in (True, False):
        W.reset()
        it = Interp(prog)
        s, e, v, p = Term.sym("s", 0, INF, True), Term.sym("e", 0, INF, True), Term.sym("v"), Term.sym("p", 0, INF, True)
        cols = {"chromosome": Vec(["chr1"]), "start": Vec([s]), "end": Vec([e]), "gene": Vec(["g"]), "log2": Vec([v])}
        if has_probes:
            cols["probes"] = Vec([p])
        df = DF(cols, 1)
        out = tb.guard(lambda: it.run(fi.qn, [df, "SAMPLE", None]), f"probes={has_probes}")
        if out is None:
            continue
        want_cols = ["ID", "chrom", "loc.start", "loc.end"] + (["num.mark"] if has_probes else []) + ["seg.mean"]
        c = out.cols
        ok = [k for k in c if not k.startswith("__")] == want_cols and c["ID"].v[0] == "SAMPLE" and c["chrom"].v[0] == "chr1" and same(c["loc.start"].v[0], t_add(s, Term.const(1))) \
            and same(c["loc.end"].v[0], e) and same(c["seg.mean"].v[0], v) and (not has_probes or same(c["num.mark"].v[0], p)) and same(df.cols["start"].v[0], s)
        tb.cell(ok, dict(probes=has_probes, columns=[k for k in c if not k.startswith("__")], row={k: repr(x.v[0]) for k, x in c.items() if not k.startswith("__")}))
    # chromosome ids: create_chrom_ids lists only the names that differ from their ordinal; every other name passes through
    fc = prog.fn("skgenome.tabio.seg.create_chrom_ids")
    for names, want_ids in ((["1", "2", "X"], ["1", "2", 3]), (["chr1", "chr2"], [1, 2]), (["2", "1"], [1, 2])):
        W.reset()
        it = Interp(prog)
        n = len(names)
        frame = DF({"chromosome": Vec(list(names), aligned=True), "start": Vec([10 * i for i in range(n)], aligned=True), "end": Vec([10 * i + 5 for i in range(n)], aligned=True),
                    "gene": Vec(["-"] * n, aligned=True), "log2": Vec([Term.sym(f"v{i}") for i in range(n)], aligned=True)}, n)
        frame.exact = True

        def both():
            ids = it.run(fc.qn, [frame])
            return ids, it.run(fi.qn, [frame, "SAMPLE", ids])
        out = tb.guard(both, f"enumerated chromosomes {names}")
        if out is None:
            continue
        ids, res = out
        got = list(res.cols["chrom"].v) if isinstance(res, DF) and "chrom" in res.cols else None
        tb.cell(got is not None and [str(x) for x in got] == [str(x) for x in want_ids] and all(x is not None for x in got),
                dict(chromosomes=names, chrom_ids=dict(ids) if isinstance(ids, dict) else repr(ids), chrom_column=[repr(x) for x in got] if got is not None else None, want=want_ids))
    tb.done("SEG rows are not (ID, chrom, start+1, end, [probes], log2)")
    fe = prog.fn(f"{EXP}.export_seg")
    tb2 = Table(chk, "seg-columns", "export_seg: every file's rows under that file's sample id, in file order (1..3 files, with an empty table in any position)", fe.loc(), fe.qn)
    # (the last two: files that carry the same sample id -- same base name in two directories -- are still listed one after the other)
    for sizes, no_probes, ids in (([2], (), None), ([0], (), None), ([2, 1], (), None), ([0, 1], (), None), ([2, 0, 1], (), None), ([1, 2, 0], (), None), ([1, 1, 1], (), None), ([2, 1], (1,), None),
                                  ([1, 2, 1], (0,), None), ([1, 1], (0, 1), None), ([2, 1], (), ["S", "S"]), ([1, 1, 2], (), ["S", "T", "S"])):
        W.reset()
        files = [f"f{i}.cns" for i in range(len(sizes))]
        ids = ids or [f"S{i}" for i in range(len(sizes))]
        tables = {}
        for i, (f, n) in enumerate(zip(files, sizes)):
            rows = [dict(chromosome="chr1", start=Term.sym(f"s{i}_{j}", 0, INF, True), end=Term.sym(f"e{i}_{j}", 0, INF, True), gene="-", log2=Term.sym(f"v{i}_{j}"), probes=3 + j) for j in range(n)]
            if i in no_probes:
                for r in rows:
                    del r["probes"]          # a segment table without probe counts (e.g. imported segments)
            g = make_ga("CopyNumArray", rows, {"sample_id": ids[i]}, exact=True)
            if not rows:
                g.data = DF({c: Vec([], aligned=True) for c in ("chromosome", "start", "end", "gene", "log2", "probes")}, 0)
                g.data.exact = True
            tables[f] = g
        model = Model()
        model.prims["cnvlib.cmdutil.read_cna"] = lambda it, fname, *a, **k: tables[fname]
        it = Interp(prog, model)
        out = tb2.guard(lambda: it.run(fe.qn, [files, False]), f"table sizes {sizes} ids {ids}")
        if out is None:
            continue
        want = [(ids[i], f"s{i}_{j}+1") for i, n in enumerate(sizes) for j in range(n)]
        got = None
        if isinstance(out, DF) and "ID" in out.cols and "loc.start" in out.cols:
            got = list(zip(out.cols["ID"].v, out.cols["loc.start"].v))
        ok = got is not None and len(got) == len(want) and all(g[0] == w[0] and same(g[1], t_add(Term.sym(w[1][:-2]), Term.const(1))) for g, w in zip(got, want))
        # probe counts: present for every sample that has them (missing only for the rows of a table without the column)
        want_marks = [(3 + j) if i not in no_probes else None for i, n in enumerate(sizes) for j in range(n)]
        if ok and any(m is not None for m in want_marks):
            marks = list(out.cols["num.mark"].v) if "num.mark" in out.cols else None
            ok = marks is not None and len(marks) == len(want_marks) and all((m is None and w is None) or (w is not None and same(m, w)) for m, w in zip(marks, want_marks))
        tb2.cell(ok, dict(table_sizes=sizes, sample_ids=ids, tables_without_probes=list(no_probes), num_mark=[repr(x) for x in out.cols["num.mark"].v] if isinstance(out, DF) and "num.mark" in out.cols else None, got=[(a, repr(b)) for a, b in got] if got is not None else repr(out)[:80], want=want))
    tb2.done("export seg does not list every sample's segments (with their probe counts) under that sample's own id, in file order")


def d4(chk, prog):
    chk.clause("D4", "matrix exports: mismatching bins or duplicate sample ids are refused before a column is added")
    fi = prog.fn(f"{EXP}.merge_samples")
    tb = Table(chk, "must-pass-through", "merge_samples on literal tables: one log2 column per sample id over identical bins; differing bins (count, coordinates, gene) and duplicate ids raise", fi.loc(), fi.qn)
    bins = [("chr1", 0, 100, "A"), ("chr1", 100, 200, "B"), ("chr2", 0, 50, "C")]

    def tab(sid, rows, tagv):
        return make_ga("CopyNumArray", [dict(chromosome=c, start=s_, end=e_, gene=g, log2=Term.sym(f"{tagv}{i}")) for i, (c, s_, e_, g) in enumerate(rows)], {"sample_id": sid}, exact=True)
    cases = [("three matching samples", [("S1", bins, "x"), ("S2", bins, "y"), ("S3", bins, "z")], None),
             ("one sample", [("S1", bins, "x")], None),
             ("fewer bins", [("S1", bins, "x"), ("S2", bins[:2], "y")], "ValueError"),
             ("same count, another start", [("S1", bins, "x"), ("S2", bins[:2] + [("chr2", 10, 50, "C")], "y")], "ValueError"),
             ("same count, another gene", [("S1", bins, "x"), ("S2", [bins[0], ("chr1", 100, 200, "Z"), bins[2]], "y")], "ValueError"),
             ("same count, bins permuted", [("S1", bins, "x"), ("S2", [bins[1], bins[0], bins[2]], "y")], "ValueError"),
             ("duplicate sample id", [("S1", bins, "x"), ("S2", bins, "y"), ("S1", bins, "z")], "ValueError"),
             ("duplicate sample id among the later files", [("S1", bins, "x"), ("S2", bins, "y"), ("S2", bins, "z")], "ValueError"),
             ("mismatch in the third file only", [("S1", bins, "x"), ("S2", bins, "y"), ("S3", bins[:1], "z")], "ValueError")]
    for label, samples, want_exc in cases:
        W.reset()
        files = {f"f{i}.cnr": tab(sid, rows, tagv) for i, (sid, rows, tagv) in enumerate(samples)}
        model = Model()
        model.prims["cnvlib.cmdutil.read_cna"] = lambda it, fname, *a, files=files, **k: files[fname]
        it = Interp(prog, model)
        try:
            out = it.run(fi.qn, [list(files)])
            raised = None
        except Raised as r:
            out, raised = None, str(r)
        except Undecided as u:
            tb.undecided.append(f"{label}: {u}")
            continue
        if want_exc:
            tb.cell(raised is not None and want_exc in raised, dict(case=label, raised=raised, want=want_exc))
            continue
        ok = raised is None and isinstance(out, DF) and out.n == len(bins)
        if ok:
            labs = [str(x) for x in out.cols["label"].v] if "label" in out.cols else None
            ok = labs == [f"{c}:{s_}-{e_}:{g}" for c, s_, e_, g in bins]
            for sid, rows, tagv in samples:
                ok = ok and sid in out.cols and all(same(out.cols[sid].v[i], Term.sym(f"{tagv}{i}")) for i in range(len(bins)))
            ok = ok and [c for c in out.cols if not c.startswith("__")] == ["chromosome", "start", "end", "gene", "label"] + [s_[0] for s_ in samples]
        tb.cell(ok, dict(case=label, raised=raised, columns=[c for c in out.cols if not c.startswith("__")] if isinstance(out, DF) else repr(out)[:60]))
    W.reset()
    it = Interp(prog)
    out = tb.guard(lambda: ("v", it.run(fi.qn, [[]])), "no files")
    if out is not None:
        tb.cell(out[1] == [], dict(case="no files", got=repr(out[1])))
    tb.done("the jtv / cdt matrix is not one log2 column per sample over identical bins (or differing bins / duplicate ids are not refused)")
    tb3 = Table(chk, "must-pass-through", "fmt_jtv / fmt_cdt on a literal 2-bin x 2-sample table: header and one row per bin = its label + every sample's value", "cnvlib/export.py", f"{EXP}::matrix formats")
    for name in ("fmt_jtv", "fmt_cdt"):
        f = prog.fn(f"{EXP}.{name}")
        W.reset()
        vals = {"S1": [Term.sym("x0"), Term.sym("x1")], "S2": [Term.sym("y0"), Term.sym("y1")]}
        table = DF({"chromosome": Vec(["chr1", "chr1"], aligned=True), "start": Vec([0, 100], aligned=True), "end": Vec([100, 200], aligned=True), "gene": Vec(["A", "B"], aligned=True),
                    "label": Vec(["chr1:0-100:A", "chr1:100-200:B"], aligned=True), "S1": Vec(vals["S1"], aligned=True), "S2": Vec(vals["S2"], aligned=True)}, 2)
        table.exact = True
        it = Interp(prog)
        out = tb3.guard(lambda: it.run(f.qn, [["S1", "S2"], table]), name)
        if out is None:
            continue
        header, rows = out
        rows = [tuple(r) for r in it.iterate(rows)]
        if name == "fmt_jtv":
            ok = list(header) == ["CloneID", "Name", "S1", "S2"] and len(rows) == 2 and all(len(r) == 4 and r[0] == "IMAGE:" and r[1] == table.cols["label"].v[i] and same(r[2], vals["S1"][i]) and same(r[3], vals["S2"][i])
                                                                                      for i, r in enumerate(rows))
        else:
            ok = list(header) == ["GID", "CLID", "NAME", "GWEIGHT", "S1", "S2"] and len(rows) == 4 and list(rows[0]) == ["AID", "", "", "", "ARRY000X", "ARRY001X"] and \
                list(rows[1]) == ["EWEIGHT", "", "", "", "1", "1"] and all(len(r) == 6 and str(r[0]) == f"GENE{i}X" and str(r[1]) == f"IMAGE:{i}" and r[2] == table.cols["label"].v[i] and r[3] == 1
                                                                      and same(r[4], vals["S1"][i]) and same(r[5], vals["S2"][i]) for i, r in enumerate(rows[2:]))
        tb3.cell(ok, dict(format=name, header=list(header), rows=[[repr(x) for x in r] for r in rows]))
    tb3.done("a matrix export row is not the bin's label followed by every sample's value")
    # nexus-basic on a literal table: one row per bin, the bin's own chromosome / start / end / gene / log2 and its chr:start-end label (1-based start)
    fn = prog.fn(f"{EXP}.export_nexus_basic")
    W.reset()
    g = make_ga("CopyNumArray", [dict(chromosome="chr1", start=0, end=10, gene="A", log2=Fr(1, 2), depth=3, weight=1), dict(chromosome="chr2", start=5, end=9, gene="B,C", log2=Fr(-1), depth=4, weight=1)],
                {"sample_id": "S"}, index="any", exact=True, labels=[7, 3])
    try:
        out = Interp(prog).run(fn.qn, [g])
    except Undecided as e:
        raise AnalysisError(f"C20-D4 nexus-basic: {e}")
    except Raised as e:
        out = str(e)
    c = out.cols if isinstance(out, DF) else {}
    ok = [k for k in c if not k.startswith("__")] == ["chromosome", "start", "end", "gene", "log2", "probe"] and list(c["chromosome"].v) == ["chr1", "chr2"] and [int(T(x).cval()) for x in c["start"].v] == [0, 5] \
        and [int(T(x).cval()) for x in c["end"].v] == [10, 9] and list(c["gene"].v) == ["A", "B,C"] and same(c["log2"].v[0], Fr(1, 2)) and same(c["log2"].v[1], Fr(-1)) and list(c["probe"].v) == ["chr1:1-10", "chr2:6-9"]
    chk.decide(ok, "must-pass-through", "nexus-basic: one row per bin with the bin's own fields and its chr:start-end label", f"{fn.qn}::probe", fn.loc(),
               f"nexus-basic rows are not (chromosome, start, end, gene, log2, label of that bin): {({k: [repr(x) for x in v.v] for k, v in c.items()} if c else out)}")


def d5(chk, prog):
    chk.clause("D5", "role-flow: export commands -> export_* -> call.absolute_*")
    roles.check(chk, prog, modules=(EXP, "cnvlib.commands"), roles_of_interest=("REF_HAPLOID_X", "SAMPLE_FEMALE", "PAR_GENOME", "PLOIDY"), floor=20,
                callee_modules=(EXP, "cnvlib.call", "cnvlib.cnary"))
    # the variant filter uses the *expected* copies (sample sex), not the reference copies
    fi = prog.fn(f"{EXP}.export_bed")
    calls = [norm(n.func) for n in own_nodes(fi.node) if isinstance(n, ast.Call) and norm(n.func).startswith("call.absolute_")]
    chk.decide("call.absolute_expect" in calls, "role-flow", "export_bed(show=variant) compares with call.absolute_expect", f"{fi.qn}::expected copies", fi.loc(), f"calls {calls}")


def run(chk):
    prog = chk.prog
    chk.trust("Python grammar via ast", "f-strings / str.join keep their holes in order (absint FStr)", "oracle: Appendix A table of reference / expected copies per class")
    ploidies = [1, 2, 3] if chk.tier == "quick" else [1, 2, 3, 4, 5, 6]          # ploidy 1: half the ploidy is 0 copies on a haploid sex chromosome
    chk.clause("PAR", "which bins count as PAR-X / PAR-Y: the filters on literal bins around every PAR boundary (C01-D2b rule)")
    from . import C01
    C01.par_key_label(chk, prog)
    from . import C15
    C15.sex_labels(chk, prog)       # ... and under which names X / Y are looked up (C15 rule)
    d1(chk, prog, ploidies)
    d2(chk, prog, ploidies)
    d3(chk, prog)
    d4(chk, prog)
    d5(chk, prog)
    chk.clause("D6", "the stated sample sex reaches the computation: verify_sample_sex (C15 rule)")
    from . import C15
    C15.d3c_stated_sex(chk, prog)
    chk.clause("CLI", "the `export bed|vcf|seg` command lines: ploidy, sexes, PAR genome, label, --show and every input file reach the export functions")
    from .. import cliglue
    cliglue.check_export(chk, prog)


_E = "cnvlib/export.py"
MUTANTS = [
    dict(name="cli: export bed swaps sample sex and reference sex", file="cnvlib/commands.py", old="            args.ploidy,\n            args.male_reference,\n            args.diploid_parx_genome,\n            is_sample_female,\n            label,", new="            args.ploidy,\n            is_sample_female,\n            args.diploid_parx_genome,\n            args.male_reference,\n            label,"),
    dict(name="cli: export bed keeps only the last input file", file="cnvlib/commands.py", old="        bed_tables.append(tbl)\n    table = pd.concat(bed_tables)", new="        bed_tables = [tbl]\n    table = pd.concat(bed_tables)"),
    dict(name="bed: show ploidy keeps only gains", file=_E, old='        out = out[out["ncopies"] != ploidy]', new='        out = out[out["ncopies"] > ploidy]'),
    dict(name="seeded C20b: variant filter by reference copies", file=_E, old="        exp_copies = call.absolute_expect(segments, ploidy, diploid_parx_genome, is_sample_female)\n        out = out[", new="        exp_copies = call.absolute_reference(segments, ploidy, diploid_parx_genome, is_haploid_x_reference)\n        out = out["),
    dict(name="bed: 1-based start", file=_E, old='    out = segments.data.reindex(columns=["chromosome", "start", "end"])\n    out["label"]', new='    out = segments.data.reindex(columns=["chromosome", "start", "end"])\n    out["start"] += 1\n    out["label"]'),
    dict(name="vcf: SVLEN negated on gains", file=_E, old="    svlen[idx_losses] *= -1", new="    svlen[~idx_losses] *= -1"),
    dict(name="seeded C20a: SVLEN from POS", file=_E, old="    svlen = segments.end - segments.start\n", new='    svlen = out_dframe["end"] - out_dframe["start"]\n'),
    dict(name="vcf: POS 0 kept", file=_E, old='    out_dframe["start"] = segments.start.replace(0, 1)', new='    out_dframe["start"] = segments.start'),
    dict(name="vcf: neutral test against ploidy", file=_E, old="            out_row.ncopies == abs_exp\n            or", new="            out_row.ncopies == ploidy\n            or"),
    dict(name="vcf: DEL label on gains", file=_E, old='    out_dframe.loc[idx_losses, "svtype"] = "DEL"', new='    out_dframe.loc[~idx_losses, "svtype"] = "DEL"'),
    dict(name="vcf: CN missing for gains", file=_E, old='            genotype = f"0/1:0:{out_row.ncopies}:{out_row.probes}"', new='            genotype = f"0/1:0:{out_row.probes}"'),
    dict(name="vcf: END from start", file=_E, old='            f"END={out_row.end}",', new='            f"END={out_row.start}",'),
    dict(name="vcf: sexes swapped at absolute_expect", file=_E, old='        abs_expect = call.absolute_expect(segments, ploidy, diploid_parx_genome, is_sample_female)\n    else:', new='        abs_expect = call.absolute_expect(segments, ploidy, diploid_parx_genome, is_haploid_x_reference)\n    else:'),
    dict(name="seg: probes not renamed", file="skgenome/tabio/seg.py", old='        rename_cols["probes"] = "num.mark"  # or num_probes\n', new=""),
    dict(name="jtv rows lose the last sample column", file="cnvlib/export.py", old="""                    "Name": table["label"],
                }
            ),
            table.drop(["chromosome", "start", "end", "gene", "label"], axis=1),""", new="""                    "Name": table["label"],
                }
            ),
            table.drop(["chromosome", "start", "end", "gene", "label"], axis=1).iloc[:, :-1],"""),
    dict(name="cdt NAME column takes the gene instead of the label", file="cnvlib/export.py", old='                        ("NAME", table["label"]),', new='                        ("NAME", table["gene"]),'),
    dict(name="twin: merge_samples compares counts and labels in two statements", expect="silent", file="cnvlib/export.py", old="""        if not (
            len(cnarr) == len(out_table)
            and (label_with_gene(cnarr) == out_table["label"]).all()
        ):
            raise ValueError(f"Mismatched row coordinates in {fname}")""", new="""        if len(cnarr) != len(out_table):
            raise ValueError(f"Mismatched row coordinates in {fname}")
        same_bins = label_with_gene(cnarr) == out_table["label"]
        if not same_bins.all():
            raise ValueError(f"Mismatched row coordinates in {fname}")"""),
    dict(name="seeded C20f: SEG tables concatenated on their common columns only", file="skgenome/tabio/seg.py", old="    return pd.concat(results)\n", new="    return pd.concat(results, join=\"inner\")\n"),
    dict(name="seeded C20c: export_seg drops empty tables, ids no longer paired", file="cnvlib/export.py", old="    out_table = tabio.seg.write_seg(dframes, sample_ids, chrom_ids)\n", new="    dframes = [dframe for dframe in dframes if len(dframe)]\n    out_table = tabio.seg.write_seg(dframes, sample_ids, chrom_ids)\n"),
    dict(name="export_seg reverses the ids", file="cnvlib/export.py", old="    out_table = tabio.seg.write_seg(dframes, sample_ids, chrom_ids)\n", new="    out_table = tabio.seg.write_seg(dframes, sample_ids[::-1], chrom_ids)\n"),
    dict(name="twin: export_seg builds the two lists with a loop", expect="silent", file="cnvlib/export.py", old="    dframes, sample_ids = zip(*(_load_seg_dframe_id(fname) for fname in sample_fnames))\n", new="    dframes, sample_ids = [], []\n    for fname in sample_fnames:\n        table, name = _load_seg_dframe_id(fname)\n        dframes.append(table)\n        sample_ids.append(name)\n"),
    dict(name="twin: write_seg pairs with plain zip", expect="silent", edits=[("skgenome/tabio/seg.py", "            for subframe, sid in zip_longest(dframes, sids)", "            for subframe, sid in zip(dframes, sids)")]),
    dict(name="seg: zip instead of zip_longest swapped order", file="skgenome/tabio/seg.py", old="            for subframe, sid in zip_longest(dframes, sids)", new="            for sid, subframe in zip_longest(dframes, sids)"),
    dict(name="merge: coordinate raise dropped", file=_E, old='            raise ValueError(f"Mismatched row coordinates in {fname}")', new='            logging.warning(f"Mismatched row coordinates in {fname}")'),
    dict(name="merge: duplicate id overwrites", file=_E, old='        if cnarr.sample_id in out_table.columns:\n            raise ValueError(f"Duplicate sample ID: {cnarr.sample_id}")\n', new=""),
    dict(name="merge: label without gene", file=_E, old='        row2label = lambda row: f"{row.chromosome}:{row.start}-{row.end}:{row.gene}"', new='        row2label = lambda row: f"{row.chromosome}:{row.start}-{row.end}"'),
    dict(name="equivalent: idx_losses <=", file=_E, old='    idx_losses = out_dframe["ncopies"] < abs_expect', new='    idx_losses = out_dframe["ncopies"] <= abs_expect', expect="silent"),
    dict(name="twin: bed filter rewritten", file=_E, old='        out = out[out["ncopies"] != ploidy]', new='        out = out[~(out["ncopies"] == ploidy)]', expect="silent"),
]
