"""C13 -- access lists exactly the non-N runs of the genome, joined and excluded as asked.
D1 exclude files may overlap / nest (shared with C06), D2 join decision, D3 option gating and stage order in do_access,
(D4, a syntactic `is None` rule, was retired: D2b decides it on literal texts)."""
import ast
import itertools
from fractions import Fraction as Fr

from ..abstools import *
from ..absint import CTX, GenList
from ..absval import Raised
from ..core import AnalysisError, own_nodes, norm, parents
from . import C06, C07

LEVEL_TEXT = ('static analysis: (D1) every exclude file is subtracted through subtract(), which is exact on literal tables with nested, overlapping, unsorted and'
              ' abutting exclusions (C06-D1b, merge() running as written); merge() itself returns the rows of its contract on literal tables (C06-D3 / D3b), '
              'and exclusion is per sequence (chromosome pairing of by_shared_chroms, C07-D6); (D2) join_regions interpreted on three symbolic regions of one chromosome plus one of another, the '
              'two gaps placed below / at / above the minimum gap size: neighbours are joined <=> gap < minimum, otherwise the previous region is'
              ' emitted unchanged and a new one started; the last region of every chromosome is always emitted; nothing is joined across '
              'chromosomes; a minimum of None counts as 0; (D2b) get_regions interpreted on 275 literal FASTA texts -- every sequence over {A, N}'
              ' up to 6 bases at line widths 1-4 and unbroken, plus two- and three-record files with empty, all-N and description-bearing records'
              ' -- reports exactly the maximal non-N runs of each record; (D3) do_access runs scan -> (contig filter iff skip_noncanonical) -> '
              'subtract each exclude file, whole, in order, each from the result of the previous subtraction -> join, of the table with all of them removed, with the given minimum gap, and the contig filter keeps exactly the names the '
              "package's contig rule calls canonical; (A run starting at offset 0 of a record is among D2b's texts; the former syntactic `is "
              'None` rule, D4, was retired as a text rule.) (D5) the `access` command line through the argparse model: every -x / --exclude file '
              'given (0..3 occurrences, both spellings), in order, and -s reach do_access; D3 also requires the exclude files to be read as BED '
              '(not through format sniffing). Does not decide the line scanner beyond that scope (longer lines, lower-case or other IUPAC '
              'letters) nor the contents of the contig-name pattern beyond the kinds the property names (C12-D5 table).')
TECHNIQUE = ('abstract interpretation of the join loop over gap order positions; recorded-summary interpretation of the stage order; None-vs-'
             'zero truthiness lint; bounded exhaustive interpretation of the scanner on literal texts; shared precondition rule; argparse model '
             'for the command-line glue')

ACC = "cnvlib.access"


def d2(chk, prog):
    chk.clause("D2", "join decision: join <=> gap < min_gap_size; last region always emitted; no join across chromosomes; None -> 0")
    fi = prog.fn(f"{ACC}.join_regions")
    tb = Table(chk, "join-decision", "join_regions (gap1, gap2 below / at / above the minimum)", fi.loc(), fi.qn)
    pos = {"below": 5, "at": 10, "above": 15}
    for g1, g2 in itertools.product(pos, pos):
        W.reset()
        s = [Term.sym(f"s{i}", 0, INF, True) for i in range(4)]
        e = [Term.sym(f"e{i}", 0, INF, True) for i in range(4)]
        m = Term.sym("m", 0, INF, True)
        rows = [dict(chromosome="chr1", start=s[0], end=e[0]), dict(chromosome="chr1", start=s[1], end=e[1]), dict(chromosome="chr1", start=s[2], end=e[2]),
                dict(chromosome="chr2", start=s[3], end=e[3])]
        g = make_ga("GenomicArray", rows, {}, index="any", exact=True)
        pt = {"m": 10, "s0": 0, "e0": 100, "s1": 100 + pos[g1], "e1": 300, "s2": 300 + pos[g2], "e2": 500, "s3": 0, "e3": 50}
        it = Interp(prog)
        old = CTX.atoms
        CTX.atoms = atoms_at(pt)
        try:
            out = tb.guard(lambda: list(it.run(fi.qn, [g, m])), f"gap1 {g1} gap2 {g2}")
        finally:
            CTX.atoms = old
        if out is None:
            continue
        want, cur = [], [s[0], e[0]]
        for k, gp in ((1, g1), (2, g2)):
            if gp == "below":
                cur[1] = e[k]
            else:
                want.append(("chr1", cur[0], cur[1]))
                cur = [s[k], e[k]]
        want.append(("chr1", cur[0], cur[1]))
        want.append(("chr2", s[3], e[3]))
        ok = len(out) == len(want) and all(a[0] == b[0] and same(a[1], b[1]) and same(a[2], b[2]) for a, b in zip(out, want))
        tb.cell(ok, dict(gap1=g1, gap2=g2, got=[(a[0], repr(a[1]), repr(a[2])) for a in out], want=[(a[0], repr(a[1]), repr(a[2])) for a in want]))
    # min_gap_size None -> nothing joined
    W.reset()
    s = [Term.sym(f"s{i}", 0, INF, True) for i in range(2)]
    e = [Term.sym(f"e{i}", 0, INF, True) for i in range(2)]
    g = make_ga("GenomicArray", [dict(chromosome="chr1", start=s[0], end=e[0]), dict(chromosome="chr1", start=s[1], end=e[1])], {}, index="any", exact=True)
    it = Interp(prog)
    old = CTX.atoms
    CTX.atoms = atoms_at({"s0": 0, "e0": 100, "s1": 101, "e1": 300})
    try:
        out = tb.guard(lambda: list(it.run(fi.qn, [g, None])), "min_gap_size None")
    finally:
        CTX.atoms = old
    if out is not None:
        tb.cell(len(out) == 2 and same(out[0][2], e[0]) and same(out[1][1], s[1]), dict(min_gap_size=None, got=[(a[0], repr(a[1]), repr(a[2])) for a in out]))
    tb.done("regions are joined although the gap reaches the minimum (or kept apart below it), or a region is lost")


def non_n_runs(seq):
    out, start = [], None
    for i, ch in enumerate(seq + "N"):
        if ch != "N" and start is None:
            start = i
        elif ch == "N" and start is not None:
            out.append((start, i))
            start = None
    return out


def d2b(chk, prog):
    """the scanner on literal FASTA texts: every sequence over {A, N} up to 6 bases x every line width; multi-record files"""
    chk.clause("D2b", "get_regions reports exactly the maximal non-N runs of every record, whatever the line width (literal FASTA texts)")
    fi = prog.fn(f"{ACC}.get_regions")
    tb = Table(chk, "non-n-runs", "get_regions on literal FASTA texts (sequences over {A,N} of length 0..6 x line widths 1..4 and unbroken; two- and three-record files)", fi.loc(), fi.qn)
    files = []
    seqs = [""] + ["".join(p) for n in range(1, 7 if chk.tier != "thorough" else 10) for p in itertools.product("AN", repeat=n)]
    for sq in seqs:
        for w in (1, 2, 3, 4, 60):
            if w != 60 and w >= max(len(sq), 1) and w != 1:
                continue
            files.append(([("chrQ", sq)], w))
    for a, b in itertools.product(["AAA", "NAN", "ANN", "NNA", "AANAA", "", "NN"], repeat=2):
        files.append(([("chr1 description text", a), ("chr2", b)], 2))
    files.append(([("s1", "AAAA"), ("s2", "NNAANN"), ("s3", "ANANA")], 3))
    bad, undecided = [], []
    for recs, w in files:
        W.reset()
        lines = []
        for name, sq in recs:
            lines.append(f">{name}\n")
            lines += [sq[i:i + w] + "\n" for i in range(0, len(sq), w)]
        model = Model()
        model.builtins["open"] = lambda fname, *a, lines=lines, **k: list(lines)
        it = Interp(prog, model)
        try:
            out = list(it.run(fi.qn, ["genome.fa"]))
        except Undecided as u:
            undecided.append(f"{recs} width {w}: {u}")
            continue
        except Raised as r:
            bad.append(dict(records=recs, line_width=w, raised=str(r)[:100]))
            continue
        want = [(name.split()[0], a, b) for name, sq in recs for a, b in non_n_runs(sq)]
        got = [tuple(x) for x in out]
        if got != want:
            bad.append(dict(records=recs, line_width=w, got=got, want=want))
    if undecided:
        raise AnalysisError(f"C13-D2b: {len(undecided)} texts undecided, e.g. {undecided[0][:300]}")
    tb.cell(not bad, dict(texts=len(files), counterexamples=bad[:4], n_counterexamples=len(bad)))
    tb.done("get_regions does not report exactly the maximal runs of non-N characters of each record")


def d3(chk, prog):
    chk.clause("D3", "do_access: scan -> contig filter iff asked -> subtract each exclude in order -> join(min_gap_size)")
    fi = prog.fn(f"{ACC}.do_access")
    tb = Table(chk, "access-stages", "do_access stage order and option gating", fi.loc(), fi.qn)
    contigs = ["chr1", "chrUn_gl000220", "chr2_random", "chrX", "chrM", "HLA-A*01:01", "chrEBV", "chr19_KI270866v1_alt", "MT", "22"]
    canonical = ["chr1", "chrX", "22"]
    for skip, excludes in itertools.product([True, False], [(), ("a.bed",), ("a.bed", "b.bed")]):
        W.reset()
        model = Model()
        ev = []
        model.prims[f"{ACC}.get_regions"] = lambda it, f, ev=ev: ev.append(("scan", f)) or [(c, 0, 100) for c in contigs]

        def from_rows(it, cls, rows, columns=None, meta_dict=None, ev=ev):
            rows = list(it.iterate(rows))
            ev.append(("table", [r[0] for r in rows]))
            return make_ga("GenomicArray", [dict(chromosome=r[0], start=r[1], end=r[2]) for r in rows], {"stage": len(ev)}, exact=True)
        model.prims["skgenome.gary.GenomicArray.from_rows"] = from_rows

        def read(it, fname, fmt=None, **k):
            ev.append(("read", fname, fmt))
            return make_ga("GenomicArray", [dict(chromosome="chr1", start=1, end=2)], {"filename": fname}, exact=True)
        model.prims["skgenome.tabio.read"] = read
        # (format sniffing tries the interval-list pattern first: a BED line whose 4th column is a strand-like placeholder is then read 1-based)
        model.prims["skgenome.tabio.read_auto"] = lambda it, fname, *a, **k: read(it, fname, "auto-detected")

        def subtract(it, obj, other, ev=ev):
            # the whole exclude table, as read: a one-base region (far narrower than the minimum gap) must still be cut out
            ev.append(("subtract", other.meta.get("filename") if other.data.n == 1 else f"{other.meta.get('filename')} with {other.data.n} of 1 rows"))
            # the result is a new table that remembers what has been cut out of it: every exclude file must be cut out of the result of
            # the previous subtraction (not of the unfiltered scan again), and the join must see the table with all of them removed
            ev.append(("minus-before", list(obj.meta.get("_minus", ()))))
            res = GA(obj.cls, obj.data, obj.data.n, dict(obj.meta, _minus=list(obj.meta.get("_minus", ())) + [other.meta.get("filename")]))
            return res
        model.method_prims["subtract"] = subtract

        def join(it, regions, gap, ev=ev):
            ev.append(("join", gap))
            ev.append(("joined-minus", list(getattr(regions, "meta", {}).get("_minus", ())) if isinstance(regions, GA) else "not the subtracted table"))
            return [("chr1", 0, 100)]
        model.prims[f"{ACC}.join_regions"] = join
        it = Interp(prog, model)
        out = tb.guard(lambda: it.run(fi.qn, ["genome.fa", excludes, 7777, skip]), f"skip={skip} excludes={excludes}")
        if out is None:
            continue
        chain = [x[1] for x in ev if x[0] == "minus-before"]
        joined = [x[1] for x in ev if x[0] == "joined-minus"]
        ev[:] = [x for x in ev if x[0] not in ("minus-before", "joined-minus")]
        chained = chain == [list(excludes[:i]) for i in range(len(excludes))] and joined == [list(excludes)]
        kinds = [x[0] for x in ev]
        want_kinds = ["scan", "table"] + [k for _ in excludes for k in ("read", "subtract")] + ["join", "table"]
        first_table = next(x for x in ev if x[0] == "table")[1]
        ok = chained and kinds == want_kinds and first_table == (canonical if skip else contigs) and [x[1] for x in ev if x[0] == "subtract"] == list(excludes) \
            and [x for x in ev if x[0] == "join"] == [("join", 7777)] and all(x[2] in ("bed3", "bed") for x in ev if x[0] == "read")
        tb.cell(ok, dict(skip_noncanonical=skip, excludes=list(excludes), stages=kinds, cut_out_before_each_subtraction=chain, cut_out_of_the_joined_table=joined, read_as=[x[2] for x in ev if x[0] == "read"], contigs_after_filter=first_table))
    tb.done("access does not run scan -> contig filter (iff asked) -> exclude -> join, or filters the wrong contigs")


def d5(chk, prog):
    chk.clause("D5", "the `access` command line: every -x / --exclude file given, in order, and -s reach do_access")
    from .. import argmodel
    fi = prog.fn("cnvlib.commands._cmd_access")
    ps = argmodel.parser_of(prog, "_cmd_access")
    tb = Table(chk, "access-stages", "_cmd_access on the namespace argparse builds: 0 / 1 / 2 / 3 exclude options, -s given or not", fi.loc(), fi.qn)
    fd = prog.fn(f"{ACC}.do_access")
    names = [x.arg for x in fd.node.args.args]
    defaults = dict(zip(names[len(names) - len(fd.node.args.defaults):], [ast.literal_eval(d) for d in fd.node.args.defaults]))
    for excl, gap in itertools.product([(), ("a.bed",), ("a.bed", "b.bed"), ("c.bed", "a.bed", "b.bed")], [None, 3000]):
        argv = ["genome.fa"]
        for j, e in enumerate(excl):
            argv += ["--exclude" if j == 1 else "-x", e]
        if gap is not None:
            argv += ["-s", str(gap)]
        model = Model()
        model.attr_hooks.append(argmodel.ns_hook)
        seen = {}

        def do_access(it, *a, seen=seen, **k):
            b = dict(defaults)
            b.update(zip(names, a))
            b.update(k)
            seen["call"] = b
            return "ACCESS"
        model.prims[f"{ACC}.do_access"] = do_access
        model.prims["skgenome.tabio.write"] = lambda it, *a, seen=seen, **k: seen.setdefault("written", a)
        it = Interp(prog, model)
        out = tb.guard(lambda: ("done", it.run(fi.qn, [argmodel.parse(ps, argv)])), " ".join(argv))
        if out is None:
            continue
        b = seen.get("call") or {}
        ok = list(b.get("exclude_fnames") or ()) == list(excl) and b.get("fa_fname") == "genome.fa" and b.get("min_gap_size") == (gap if gap is not None else ps.opt("min_gap_size").default) \
            and b.get("min_gap_size") is not None and (seen.get("written") or [None])[0] == "ACCESS"
        tb.cell(ok, dict(command_line=" ".join(argv), do_access={k: repr(v) for k, v in b.items()}))
    tb.done("an exclude file named on the command line does not reach do_access (its regions stay in the output), or the gap size does not")


def run(chk):
    prog = chk.prog
    chk.trust("Python grammar via ast", "re: the module-level contig patterns are matched by the real `re` engine on constant strings", "merge() returns a sorted, disjoint table (C06-D3)")
    chk.clause("D1", "exclude files may overlap, nest or come unsorted: subtract() on literal tables (C06-D1b rule)")
    C07.d6(chk, prog)            # exclusion is per sequence: chromosome pairing of by_shared_chroms (shared with C07-D6)
    C06.d1b(chk, prog)          # the subtraction itself on literal tables
    C06.d3b(chk, prog)           # the subtrahend is merged first: merge's fast path and grouping predicate (C06-D3, D3b)
    C06.d3(chk, prog)
    d2(chk, prog)
    d2b(chk, prog)
    d3(chk, prog)
    d5(chk, prog)


_A = "cnvlib/access.py"
MUTANTS = [
    dict(name="seeded C13c: mixed line re-anchors an open run at the line start", file=_A, old="""                        if run_start is not None:
                            yield log_this(chrom, run_start, cursor + n_indices[0])
                        elif n_indices[0] != 0:
                            yield log_this(chrom, cursor, cursor + n_indices[0])
""", new="""                        if n_indices[0] != 0:
                            if run_start is None:
                                run_start = cursor
                            yield log_this(chrom, run_start, cursor + n_indices[0])
"""),
    dict(name="scanner: intermediate block end off by one", file=_A, old="                            ok_ends = n_indices[1:][gap_mask] + cursor\n", new="                            ok_ends = n_indices[1:][gap_mask] + cursor + 1\n"),
    dict(name="scanner: trailing run forgotten at a new record", file=_A, old="""                if run_start is not None:
                    yield log_this(chrom, run_start, cursor)
                # Start new chromosome""", new="""                # Start new chromosome"""),
    dict(name="join: gap <= minimum", file=_A, old="            if gap < min_gap_size:", new="            if gap <= min_gap_size:"),
    dict(name="join: final region not emitted", file=_A, old="                prev_start, prev_end = start, end\n        yield (chrom, prev_start, prev_end)", new="                prev_start, prev_end = start, end"),
    dict(name="join: joined region keeps the old end", file=_A, old="                prev_end = end\n            else:", new="                pass\n            else:"),
    dict(name="join before subtracting", file=_A, old="    access_regions = GA.from_rows(fa_regions)\n    for ex_fname in exclude_fnames:", new="    access_regions = GA.from_rows(join_regions(GA.from_rows(fa_regions), min_gap_size))\n    for ex_fname in exclude_fnames:"),
    dict(name="contig filter always on", file=_A, old="    if skip_noncanonical:\n", new="    if True:\n"),
    dict(name="contig filter inverted", file=_A, old="    return (tup for tup in region_tups if is_canonical_contig_name(tup[0]))", new="    return (tup for tup in region_tups if not is_canonical_contig_name(tup[0]))"),
    dict(name="every exclude file subtracted from the unfiltered scan (only the last one counts)", file=_A, old="    access_regions = GA.from_rows(fa_regions)\n    for ex_fname in exclude_fnames:\n        excluded = tabio.read(ex_fname, \"bed3\")\n        access_regions = access_regions.subtract(excluded)", new="    all_regions = access_regions = GA.from_rows(fa_regions)\n    for ex_fname in exclude_fnames:\n        excluded = tabio.read(ex_fname, \"bed3\")\n        access_regions = all_regions.subtract(excluded)"),
    dict(name="only the first exclude file", file=_A, old="    for ex_fname in exclude_fnames:", new="    for ex_fname in exclude_fnames[:1]:"),
    dict(name="min gap not passed", file=_A, old="    return GA.from_rows(join_regions(access_regions, min_gap_size))", new="    return GA.from_rows(join_regions(access_regions, 0))"),
    dict(name="seeded C13a: truthiness of run_start at a header", file=_A, old="                # Emit the last chromosome's last run, if any\n                if run_start is not None:", new="                # Emit the last chromosome's last run, if any\n                if run_start:"),
    dict(name="seeded C13b: merge skipped for start-sorted excludes", file="skgenome/subtract.py", old="    other = merge(other)\n", new='    if not other["start"].is_monotonic_increasing:\n        other = merge(other)\n'),
    dict(name="twin: gap test operands swapped", file=_A, old="            if gap < min_gap_size:", new="            if min_gap_size > gap:", expect="silent"),
]
